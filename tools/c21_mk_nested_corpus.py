line=open('/verif/corpus/C21/witness.case').read().splitlines()[0]
prefix=line[:line.index('(doc ')]
def s(x): return '"%s"'%x
class V:
    def __init__(s_,n): s_.n=n
def val(x):
    if isinstance(x,dict): return '(obj'+''.join(' (%s %s)'%(s(k),val(v)) for k,v in x.items())+')'
    if isinstance(x,list): return '(list'+''.join(' '+val(v) for v in x)+')'
    if isinstance(x,V): return '(var %s)'%s(x.n)
    return s(x)
def fld(name,args,sub=None):
    sub=[ID] if sub is None else sub
    return '(field none %s (%s) () (%s) (0 0))'%(s(name),' '.join('(%s %s)'%(s(k),val(v)) for k,v in args.items()),' '.join(sub))
ID='(field none "id" () () () (0 0))'
def op(ty,name,vardefs,sels): return '(op %s %s (%s) () (%s))'%(ty,name,' '.join(vardefs),' '.join(sels))
def vardef(n,ty,d=None): return '(vardef %s %s %s)'%(s(n),s(ty),'none' if d is None else '(some %s)'%val(d))
def doc(ops,frags=()): return '(doc (%s) (%s))'%(' '.join(ops),' '.join(frags))
def case(d,vars_={}): return prefix+d+' (vars'+''.join(' (%s %s)'%(s(k),val(v)) for k,v in vars_.items())+'))'
cases=[]
# 1 literal: depth 2 below one secret-free type (the shape of the seeded change), depth 4 below three
cases.append(case(doc([op('query','none',[],[fld('signin',{'req':{'clientId':'P0001','credentials':{'user':'P0002','pass':'S0001E'},
   'box2':{'client':'P0003','box3':{'label':'P0004','deep':{'tag':'P0005','code':'S0002E'}}}}})])])))
# 2 variables (values), a variable inside a literal, a variable default
cases.append(case(doc([op('query',s('Q'),[vardef('v','LoginRequest',{'credentials':{'pass':'S0001E'}}),vardef('w','LoginRequest'),vardef('c','Cred')],
   [fld('signin',{'req':V('v'),'reqs':[V('w'),{'credentials':V('c')}]})])]),
   {'v':{'clientId':'P0001','credentials':{'user':'P0002','pass':'S0002E','inner':{'deep':{'code':'S0003E'}}}},
    'w':{'box2':{'inner':{'pin':'S0004E','label':'P0003'}}},'c':{'keys':['S0005E','S0006E']}}))
# 3 lists and lists of lists
cases.append(case(doc([op('query',s('A'),[],[fld('walk',{'grid':[[{'client':'P0001','box3s':[{'deeps':[{'code':'S0001E'},{'tag':'P0002','code':'S0002E'}]}],
   'grid':[[{'deep':{'code':'S0003E'}}]]}]]})]),
   op('mutation',s('M'),[],[fld('update',{'reqs':[[{'credentials':{'pass':'S0004E'},'boxes':[{'inner':{'sealed':{'tag':'S0005E'}}}]}]]})])])))
# 4 oneof objects; under an inline fragment without condition and in a named fragment
cases.append(case(doc([op('query','none',[],['(inline none () (%s) (0 0))'%fld('signin',{'pick':{'token':'S0001E'},'either':{'deep':{'code':'S0002E','tag':'P0001'}}}),
   '(spread "F" () (0 0))'])],
   ['(frag "F" "Query" () (%s))'%fld('walk',{'box3':{'pick':{'sealed':{'tag':'S0003E'},'chain':{'leaf':{'code':'S0004E'}}}}})])))
# 5 recursive types, alternating secret-free / secret-carrying
cases.append(case(doc([op('query','none',[],[fld('walk',{'chain':{'name':'P0001','next':{'next':{'leaf':{'code':'S0001E'},
   'tree':{'key':'S0002E','label':'P0002','chain':{'fork':[{'leaf':{'code':'S0003E'}}]},'vault':{'label':'S0004E','child':{'label':'S0005E'}}}}}}})])])))
# 6 secret fields whose type is a secret-free input object / a list of them, next to plain siblings; a secret argument of such a type
cases.append(case(doc([op('query','none',[],[fld('signin',{'mixed':{'name':'P0001','otp':'S0001E','sealedBox':{'client':'S0002E','box3':{'label':'S0003E'}},
   'sealedBoxes':[{'label':'S0004E'}],'box2':{'client':'P0002','inner':{'pin':'S0005E'}},'req':{'credentials':{'pass':'S0006E'}}},
   'sealed':{'clientId':'S0007E'}})])])))
open('/verif/corpus/C21/nested.case','w').write('\n'.join(cases)+'\n')
