#!/bin/bash
# tools/confirm_seed.sh Cnn [outdir]
# Confirms a seeded change (compiles, demo fails with / passes without, full suite passes with it),
# stores it under /verif/seeded/Cnn/, then runs ./check Cnn against the mutated tree (AGV_REPO).
# Uses one persistent scratch worktree + shadow so builds are incremental.
PID="$1"; OUT="${2:-/tmp/agv-seed-$PID-out}"; NAME="${3:-$PID}"
MUT="${AGV_MUT:-/var/tmp/agv-mut}"
WT=$MUT/repo; SH=$MUT/shadow; TGT=$MUT/target
LOG=/var/tmp/agv-mut/logs/$NAME; mkdir -p "$LOG" "$MUT"
export CARGO_NET_OFFLINE=true CARGO_TARGET_DIR=$TGT
set -u
if [ ! -d "$WT" ]; then git -C /repo worktree add -q "$WT" HEAD || exit 2; fi
cd "$WT" || exit 2
git checkout -q -- . ; git clean -fdq -e target ; git checkout -q --detach "$(git -C /repo rev-parse HEAD)"
dest=$(python3 -c "import json;print(json.load(open('$OUT/meta.json'))['demo_dest'])")
cmd=$(python3 -c "import json;print(json.load(open('$OUT/meta.json'))['demo_cmd'])")
mkdir -p "$(dirname "$dest")"; cp "$OUT/demo.rs" "$dest"
res() { echo "$1" | tee -a "$LOG/summary.txt"; }
: > "$LOG/summary.txt"
# 1. demo passes on the unmodified tree
( eval "$cmd" ) > "$LOG/demo_clean.log" 2>&1; rc_clean=$?
res "demo_on_clean_tree rc=$rc_clean"
# 2. apply patch, demo fails
if ! git apply "$OUT/patch.diff" 2> "$LOG/apply.log"; then res "patch_does_not_apply"; exit 3; fi
( eval "$cmd" ) > "$LOG/demo_patched.log" 2>&1; rc_pat=$?
res "demo_on_patched_tree rc=$rc_pat"
# 3. full existing suite with the patch (demo removed)
rm -f "$dest"
cargo test --workspace --no-fail-fast --offline > "$LOG/suite.log" 2>&1; rc_suite=$?
passed=$(grep -E "^test result" "$LOG/suite.log" | awk '{p+=$4; f+=$6} END {print p" passed "f" failed"}')
res "suite_with_patch rc=$rc_suite $passed"
# 4. our check against the mutated tree
cd /verif
if [ -n "${AGV_CHECK_LOG:-}" ]; then
  # the check against the mutated tree was run separately (in parallel, own worktree and shadow)
  v=$(grep -E '^VIOLATION' "$AGV_CHECK_LOG" | head -1); if [ -n "$v" ]; then rc_chk=1; else rc_chk=0; fi
  res "check rc=$rc_chk $v"
else
env -u CARGO_TARGET_DIR AGV_REPO=$WT AGV_SHADOW=$SH ./check "$PID" > "$LOG/check.log" 2>&1; rc_chk=$?
res "check rc=$rc_chk $(grep -E '^VIOLATION' "$LOG/check.log" | head -1)"
fi
# 5. store
mkdir -p /verif/seeded/$NAME
cp "$OUT/patch.diff" /verif/seeded/$NAME/patch.diff; cp "$OUT/demo.rs" /verif/seeded/$NAME/demo.rs
python3 - "$OUT/meta.json" "$LOG/summary.txt" /verif/seeded/$NAME/meta.json <<'PY'
import json,sys
m=json.load(open(sys.argv[1])); m["confirmation"]=open(sys.argv[2]).read().splitlines()
json.dump(m,open(sys.argv[3],"w"),indent=1)
PY
cd "$WT"; git checkout -q -- . ; git clean -fdq -e target
