#!/usr/bin/env python3
"""Regenerates lean/lakefile.toml (one lean_exe per AGV/Drive/Cnn.lean) and lean/AGV.lean
(imports the shared Util/Core modules; property modules are built per property).  Content is a pure
function of the files present; rewritten only when it changes."""
import os
ROOT = os.path.dirname(os.path.dirname(os.path.abspath(__file__)))
LEAN = os.path.join(ROOT, "lean")

def write_if_changed(p, s):
    if os.path.exists(p) and open(p).read() == s:
        return
    with open(p, "w") as f:
        f.write(s)

drives = sorted(f[:-5] for f in os.listdir(os.path.join(LEAN, "AGV", "Drive")) if f.endswith(".lean"))
lk = 'name = "agv"\nversion = "0.1.0"\ndefaultTargets = ["AGV"]\n\n[[lean_lib]]\nname = "AGV"\n'
for d in drives:
    lk += f'\n[[lean_exe]]\nname = "drv_{d}"\nroot = "AGV.Drive.{d}"\n'
write_if_changed(os.path.join(LEAN, "lakefile.toml"), lk)

mods = []
for sub in ["Util", "Core"]:
    d = os.path.join(LEAN, "AGV", sub)
    if os.path.isdir(d):
        for f in sorted(os.listdir(d)):
            if f.endswith(".lean"):
                mods.append(f"AGV.{sub}.{f[:-5]}")
write_if_changed(os.path.join(LEAN, "AGV.lean"), "".join(f"import {m}\n" for m in mods))
