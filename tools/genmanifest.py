#!/usr/bin/env python3
"""Regenerates MANIFEST.json from props/*.json (claimed checks) and tools/not_applicable.json."""
import json, os
ROOT = os.path.dirname(os.path.dirname(os.path.abspath(__file__)))
props = sorted(f[:-5] for f in os.listdir(os.path.join(ROOT, "props")) if f.endswith(".json"))
allp = [json.loads(l)["id"] for l in open(os.path.join(ROOT, "properties.jsonl"))]
na_path = os.path.join(ROOT, "tools", "not_applicable.json")
na = json.load(open(na_path)) if os.path.exists(na_path) else {}
checks = []
for pid in props:
    c = json.load(open(os.path.join(ROOT, "props", pid + ".json")))
    checks.append({
        "property_id": pid,
        "quick_cmd": f"./check {pid} --tier quick",
        "thorough_cmd": f"./check {pid} --tier thorough",
        "evidence_file": f"evidence/{pid}.json",
        "replay_cmd_template": f"./check {pid} --replay {{path}}",
        "engine": "lean4+harness",
        "level_claimed": {"category": c.get("level", "proof") if c.get("level", "proof") in ("exploration", "fault_enumeration", "model_checking", "proof", "translation_validation", "other") else "proof", "text": c["level_text"], "design_ref": c.get("design_ref", "DESIGN.md §4 " + pid)},
        "level_note": c["level_note"],
        "technique": c.get("technique", "Lean 4 theorems about an executable model + correspondence check against the Rust implementation"),
    })
hooks_commits = json.load(open(os.path.join(ROOT, "tools", "hooks.json"))) if os.path.exists(os.path.join(ROOT, "tools", "hooks.json")) else []
m = {
    "version": 1,
    "setup_cmd": "./setup.sh",
    "hooks": {
        "guard": "async_graphql_verif",
        "enable": "RUSTFLAGS --cfg async_graphql_verif, set in harness/core/.cargo/config.toml (harness builds /repo as a path dependency)",
        "baseline_off_cmd": "cd /repo && cargo nextest run --workspace --no-fail-fast --tool-config-file pb:/w/lib/nextest.toml --profile pb --test-threads 8 --offline || cargo test --workspace --no-fail-fast --offline",
        "source_commits": hooks_commits,
        "add_only": True,
    },
    "engines": [{"name": "lean4+harness", "path": "check", "serves_properties": props,
                 "kind_free_text": "Lean 4 machine-checked theorems about executable models (lean/AGV), tied to /repo by source-derived facts (srcfacts/) and a differential correspondence harness (harness/core) judged by compiled Lean drivers"}],
    "checks": checks,
    "notes": "See DESIGN.md. known_findings.json lists recorded findings and fixed defects.",
    "not_applicable": [{"property_id": p, "reason": na.get(p, "not yet claimed: model and correspondence harness for this property are not built yet (work in progress, see DESIGN.md §4)")} for p in allp if p not in props],
}
json.dump(m, open(os.path.join(ROOT, "MANIFEST.json"), "w"), indent=1)
print("MANIFEST.json:", len(checks), "checks,", len(m["not_applicable"]), "not claimed")
