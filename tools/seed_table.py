#!/usr/bin/env python3
"""tools/seed_table.py SUFFIX  — sets caught_by_check / verdict in seeded/Cnn<SUFFIX>/meta.json from the
recorded confirmation lines and prints the markdown table for DESIGN.md (SUFFIX '' = round 1, '-r2', '-r3')."""
import json, os, sys, glob
suf = sys.argv[1] if len(sys.argv) > 1 else ""
root = os.path.join(os.path.dirname(os.path.abspath(__file__)), "..", "seeded")
rows = []
for i in range(1, 36):
    pid = "C%02d" % i
    p = os.path.join(root, pid + suf, "meta.json")
    if not os.path.exists(p):
        continue
    m = json.load(open(p))
    conf = m.get("confirmation", [])
    chk = [l for l in conf if l.startswith("check rc=")]
    last = chk[-1] if chk else ""
    caught = "rc=1" in last and "VIOLATION" in last
    nofail = "no-failing-input-found" in last
    m["caught_by_check"] = caught
    m["verdict"] = ("VIOLATION, no failing input found (broken proof/correspondence named)" if caught and nofail
                    else "VIOLATION, failing input replayed" if caught else "MISSED")
    json.dump(m, open(p, "w"), indent=1)
    s = m["summary"].replace("|", "\\|").replace("\n", " ")
    rows.append(f"| {pid} | {s[:150]} | {m['verdict']}{(' — ' + m['note'][:160]) if m.get('note') else ''} |")
print("| id | seeded change (one line) | verdict of `./check` |")
print("|----|--------------------------|----------------------|")
print("\n".join(rows))
