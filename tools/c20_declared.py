#!/usr/bin/env python3
"""C20: regenerate corpus/C20/declared.case — one case line per schema variant of the harness
(v0..v3, zoo), each the first hand-written case of that variant.  srcfacts/gen.py (extractor
C20Decl) turns the schema description and the DECLARED hint table of these lines into the Lean
constants of lean/AGV/Gen/C20Decl.lean; the judge refuses a case whose schema / table differs from
them.  Run after changing the schema or a declared hint in harness/core/src/bin/c20.rs:

    cd harness/core && cargo build --offline --bin c20 && python3 ../../tools/c20_declared.py
"""
import os, subprocess, sys, tempfile
ROOT = os.path.dirname(os.path.dirname(os.path.abspath(__file__)))
binp = os.path.join(ROOT, "harness", "target", "debug", "c20")
with tempfile.TemporaryDirectory() as d:
    subprocess.run([binp, "--out", d, "--seed", "1", "--n", "40", "--tier", "quick", "--stream", "main"], check=True,
                   stdout=subprocess.DEVNULL)
    seen, out = set(), []
    for line in open(os.path.join(d, "cases.txt"), encoding="utf-8"):
        tag = line.split('"')[1]
        if tag not in seen:
            seen.add(tag)
            out.append(line)
if seen != {"v0", "v1", "v2", "v3", "zoo"}:
    sys.exit(f"c20_declared: variants found: {sorted(seen)}")
with open(os.path.join(ROOT, "corpus", "C20", "declared.case"), "w", encoding="utf-8") as f:
    f.writelines(out)
print("wrote corpus/C20/declared.case:", len(out), "lines")
