#!/usr/bin/env python3
"""C09: regenerate lean/AGV/Model/ValidateDynSchema.lean and lean/AGV/Model/ValidateStaticSchemas.lean (the
three variants of the static harness schema: plain, with `ifdef`, with merged roots; same procedure on
stream `main`).
Dynamic flavour: lean/AGV/Model/ValidateDynSchema.lean — the registry dump of the
harness schema built with async_graphql::dynamic, as a Lean constant (`dynSchema : VSchema`).

The dump is taken from the first case the built harness binary generates for stream `dynamic`
(`harness/target/debug/c09 --stream dynamic --n 1`), i.e. it is what `dump_registry` read from the
REAL registry through ExtensionContext::schema_env.  The judge (Drive/C09.lean) compares the dump of
every dynamic case with this constant and answers TIE when they differ, so a stale constant (the
library or the harness schema changed) is noticed by `./check C09`; then rerun this script
(`cargo build --offline --bin c09` in harness/core first) and rebuild the proofs.

Not called by ./check (the harness is built after the Lean files); the generated file is committed.
"""
import os, subprocess, sys, tempfile

ROOT = os.path.dirname(os.path.dirname(os.path.abspath(__file__)))
OUT = os.path.join(ROOT, "lean", "AGV", "Model", "ValidateDynSchema.lean")


def parse(s):
    i = 0
    n = len(s)

    def skip():
        nonlocal i
        while i < n and s[i].isspace():
            i += 1

    def rd():
        nonlocal i
        skip()
        if s[i] == "(":
            i += 1
            out = []
            while True:
                skip()
                if s[i] == ")":
                    i += 1
                    return out
                out.append(rd())
        if s[i] == '"':
            i += 1
            cs = []
            while s[i] != '"':
                if s[i] == "\\":
                    i += 1
                    c = s[i]
                    if c == "u":
                        j = s.index("}", i)
                        cs.append(chr(int(s[i + 2:j], 16)))
                        i = j
                    else:
                        cs.append({"n": "\n", "r": "\r", "t": "\t"}.get(c, c))
                else:
                    cs.append(s[i])
                i += 1
            i += 1
            return ("str", "".join(cs))
        j = i
        while i < n and not s[i].isspace() and s[i] not in '()"':
            i += 1
        return ("atom", s[j:i])

    return rd()


def q(x):
    assert x[0] == "str", x
    assert all(0x20 <= ord(c) <= 0x7E and c not in '"\\' for c in x[1]), x
    return '"' + x[1] + '"'


def tref(x):
    if isinstance(x, tuple):
        return f'.named {q(x)}'
    tag = x[0][1]
    inner = tref(x[1])
    return f'.{"list" if tag == "list" else "nonNull"} ({inner})'


def argdef(a):
    assert a[0] == ("atom", "arg")
    d = a[3]
    if d == ("atom", "none"):
        dv = "none"
    else:
        assert d == [("atom", "some"), ("atom", "null")], d
        dv = "some .null"
    return f'{{ name := {q(a[1])}, ty := {tref(a[2])}, default := {dv} }}'


NL8 = ",\n        "
NL = ",\n"


def lst(xs, sep=", "):
    return "[" + sep.join(xs) + "]"


def schema_defs(vs, prefix, const, doc):
    """Lean definitions `<prefix>Types`, `<prefix>Dirs`, `<prefix>Inputs`, `<const> : VSchema` for one dump"""
    assert vs[0] == ("atom", "vschema")
    sc, dirs, inputs, subflag = vs[1], vs[2], vs[3], vs[4]
    assert sc[0] == ("atom", "schema") and dirs[0] == ("atom", "dirs") and inputs[0] == ("atom", "inputs")
    assert subflag[0] == ("atom", "subflag")
    types = []
    for t in sc[4]:
        assert t[0] == ("atom", "type")
        fields = [f'{{ name := {q(f[1])}, ty := {tref(f[2])}, args := {lst([argdef(a) for a in f[3]])} }}' for f in t[3]]
        types.append(
            f'    {{ name := {q(t[1])}, kind := .{t[2][1]},\n      fields := {lst(fields, NL8)},\n'
            f'      implements := {lst([q(x) for x in t[4]])}, members := {lst([q(x) for x in t[5]])}, values := {lst([q(x) for x in t[6]])} }}')
    opt = lambda x: "none" if x == ("atom", "none") else f"some {q(x)}"
    ds = []
    for d in dirs[1:]:
        assert d[0] == ("atom", "dirdef")
        ds.append(f'    {{ name := {q(d[1])}, repeatable := {d[2][1]}, locs := {lst([chr(34) + l[1] + chr(34) for l in d[3]])},\n'
                  f'      args := {lst([argdef(a) for a in d[4]])} }}')
    ins = []
    for i in inputs[1:]:
        assert i[0] == ("atom", "input")
        ins.append(f'    {{ name := {q(i[1])}, oneof := {i[2][1]},\n      fields := {lst([argdef(a) for a in i[3:]], NL8)} }}')
    return f'''def {prefix}Types : List TypeDef := [
{NL.join(types)}]

def {prefix}Dirs : List DirDef := [
{NL.join(ds)}]

def {prefix}Inputs : List InputDef := [
{NL.join(ins)}]

/-- {doc} -/
def {const} : VSchema :=
  {{ base := {{ types := {prefix}Types, query := {q(sc[1])}, mutation := {opt(sc[2])}, subscription := {opt(sc[3])} }},
    dirs := {prefix}Dirs, inputs := {prefix}Inputs, subFlag := {lst([q(x) for x in subflag[1:]])} }}
'''


def write(path, body):
    old = open(path).read() if os.path.exists(path) else None
    if old != body:
        open(path, "w").write(body)
        print("wrote", path)
    else:
        print("unchanged", path)


def main():
    binp = os.path.join(ROOT, "harness", "target", "debug", "c09")
    with tempfile.TemporaryDirectory() as td:
        subprocess.run([binp, "--out", td, "--seed", "1", "--n", "1", "--tier", "quick", "--stream", "dynamic"], check=True)
        line = open(os.path.join(td, "cases.txt")).readline()
    case = parse(line)
    assert case[0] == ("atom", "case") and case[-1] == [("atom", "flavour"), ("atom", "dynamic")]
    body = f'''/-
  C09, dynamic flavour — GENERATED by tools/c09_dyn_schema.py from the registry dump of the harness
  schema built with `async_graphql::dynamic` (harness/core/src/c09/dynschema.rs).  Do not edit.

  `dynSchema` is what `dump_registry` read back from the REAL registry of that schema (types incl. the
  introspection types `create_introspection_types` adds, the five system directives, input objects,
  the names of the object types flagged `is_subscription`);
  the judge compares the dump of every case of stream `dynamic` with it (`vschemaEq`).
-/
import AGV.Core.Types
import AGV.Core.VSchema

namespace AGV.Model.ValidateDynSchema
open AGV.Core

{schema_defs(case[1], "dyn", "dynSchema", "the registry of the dynamic flavour of the harness schema, as dumped")}
def dirDefEq (a b : DirDef) : Bool :=
  a.name == b.name && a.repeatable == b.repeatable && a.locs == b.locs && a.args == b.args
def inputDefEq (a b : InputDef) : Bool :=
  a.name == b.name && a.oneof == b.oneof && a.fields == b.fields
def listEq {{α}} (eq : α → α → Bool) : List α → List α → Bool
  | [], [] => true
  | x :: xs, y :: ys => eq x y && listEq eq xs ys
  | _, _ => false
/-- the same description (component by component, the `is_subscription` flags included) -/
def vschemaEq (a b : VSchema) : Bool :=
  a.base.types == b.base.types && a.base.query == b.base.query && a.base.mutation == b.base.mutation
  && a.base.subscription == b.base.subscription && listEq dirDefEq a.dirs b.dirs && listEq inputDefEq a.inputs b.inputs
  && a.subFlag == b.subFlag

end AGV.Model.ValidateDynSchema
'''
    write(OUT, body)

    # ---- the three variants of the STATIC harness schema (stream `main`)
    with tempfile.TemporaryDirectory() as td:
        subprocess.run([binp, "--out", td, "--seed", "1", "--n", "400", "--tier", "quick", "--stream", "main"], check=True)
        lines = open(os.path.join(td, "cases.txt")).read().splitlines()
    found = {}
    for line in lines:
        key = "merged" if '(vschema (schema "MQuery"' in line else ("ifdef" if '(dirdef "ifdef"' in line else "plain")
        if key not in found:
            found[key] = parse(line)[1]
        if len(found) == 3:
            break
    assert set(found) == {"plain", "ifdef", "merged"}, sorted(found)
    sbody = f'''/-
  C09, static flavour — GENERATED by tools/c09_dyn_schema.py from the registry dumps of the three variants
  of the static harness schema (harness/core/src/c09/schema.rs).  Do not edit.

  `plainSchema`   roots are plain `#[Object]` / `#[Subscription]` impls
  `ifdefSchema`   the same, plus a custom field directive called `ifdef`
  `mergedSchema`  the same field set with merged roots: `MQuery` / `MMutation` are `#[derive(MergedObject)]`
                  of `#[Object]` parts, `MSubscription` is a `#[derive(MergedSubscription)]` of two
                  `#[Subscription]` parts — their `MetaType::Object`s (and the `is_subscription` flags in
                  `subFlag`) are written by derive/src/merged_object.rs / merged_subscription.rs
  Each is what `dump_registry` read back from the REAL registry; the judge compares the dump of every case
  of stream `main` with these constants (`isStaticVariant`): a difference is a broken tie.
-/
import AGV.Core.Types
import AGV.Core.VSchema
import AGV.Model.ValidateDynSchema

namespace AGV.Model.ValidateStaticSchemas
open AGV.Core

{schema_defs(found["plain"], "plain", "plainSchema", "static harness schema, plain roots, as dumped")}
{schema_defs(found["ifdef"], "ifdef", "ifdefSchema", "static harness schema with the custom directive `ifdef`, as dumped")}
{schema_defs(found["merged"], "merged", "mergedSchema", "static harness schema with MergedObject / MergedSubscription roots, as dumped")}
def staticVariants : List VSchema := [plainSchema, ifdefSchema, mergedSchema]

/-- the description is one of the three dumped variants -/
def isStaticVariant (S : VSchema) : Bool := staticVariants.any (ValidateDynSchema.vschemaEq S)

end AGV.Model.ValidateStaticSchemas
'''
    write(os.path.join(ROOT, "lean", "AGV", "Model", "ValidateStaticSchemas.lean"), sbody)


if __name__ == "__main__":
    sys.exit(main())
