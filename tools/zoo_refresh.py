#!/usr/bin/env python3
"""Regenerates what is derived from harness/core/src/zoo.rs (the derive-macro declaration zoo of C17/C18):
corpus/C17/zoo.case, corpus/C18/zoo.case and the witness lines of the two zoo findings in
known_findings.json.  Run after every change of zoo.rs (the case lines carry the hand-written description;
a stale line would be judged against the new build of the schema)."""
import json, os, subprocess, tempfile
ROOT = os.path.dirname(os.path.dirname(os.path.abspath(__file__)))
BIN = os.path.join(ROOT, "harness", "target", "debug")
subprocess.run(["cargo", "build", "--offline", "--bin", "c17", "--bin", "c18"], cwd=os.path.join(ROOT, "harness", "core"), check=True)

def cases(binary, n):
    d = tempfile.mkdtemp(prefix="agv-zoo-")
    subprocess.run([os.path.join(BIN, binary), "--out", d, "--seed", "1", "--n", str(n), "--tier", "quick", "--stream", "main"],
                   check=True, stdout=subprocess.DEVNULL, stderr=subprocess.DEVNULL)
    return open(os.path.join(d, "cases.txt")).read().splitlines()

z17 = [l for l in cases("c17", 14) if "(static5 " in l][0]
z18 = [l for l in cases("c18", 2) if l.startswith("(case zoo ")][0]
head = z18[:z18.rindex(" ")]
z18s = [f"{head} {tok})" for tok in (255, 0, 0b10100101)]
for pid, lines in (("C17", [z17]), ("C18", z18s)):
    with open(os.path.join(ROOT, "corpus", pid, "zoo.case"), "w") as f:
        f.write("\n".join(lines) + "\n")
kf = os.path.join(ROOT, "known_findings.json")
d = json.load(open(kf))
w = {"C17-list-of-pointer-to-option-non-null": z17, "C18-list-of-pointer-to-option-non-null": z18s[0]}
n = 0
for sect in ("findings", "fixed_details"):
    for f in d.get(sect, []):
        if f.get("id") in w and f.get("witness") != w[f["id"]]:
            f["witness"] = w[f["id"]]
            n += 1
if n:
    with open(kf, "w") as f:
        json.dump(d, f, indent=1, ensure_ascii=False)
        f.write("\n")
print(f"corpus/C17/zoo.case, corpus/C18/zoo.case written; {n} witness line(s) updated")
