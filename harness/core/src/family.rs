//! The static schema family (derive macros) with data-driven resolvers, the schema
//! description read back from the real registry, world and document generators, printers.
//! Shared by the executor-family properties (C01, C03, C04, C05, C22, C30 …).
//!
//! Every resolver looks its answer up in a `World` passed as request data, keyed by
//! (object identity, field name), converts it to its declared Rust type and appends to an
//! invocation log.  Object identities: Query = 0, A = 1..=3, B = 4..=6, C = 7..=9.

use std::{
    collections::{BTreeMap, HashMap},
    sync::{Arc, Mutex},
};

use async_graphql::{
    Context, EmptySubscription, Enum, Interface, Object, Result, Schema, Union, Value as AValue,
};
use async_graphql_parser::{parse_schema, types as pt};

use agvh::{Dist, Rng, Sexp, atom, list, node, num, st};

// ------------------------------------------------------------------ values

#[derive(Clone, Debug, PartialEq)]
pub enum GV {
    Null,
    Int(i64),
    Float(String),
    Str(String),
    Bool(bool),
    Enum(String),
    List(Vec<GV>),
    Obj(Vec<(String, GV)>),
}

impl GV {
    pub fn to_sexp(&self) -> Sexp {
        match self {
            GV::Null => atom("null"),
            GV::Int(i) => num(i),
            GV::Float(t) => node("f", vec![st(t.clone())]),
            GV::Str(s) => st(s.clone()),
            GV::Bool(b) => atom(if *b { "true" } else { "false" }),
            GV::Enum(e) => node("e", vec![st(e.clone())]),
            GV::List(xs) => node("list", xs.iter().map(|x| x.to_sexp()).collect()),
            GV::Obj(fs) => node("obj", fs.iter().map(|(k, v)| list(vec![st(k.clone()), v.to_sexp()])).collect()),
        }
    }
    pub fn from_sexp(s: &Sexp) -> Option<GV> {
        Some(match s {
            Sexp::Atom(a) if a == "null" => GV::Null,
            Sexp::Atom(a) if a == "true" => GV::Bool(true),
            Sexp::Atom(a) if a == "false" => GV::Bool(false),
            Sexp::Atom(a) => GV::Int(a.parse().ok()?),
            Sexp::Str(s) => GV::Str(s.clone()),
            Sexp::List(_) => match s.tag()? {
                "f" => GV::Float(s.args()[0].as_str()?.to_string()),
                "e" => GV::Enum(s.args()[0].as_str()?.to_string()),
                "list" => GV::List(s.args().iter().map(GV::from_sexp).collect::<Option<_>>()?),
                "obj" => GV::Obj(
                    s.args()
                        .iter()
                        .map(|p| {
                            let l = p.as_list()?;
                            Some((l[0].as_str()?.to_string(), GV::from_sexp(&l[1])?))
                        })
                        .collect::<Option<_>>()?,
                ),
                _ => return None,
            },
        })
    }
    /// to the request-side value type (variables)
    pub fn to_avalue(&self) -> AValue {
        match self {
            GV::Null => AValue::Null,
            GV::Int(i) => AValue::Number((*i).into()),
            GV::Float(t) => AValue::Number(serde_json::Number::from_f64(float_of_token(t)).unwrap_or(0.into())),
            GV::Str(s) => AValue::String(s.clone()),
            GV::Bool(b) => AValue::Boolean(*b),
            GV::Enum(e) => AValue::Enum(async_graphql::Name::new(e)),
            GV::List(xs) => AValue::List(xs.iter().map(|x| x.to_avalue()).collect()),
            GV::Obj(fs) => AValue::Object(fs.iter().map(|(k, v)| (async_graphql::Name::new(k), v.to_avalue())).collect()),
        }
    }
}

pub fn float_token(f: f64) -> String {
    if f.is_nan() {
        "NaN".into()
    } else if f.is_infinite() {
        if f > 0.0 { "inf".into() } else { "-inf".into() }
    } else {
        serde_json::to_string(&f).unwrap()
    }
}
pub fn float_of_token(t: &str) -> f64 {
    match t {
        "NaN" => f64::NAN,
        "inf" => f64::INFINITY,
        "-inf" => f64::NEG_INFINITY,
        _ => t.parse().unwrap(),
    }
}

/// response data as a canonical S-expression, key order preserved; enums arrive as strings
pub fn avalue_to_sexp(v: &AValue) -> Sexp {
    match v {
        AValue::Null => atom("null"),
        AValue::Number(n) => {
            if let Some(i) = n.as_i64() {
                num(i)
            } else if let Some(u) = n.as_u64() {
                num(u)
            } else {
                node("f", vec![st(float_token(n.as_f64().unwrap()))])
            }
        }
        AValue::String(s) => st(s.clone()),
        AValue::Boolean(b) => atom(if *b { "true" } else { "false" }),
        AValue::Enum(e) => st(e.to_string()),
        AValue::Binary(_) => atom("binary"),
        AValue::List(xs) => node("list", xs.iter().map(avalue_to_sexp).collect()),
        AValue::Object(m) => node("obj", m.iter().map(|(k, v)| list(vec![st(k.to_string()), avalue_to_sexp(v)])).collect()),
    }
}

// ------------------------------------------------------------------ world

#[derive(Clone, Debug)]
pub enum RVal {
    Null,
    Leaf(GV),
    Obj(String, u32),
    List(Vec<RVal>),
    Fail(String),
    Arg(String),
}

impl RVal {
    pub fn to_sexp(&self) -> Sexp {
        match self {
            RVal::Null => atom("null"),
            RVal::Leaf(v) => node("leaf", vec![v.to_sexp()]),
            RVal::Obj(t, id) => node("o", vec![st(t.clone()), num(id)]),
            RVal::List(xs) => node("l", xs.iter().map(|x| x.to_sexp()).collect()),
            RVal::Fail(m) => node("fail", vec![st(m.clone())]),
            RVal::Arg(a) => node("arg", vec![st(a.clone())]),
        }
    }
    pub fn from_sexp(s: &Sexp) -> Option<RVal> {
        Some(match s {
            Sexp::Atom(a) if a == "null" => RVal::Null,
            _ => match s.tag()? {
                "leaf" => RVal::Leaf(GV::from_sexp(&s.args()[0])?),
                "o" => RVal::Obj(s.args()[0].as_str()?.to_string(), s.args()[1].as_usize()? as u32),
                "l" => RVal::List(s.args().iter().map(RVal::from_sexp).collect::<Option<_>>()?),
                "fail" => RVal::Fail(s.args()[0].as_str()?.to_string()),
                "arg" => RVal::Arg(s.args()[0].as_str()?.to_string()),
                _ => return None,
            },
        })
    }
}

#[derive(Default)]
pub struct World {
    pub entries: Vec<((u32, String), RVal)>,
    pub index: HashMap<(u32, String), RVal>,
    /// invocation log: (parent id, field name, response key)
    pub log: Mutex<Vec<(u32, String, String)>>,
    /// (C22, optional) when `Some(names)`, every resolver invocation also records the selection-field
    /// view and the look-ahead view (probed with `names`) of its field into `views`
    pub view_names: Option<Vec<String>>,
    pub views: Mutex<Vec<Sexp>>,
    /// (C22) argument values received by the resolver that is about to call `get`
    pub recv: Mutex<Vec<(String, GV)>>,
    /// (C04/C05, optional) when present, every resolver is traced (start/end with the response
    /// path of its parent position) and waits behind a gate that is Pending `k` times
    pub sched: Option<Sched>,
    pub trace: Mutex<Vec<TraceEv>>,
    /// (C27, optional) an external gate awaited by every resolver after its world lookup:
    /// (parent object id, gate key) -> future; `None` = no extra suspension (as before)
    pub gate_hook: Option<GateHook>,
}

impl World {
    pub fn new(entries: Vec<((u32, String), RVal)>) -> World {
        let index = entries.iter().cloned().collect();
        World { entries, index, log: Mutex::new(vec![]), ..Default::default() }
    }
    pub fn to_sexp(&self) -> Sexp {
        node(
            "world",
            self.entries.iter().map(|((id, f), v)| list(vec![list(vec![num(id), st(f.clone())]), v.to_sexp()])).collect(),
        )
    }
    pub fn from_sexp(s: &Sexp) -> Option<World> {
        let mut es = vec![];
        for e in s.args() {
            let l = e.as_list()?;
            let k = l[0].as_list()?;
            es.push(((k[0].as_usize()? as u32, k[1].as_str()?.to_string()), RVal::from_sexp(&l[1])?));
        }
        Some(World::new(es))
    }
    pub fn get(&self, ctx: &Context<'_>, id: u32, f: &str) -> RVal {
        let key = ctx.field().alias().unwrap_or(ctx.field().name()).to_string();
        if let Some(names) = &self.view_names {
            let recv = std::mem::take(&mut *self.recv.lock().unwrap());
            let rec = view_record(ctx, id, f, &key, names, &recv);
            self.views.lock().unwrap().push(rec);
        }
        self.log.lock().unwrap().push((id, f.to_string(), key));
        self.index.get(&(id, f.to_string())).cloned().unwrap_or(RVal::Null)
    }
}

pub fn world<'a>(ctx: &'a Context<'_>) -> &'a Arc<World> {
    ctx.data_unchecked::<Arc<World>>()
}

// ------------------------------------------------------------------ (C22) views seen by a resolver

/// `(f NAME ALIAS (args (K V)…) [(children…)])` — one `SelectionField`, children to `depth`
pub fn selection_field_sexp(f: &async_graphql::SelectionField<'_>, depth: usize) -> Sexp {
    let args = match f.arguments() {
        Ok(a) => node("args", a.iter().map(|(k, v)| list(vec![st(k.to_string()), const_to_gv(v).to_sexp()])).collect()),
        Err(_) => node("args", vec![atom("err")]),
    };
    let mut v = vec![st(f.name()), f.alias().map(st).unwrap_or(atom("none")), args];
    if depth > 0 {
        v.push(list(f.selection_set().map(|c| selection_field_sexp(&c, depth - 1)).collect()));
    }
    node("f", v)
}

/// `(inv PARENT FIELD KEY (LINE COL) (path…) (recv (K V)…) (sel ENTRY…) (la (n NAME EXISTS (ENTRY…) ((m NAME EXISTS (ENTRY…))…))…))`
fn view_record(ctx: &Context<'_>, id: u32, f: &str, key: &str, names: &[String], recv: &[(String, GV)]) -> Sexp {
    let b = |x: bool| atom(if x { "true" } else { "false" });
    let mut path = vec![];
    let mut cur = ctx.path_node.as_ref();
    while let Some(n) = cur {
        path.push(match n.segment {
            async_graphql::QueryPathSegment::Index(i) => num(i),
            async_graphql::QueryPathSegment::Name(s) => st(s),
        });
        cur = n.parent;
    }
    path.reverse();
    let sel = node("sel", ctx.field().selection_set().map(|c| selection_field_sexp(&c, 1)).collect());
    let la = ctx.look_ahead();
    let la_sexp = node(
        "la",
        names
            .iter()
            .map(|n| {
                let l1 = la.field(n);
                let subs = if l1.exists() {
                    names
                        .iter()
                        .filter_map(|m| {
                            let l2 = l1.field(m);
                            let fs = l2.selection_fields();
                            if l2.exists() || !fs.is_empty() {
                                Some(node("m", vec![st(m.clone()), b(l2.exists()), list(fs.iter().map(|x| selection_field_sexp(x, 0)).collect())]))
                            } else {
                                None
                            }
                        })
                        .collect()
                } else {
                    vec![]
                };
                node(
                    "n",
                    vec![st(n.clone()), b(l1.exists()), list(l1.selection_fields().iter().map(|x| selection_field_sexp(x, 0)).collect()), list(subs)],
                )
            })
            .collect(),
    );
    node(
        "inv",
        vec![
            num(id),
            st(f),
            st(key),
            list(vec![num(ctx.item.pos.line), num(ctx.item.pos.column)]),
            list(path),
            node("recv", recv.iter().map(|(k, v)| list(vec![st(k.clone()), v.to_sexp()])).collect()),
            sel,
            la_sexp,
        ],
    )
}

// ------------------------------------------------------------------ conversion RVal -> Rust types

pub trait FromRVal: Sized {
    fn conv(rv: &RVal) -> Result<Self>;
}
pub fn bad<T>(what: &str, rv: &RVal) -> Result<T> {
    Err(format!("world value does not fit {what}: {rv:?}").into())
}
impl FromRVal for i64 {
    fn conv(rv: &RVal) -> Result<Self> {
        match rv {
            RVal::Leaf(GV::Int(i)) => Ok(*i),
            _ => bad("Int", rv),
        }
    }
}
impl FromRVal for f64 {
    fn conv(rv: &RVal) -> Result<Self> {
        match rv {
            RVal::Leaf(GV::Float(t)) => Ok(float_of_token(t)),
            _ => bad("Float", rv),
        }
    }
}
impl FromRVal for String {
    fn conv(rv: &RVal) -> Result<Self> {
        match rv {
            RVal::Leaf(GV::Str(s)) => Ok(s.clone()),
            _ => bad("String", rv),
        }
    }
}
impl FromRVal for bool {
    fn conv(rv: &RVal) -> Result<Self> {
        match rv {
            RVal::Leaf(GV::Bool(b)) => Ok(*b),
            _ => bad("Boolean", rv),
        }
    }
}
impl FromRVal for E {
    fn conv(rv: &RVal) -> Result<Self> {
        match rv {
            RVal::Leaf(GV::Enum(e)) => match e.as_str() {
                "X" => Ok(E::X),
                "Y" => Ok(E::Y),
                "Z" => Ok(E::Z),
                _ => bad("E", rv),
            },
            _ => bad("E", rv),
        }
    }
}
impl<T: FromRVal> FromRVal for Option<T> {
    fn conv(rv: &RVal) -> Result<Self> {
        match rv {
            RVal::Null => Ok(None),
            _ => Ok(Some(T::conv(rv)?)),
        }
    }
}
impl<T: FromRVal> FromRVal for Vec<T> {
    fn conv(rv: &RVal) -> Result<Self> {
        match rv {
            RVal::List(xs) => xs.iter().map(T::conv).collect(),
            _ => bad("list", rv),
        }
    }
}
macro_rules! obj_conv {
    ($t:ident) => {
        impl FromRVal for $t {
            fn conv(rv: &RVal) -> Result<Self> {
                match rv {
                    RVal::Obj(ty, id) if ty == stringify!($t) => Ok($t { id: *id }),
                    _ => bad(stringify!($t), rv),
                }
            }
        }
    };
}
obj_conv!(A);
obj_conv!(B);
obj_conv!(C);
impl FromRVal for I {
    fn conv(rv: &RVal) -> Result<Self> {
        match rv {
            RVal::Obj(ty, id) if ty == "A" => Ok(I::A(A { id: *id })),
            RVal::Obj(ty, id) if ty == "B" => Ok(I::B(B { id: *id })),
            _ => bad("I", rv),
        }
    }
}
impl FromRVal for J {
    fn conv(rv: &RVal) -> Result<Self> {
        match rv {
            RVal::Obj(ty, id) if ty == "B" => Ok(J::B(B { id: *id })),
            RVal::Obj(ty, id) if ty == "C" => Ok(J::C(C { id: *id })),
            _ => bad("J", rv),
        }
    }
}
impl FromRVal for U {
    fn conv(rv: &RVal) -> Result<Self> {
        match rv {
            RVal::Obj(ty, id) if ty == "A" => Ok(U::A(A { id: *id })),
            RVal::Obj(ty, id) if ty == "B" => Ok(U::B(B { id: *id })),
            _ => bad("U", rv),
        }
    }
}
impl FromRVal for V {
    fn conv(rv: &RVal) -> Result<Self> {
        match rv {
            RVal::Obj(ty, id) if ty == "B" => Ok(V::B(B { id: *id })),
            RVal::Obj(ty, id) if ty == "C" => Ok(V::C(C { id: *id })),
            _ => bad("V", rv),
        }
    }
}

#[allow(dead_code)]
pub fn fetch<T: FromRVal>(ctx: &Context<'_>, id: u32, _rust_name: &str) -> Result<T> {
    // the world is keyed by the GraphQL (camelCase) field name
    let f = ctx.field().name().to_string();
    match world(ctx).get(ctx, id, &f) {
        RVal::Fail(m) => Err(m.into()),
        rv => T::conv(&rv),
    }
}

// ------------------------------------------------------------------ gates and traces (C04 / C05)
// Additive: without a schedule (`World::sched == None`) every resolver is immediately ready and
// nothing is traced, exactly as before.

#[derive(Clone, Debug, PartialEq, Eq, Hash, PartialOrd, Ord)]
pub enum Seg {
    Key(String),
    Idx(usize),
}
pub fn path_sexp(p: &[Seg]) -> Sexp {
    list(p.iter().map(|s| match s {
        Seg::Key(k) => st(k.clone()),
        Seg::Idx(i) => num(i),
    }).collect())
}
pub fn path_from_sexp(s: &Sexp) -> Option<Vec<Seg>> {
    s.as_list()?.iter().map(|x| match x {
        Sexp::Str(k) => Some(Seg::Key(k.clone())),
        _ => x.as_usize().map(Seg::Idx),
    }).collect()
}

/// identity of a gate: response path of the PARENT position, response key, source position of
/// the field occurrence
pub type GateKey = (Vec<Seg>, String, (usize, usize));

#[derive(Clone, Debug)]
pub struct TraceEv {
    pub end: bool,
    pub at: GateKey,
}
impl TraceEv {
    pub fn to_sexp(&self) -> Sexp {
        list(vec![atom(if self.end { "e" } else { "s" }), path_sexp(&self.at.0), st(self.at.1.clone()), num(self.at.2.0), num(self.at.2.1)])
    }
}

/// gate `k` per resolver occurrence (default 0 = immediately ready)
#[derive(Clone, Debug, Default)]
pub struct Sched {
    pub gates: HashMap<GateKey, u32>,
}
impl Sched {
    /// `(sched ((PATH…) KEY LINE COL K) …)`
    pub fn from_sexp(s: &Sexp) -> Option<Sched> {
        let mut gates = HashMap::new();
        for e in s.args() {
            let l = e.as_list()?;
            gates.insert((path_from_sexp(&l[0])?, l[1].as_str()?.to_string(), (l[2].as_usize()?, l[3].as_usize()?)), l[4].as_usize()? as u32);
        }
        Some(Sched { gates })
    }
}

/// Pending (waking itself) `k` times, then Ready
pub struct Gate(pub u32);
impl std::future::Future for Gate {
    type Output = ();
    fn poll(mut self: std::pin::Pin<&mut Self>, cx: &mut std::task::Context<'_>) -> std::task::Poll<()> {
        if self.0 == 0 {
            std::task::Poll::Ready(())
        } else {
            self.0 -= 1;
            cx.waker().wake_by_ref();
            std::task::Poll::Pending
        }
    }
}

fn gate_key(ctx: &Context<'_>) -> GateKey {
    let mut segs = vec![];
    let mut n = ctx.path_node.as_ref();
    while let Some(node) = n {
        segs.push(match node.segment {
            async_graphql::QueryPathSegment::Name(s) => Seg::Key(s.to_string()),
            async_graphql::QueryPathSegment::Index(i) => Seg::Idx(i),
        });
        n = node.parent;
    }
    segs.reverse();
    segs.pop(); // the field's own response key
    let key = ctx.field().alias().unwrap_or(ctx.field().name()).to_string();
    (segs, key, (ctx.item.pos.line, ctx.item.pos.column))
}

/// (C27) externally controlled gate: see `World::gate_hook`
pub type GateHook = Arc<dyn Fn(u32, &GateKey) -> std::pin::Pin<Box<dyn std::future::Future<Output = ()> + Send>> + Send + Sync>;

/// the resolver body shared by all fields: invocation log, then (with a schedule) start event,
/// gate, end event
pub async fn gated_get(ctx: &Context<'_>, id: u32) -> RVal {
    let w = world(ctx);
    let f = ctx.field().name().to_string();
    let rv = w.get(ctx, id, &f);
    if let Some(h) = &w.gate_hook {
        let fut = h(id, &gate_key(ctx));
        fut.await;
    }
    if let Some(s) = &w.sched {
        let at = gate_key(ctx);
        let k = s.gates.get(&at).copied().unwrap_or(0);
        w.trace.lock().unwrap().push(TraceEv { end: false, at: at.clone() });
        Gate(k).await;
        w.trace.lock().unwrap().push(TraceEv { end: true, at });
    }
    rv
}

async fn fetch_g<T: FromRVal>(ctx: &Context<'_>, id: u32) -> Result<T> {
    match gated_get(ctx, id).await {
        RVal::Fail(m) => Err(m.into()),
        rv => T::conv(&rv),
    }
}

pub fn trace_sexp(w: &World) -> Sexp {
    node("trace", w.trace.lock().unwrap().iter().map(|e| e.to_sexp()).collect())
}

// ------------------------------------------------------------------ the schema
// Invariant of the family: a field name has the same type wherever it occurs, so that documents
// repeating a response key across type conditions stay valid (SameResponseShape).

#[derive(Enum, Copy, Clone, Eq, PartialEq, Debug)]
pub enum E {
    X,
    Y,
    Z,
}

pub struct A {
    pub id: u32,
}
pub struct B {
    pub id: u32,
}
pub struct C {
    pub id: u32,
}

#[derive(Interface)]
#[graphql(
    field(name = "id", ty = "i64"),
    field(name = "name", ty = "Option<String>"),
    field(name = "peer", ty = "Option<I>"),
    field(name = "peers", ty = "Option<Vec<I>>")
)]
pub enum I {
    A(A),
    B(B),
}

#[derive(Interface)]
#[graphql(field(name = "id", ty = "i64"), field(name = "tag", ty = "Option<E>"))]
pub enum J {
    B(B),
    C(C),
}

#[derive(Union)]
pub enum U {
    A(A),
    B(B),
}

#[derive(Union)]
pub enum V {
    B(B),
    C(C),
}

macro_rules! fields {
    ($t:ident { $( $f:ident : $ty:ty ),* $(,)? }) => {
        #[Object]
        impl $t {
            $( async fn $f(&self, ctx: &Context<'_>) -> Result<$ty> { fetch_g::<$ty>(ctx, self.id).await } )*
        }
    };
}

// field names are rendered in camelCase by the derive macro
fields!(A {
    id: i64,
    name: Option<String>,
    peer: Option<I>,
    peers: Option<Vec<I>>,
    num: Option<i64>,
    num_req: i64,
    flt: Option<f64>,
    flt_req: f64,
    flag: Option<bool>,
    tag: Option<E>,
    tag_req: E,
    un: Option<U>,
    uns: Option<Vec<Option<U>>>,
    child: Option<A>,
    child_req: A,
    children: Vec<A>,
    grid: Option<Vec<Option<Vec<Option<i64>>>>>,
    strs: Option<Vec<String>>,
});
fields!(B {
    id: i64,
    name: Option<String>,
    peer: Option<I>,
    peers: Option<Vec<I>>,
    tag: Option<E>,
    text: String,
    vn: Option<V>,
    cee: Option<C>,
    cees: Vec<Option<C>>,
    num: Option<i64>,
    flt_req: f64,
});
fields!(C {
    id: i64,
    tag: Option<E>,
    num: Option<i64>,
    back: I,
    vns: Option<Vec<V>>,
    jay: Option<J>,
    name: Option<String>,
});

pub struct Query;
#[Object]
impl Query {
    async fn a(&self, ctx: &Context<'_>) -> Result<Option<A>> {
        fetch_g(ctx, 0).await
    }
    async fn a_req(&self, ctx: &Context<'_>) -> Result<A> {
        fetch_g(ctx, 0).await
    }
    async fn b(&self, ctx: &Context<'_>) -> Result<Option<B>> {
        fetch_g(ctx, 0).await
    }
    async fn c(&self, ctx: &Context<'_>) -> Result<Option<C>> {
        fetch_g(ctx, 0).await
    }
    async fn i(&self, ctx: &Context<'_>) -> Result<Option<I>> {
        fetch_g(ctx, 0).await
    }
    async fn is(&self, ctx: &Context<'_>) -> Result<Option<Vec<Option<I>>>> {
        fetch_g(ctx, 0).await
    }
    async fn jay(&self, ctx: &Context<'_>) -> Result<Option<J>> {
        fetch_g(ctx, 0).await
    }
    async fn un(&self, ctx: &Context<'_>) -> Result<Option<U>> {
        fetch_g(ctx, 0).await
    }
    async fn uns(&self, ctx: &Context<'_>) -> Result<Option<Vec<Option<U>>>> {
        fetch_g(ctx, 0).await
    }
    async fn vn(&self, ctx: &Context<'_>) -> Result<Option<V>> {
        fetch_g(ctx, 0).await
    }
    async fn vns_req(&self, ctx: &Context<'_>) -> Result<Vec<V>> {
        fetch_g(ctx, 0).await
    }
    async fn tag(&self, ctx: &Context<'_>) -> Result<Option<E>> {
        fetch_g(ctx, 0).await
    }
    async fn num(&self, ctx: &Context<'_>) -> Result<Option<i64>> {
        fetch_g(ctx, 0).await
    }
    async fn flt(&self, ctx: &Context<'_>) -> Result<Option<f64>> {
        fetch_g(ctx, 0).await
    }
    async fn strs(&self, ctx: &Context<'_>) -> Result<Option<Vec<String>>> {
        fetch_g(ctx, 0).await
    }
    /// echoes its (defaulted) argument
    async fn echo(&self, ctx: &Context<'_>, #[graphql(default = 0)] x: i64) -> i64 {
        gated_get(ctx, 0).await;
        x
    }
}

pub struct Mutation;
#[Object]
impl Mutation {
    async fn a(&self, ctx: &Context<'_>) -> Result<Option<A>> {
        fetch_g(ctx, 0).await
    }
    async fn num(&self, ctx: &Context<'_>) -> Result<Option<i64>> {
        fetch_g(ctx, 0).await
    }
    async fn num_req(&self, ctx: &Context<'_>) -> Result<i64> {
        fetch_g(ctx, 0).await
    }
    async fn echo(&self, ctx: &Context<'_>, #[graphql(default = 0)] x: i64) -> i64 {
        gated_get(ctx, 0).await;
        x
    }
}

pub type FamilySchema = Schema<Query, Mutation, EmptySubscription>;

pub fn build_schema() -> FamilySchema {
    Schema::build(Query, Mutation, EmptySubscription).finish()
}

// ------------------------------------------------------------------ schema description (from the real registry, via SDL)

#[derive(Clone, Debug, PartialEq)]
pub enum TRef {
    Named(String),
    List(Box<TRef>),
    NonNull(Box<TRef>),
}
impl TRef {
    pub fn to_sexp(&self) -> Sexp {
        match self {
            TRef::Named(n) => st(n.clone()),
            TRef::List(t) => node("list", vec![t.to_sexp()]),
            TRef::NonNull(t) => node("nn", vec![t.to_sexp()]),
        }
    }
    pub fn from_sexp(s: &Sexp) -> Option<TRef> {
        Some(match s {
            Sexp::Str(n) => TRef::Named(n.clone()),
            _ => match s.tag()? {
                "list" => TRef::List(Box::new(TRef::from_sexp(&s.args()[0])?)),
                "nn" => TRef::NonNull(Box::new(TRef::from_sexp(&s.args()[0])?)),
                _ => return None,
            },
        })
    }
    pub fn base(&self) -> &str {
        match self {
            TRef::Named(n) => n,
            TRef::List(t) | TRef::NonNull(t) => t.base(),
        }
    }
    pub fn is_non_null(&self) -> bool {
        matches!(self, TRef::NonNull(_))
    }
    fn from_ast(t: &pt::Type) -> TRef {
        let b = match &t.base {
            pt::BaseType::Named(n) => TRef::Named(n.to_string()),
            pt::BaseType::List(inner) => TRef::List(Box::new(TRef::from_ast(inner))),
        };
        if t.nullable { b } else { TRef::NonNull(Box::new(b)) }
    }
}

#[derive(Clone, Debug)]
pub struct ArgD {
    pub name: String,
    pub ty: TRef,
    pub default: Option<GV>,
}
#[derive(Clone, Debug)]
pub struct FieldD {
    pub name: String,
    pub ty: TRef,
    pub args: Vec<ArgD>,
}
#[derive(Clone, Debug)]
pub struct TypeD {
    pub name: String,
    pub kind: String,
    pub fields: Vec<FieldD>,
    pub implements: Vec<String>,
    pub members: Vec<String>,
    pub values: Vec<String>,
}
#[derive(Clone, Debug)]
pub struct SchemaD {
    pub query: String,
    pub mutation: Option<String>,
    pub subscription: Option<String>,
    pub types: Vec<TypeD>,
}

pub fn const_to_gv(v: &async_graphql_value::ConstValue) -> GV {
    use async_graphql_value::ConstValue as CV;
    match v {
        CV::Null => GV::Null,
        CV::Number(n) => n.as_i64().map(GV::Int).unwrap_or_else(|| GV::Float(float_token(n.as_f64().unwrap()))),
        CV::String(s) => GV::Str(s.clone()),
        CV::Boolean(b) => GV::Bool(*b),
        CV::Enum(e) => GV::Enum(e.to_string()),
        CV::List(xs) => GV::List(xs.iter().map(const_to_gv).collect()),
        CV::Object(m) => GV::Obj(m.iter().map(|(k, v)| (k.to_string(), const_to_gv(v))).collect()),
        CV::Binary(_) => GV::Null,
    }
}

impl SchemaD {
    /// Parse an SDL export of the real registry (the crate's own parser is used as a tool here).
    pub fn from_sdl(sdl: &str) -> SchemaD {
        let doc = parse_schema(sdl).expect("SDL of the family schema parses");
        let mut types = vec![];
        let (mut q, mut m, mut s) = ("Query".to_string(), None, None);
        for def in &doc.definitions {
            match def {
                pt::TypeSystemDefinition::Schema(sd) => {
                    if let Some(x) = &sd.node.query {
                        q = x.node.to_string();
                    }
                    m = sd.node.mutation.as_ref().map(|x| x.node.to_string());
                    s = sd.node.subscription.as_ref().map(|x| x.node.to_string());
                }
                pt::TypeSystemDefinition::Type(td) => {
                    let name = td.node.name.node.to_string();
                    let fd = |f: &pt::FieldDefinition| FieldD {
                        name: f.name.node.to_string(),
                        ty: TRef::from_ast(&f.ty.node),
                        args: f
                            .arguments
                            .iter()
                            .map(|a| ArgD {
                                name: a.node.name.node.to_string(),
                                ty: TRef::from_ast(&a.node.ty.node),
                                default: a.node.default_value.as_ref().map(|d| const_to_gv(&d.node)),
                            })
                            .collect(),
                    };
                    let mut t = TypeD { name, kind: String::new(), fields: vec![], implements: vec![], members: vec![], values: vec![] };
                    match &td.node.kind {
                        pt::TypeKind::Scalar => t.kind = "scalar".into(),
                        pt::TypeKind::Object(o) => {
                            t.kind = "object".into();
                            t.fields = o.fields.iter().map(|f| fd(&f.node)).collect();
                            t.implements = o.implements.iter().map(|n| n.node.to_string()).collect();
                        }
                        pt::TypeKind::Interface(o) => {
                            t.kind = "interface".into();
                            t.fields = o.fields.iter().map(|f| fd(&f.node)).collect();
                            t.implements = o.implements.iter().map(|n| n.node.to_string()).collect();
                        }
                        pt::TypeKind::Union(u) => {
                            t.kind = "union".into();
                            t.members = u.members.iter().map(|n| n.node.to_string()).collect();
                        }
                        pt::TypeKind::Enum(e) => {
                            t.kind = "enum".into();
                            t.values = e.values.iter().map(|v| v.node.value.node.to_string()).collect();
                        }
                        pt::TypeKind::InputObject(_) => t.kind = "input".into(),
                    }
                    types.push(t);
                }
                _ => {}
            }
        }
        for b in ["Int", "Float", "String", "Boolean", "ID"] {
            if !types.iter().any(|t| t.name == b) {
                types.push(TypeD { name: b.into(), kind: "scalar".into(), fields: vec![], implements: vec![], members: vec![], values: vec![] });
            }
        }
        SchemaD { query: q, mutation: m, subscription: s, types }
    }
    pub fn to_sexp(&self) -> Sexp {
        let opt = |o: &Option<String>| o.as_ref().map(|x| st(x.clone())).unwrap_or(atom("none"));
        node(
            "schema",
            vec![
                st(self.query.clone()),
                opt(&self.mutation),
                opt(&self.subscription),
                list(
                    self.types
                        .iter()
                        .map(|t| {
                            node(
                                "type",
                                vec![
                                    st(t.name.clone()),
                                    atom(t.kind.clone()),
                                    list(
                                        t.fields
                                            .iter()
                                            .map(|f| {
                                                node(
                                                    "fd",
                                                    vec![
                                                        st(f.name.clone()),
                                                        f.ty.to_sexp(),
                                                        list(
                                                            f.args
                                                                .iter()
                                                                .map(|a| {
                                                                    node(
                                                                        "arg",
                                                                        vec![
                                                                            st(a.name.clone()),
                                                                            a.ty.to_sexp(),
                                                                            match &a.default {
                                                                                Some(d) => node("some", vec![d.to_sexp()]),
                                                                                None => atom("none"),
                                                                            },
                                                                        ],
                                                                    )
                                                                })
                                                                .collect(),
                                                        ),
                                                    ],
                                                )
                                            })
                                            .collect(),
                                    ),
                                    list(t.implements.iter().map(|x| st(x.clone())).collect()),
                                    list(t.members.iter().map(|x| st(x.clone())).collect()),
                                    list(t.values.iter().map(|x| st(x.clone())).collect()),
                                ],
                            )
                        })
                        .collect(),
                ),
            ],
        )
    }
    pub fn find(&self, n: &str) -> Option<&TypeD> {
        self.types.iter().find(|t| t.name == n)
    }
    pub fn is_composite(&self, n: &str) -> bool {
        self.find(n).is_some_and(|t| matches!(t.kind.as_str(), "object" | "interface" | "union"))
    }
    pub fn possible(&self, n: &str) -> Vec<String> {
        match self.find(n) {
            Some(t) if t.kind == "object" => vec![n.to_string()],
            Some(t) if t.kind == "interface" => self
                .types
                .iter()
                .filter(|o| o.kind == "object" && o.implements.iter().any(|i| i == n))
                .map(|o| o.name.clone())
                .collect(),
            Some(t) if t.kind == "union" => t.members.clone(),
            _ => vec![],
        }
    }
}

// ------------------------------------------------------------------ world generator (type-directed from the description)

pub const POOL: [(&str, [u32; 3]); 3] = [("A", [1, 2, 3]), ("B", [4, 5, 6]), ("C", [7, 8, 9])];

fn pool_ids(ty: &str) -> &'static [u32; 3] {
    // a type outside the pool (only in schemas that extend the family, e.g. C22's self-returning root): identity 0
    POOL.iter().find(|p| p.0 == ty).map(|p| &p.1).unwrap_or(&[0, 0, 0])
}

pub struct WorldGen<'a> {
    pub sd: &'a SchemaD,
    /// probability (in 1/16) that a field resolver fails
    pub fail_16: usize,
    /// allow NaN / infinities for floats
    pub nonfinite: bool,
}

impl<'a> WorldGen<'a> {
    fn leaf(&self, rng: &mut Rng, tn: &str, dist: &mut Dist) -> RVal {
        RVal::Leaf(match tn {
            "Int" => GV::Int(*rng.pick(&[0, 1, -1, 7, 42, 2147483647, -2147483648, 9007199254740993])),
            "Float" => {
                let mut fs = vec![0.0, 1.5, -2.25, 1e100, 3.0, 0.1];
                if self.nonfinite && rng.chance(1, 6) {
                    dist.hit("world_nonfinite_float");
                    fs = vec![f64::NAN, f64::INFINITY, f64::NEG_INFINITY];
                }
                GV::Float(float_token(*rng.pick(&fs)))
            }
            "String" => GV::Str(rng.pick(&["", "x", "hello world", "é\u{1F600}", "\"q\"\\"]).to_string()),
            "Boolean" => GV::Bool(rng.chance(1, 2)),
            _ => {
                let t = self.sd.find(tn).expect("leaf type");
                GV::Enum(rng.pick(&t.values).clone())
            }
        })
    }
    fn value(&self, rng: &mut Rng, t: &TRef, dist: &mut Dist) -> RVal {
        match t {
            TRef::NonNull(inner) => self.value_nn(rng, inner, dist),
            _ => {
                if rng.chance(1, 5) {
                    dist.hit("world_null");
                    RVal::Null
                } else {
                    self.value_nn(rng, t, dist)
                }
            }
        }
    }
    fn value_nn(&self, rng: &mut Rng, t: &TRef, dist: &mut Dist) -> RVal {
        match t {
            TRef::NonNull(inner) => self.value_nn(rng, inner, dist),
            TRef::List(inner) => {
                let n = [0, 1, 2, 2, 3][rng.below(5)];
                dist.hit("world_list");
                RVal::List((0..n).map(|_| self.value(rng, inner, dist)).collect())
            }
            TRef::Named(n) => {
                if self.sd.is_composite(n) {
                    let poss = self.sd.possible(n);
                    let ty = rng.pick(&poss).clone();
                    let id = *rng.pick(pool_ids(&ty));
                    RVal::Obj(ty, id)
                } else {
                    self.leaf(rng, n, dist)
                }
            }
        }
    }
    pub fn generate(&self, rng: &mut Rng, root: &str, dist: &mut Dist) -> World {
        let mut es = vec![];
        let mut gen_obj = |ty: &str, id: u32, es: &mut Vec<((u32, String), RVal)>, rng: &mut Rng, dist: &mut Dist| {
            let t = self.sd.find(ty).unwrap();
            for f in &t.fields {
                let rv = if f.name == "echo" {
                    RVal::Arg("x".into())
                } else if self.fail_16 > 0 && rng.chance(self.fail_16, 16) {
                    dist.hit("world_fail");
                    RVal::Fail(format!("boom-{}-{}", id, f.name))
                } else {
                    self.value(rng, &f.ty, dist)
                };
                es.push(((id, f.name.clone()), rv));
            }
        };
        gen_obj(root, 0, &mut es, rng, dist);
        for (ty, ids) in POOL.iter() {
            for id in ids {
                gen_obj(ty, *id, &mut es, rng, dist);
            }
        }
        World::new(es)
    }
}

// ------------------------------------------------------------------ documents

#[derive(Clone, Debug)]
pub enum DV {
    Var(String),
    Const(GV),
}
impl DV {
    pub fn to_sexp(&self) -> Sexp {
        match self {
            DV::Var(n) => node("var", vec![st(n.clone())]),
            DV::Const(g) => g.to_sexp(),
        }
    }
    pub fn text(&self) -> String {
        match self {
            DV::Var(n) => format!("${n}"),
            DV::Const(g) => gv_text(g),
        }
    }
}
pub fn gv_text(g: &GV) -> String {
    match g {
        GV::Null => "null".into(),
        GV::Int(i) => i.to_string(),
        GV::Float(t) => t.clone(),
        GV::Str(s) => serde_json::to_string(s).unwrap(),
        GV::Bool(b) => b.to_string(),
        GV::Enum(e) => e.clone(),
        GV::List(xs) => format!("[{}]", xs.iter().map(gv_text).collect::<Vec<_>>().join(", ")),
        GV::Obj(fs) => format!("{{{}}}", fs.iter().map(|(k, v)| format!("{k}: {}", gv_text(v))).collect::<Vec<_>>().join(", ")),
    }
}

#[derive(Clone, Debug)]
pub struct DirN {
    pub name: String,
    pub args: Vec<(String, DV)>,
}
#[derive(Clone, Debug)]
pub enum SelN {
    Field { alias: Option<String>, name: String, args: Vec<(String, DV)>, dirs: Vec<DirN>, sels: Vec<SelN>, pos: (usize, usize) },
    Spread { name: String, dirs: Vec<DirN>, pos: (usize, usize) },
    Inline { cond: Option<String>, dirs: Vec<DirN>, sels: Vec<SelN>, pos: (usize, usize) },
}
#[derive(Clone, Debug)]
pub struct VarDefN {
    pub name: String,
    pub ty: TRef,
    pub default: Option<GV>,
}
#[derive(Clone, Debug)]
pub struct OpN {
    pub ty: String,
    pub name: Option<String>,
    pub vars: Vec<VarDefN>,
    pub sels: Vec<SelN>,
}
#[derive(Clone, Debug)]
pub struct FragN {
    pub name: String,
    pub cond: String,
    pub sels: Vec<SelN>,
}
#[derive(Clone, Debug)]
pub struct DocN {
    pub ops: Vec<OpN>,
    pub frags: Vec<FragN>,
}

fn tref_text(t: &TRef) -> String {
    match t {
        TRef::Named(n) => n.clone(),
        TRef::List(i) => format!("[{}]", tref_text(i)),
        TRef::NonNull(i) => format!("{}!", tref_text(i)),
    }
}

/// Prints the document on one line (ASCII), filling in every node's position (line 1,
/// column = offset + 1 of its first token).
pub fn print_doc(d: &mut DocN) -> String {
    fn dirs(out: &mut String, ds: &[DirN]) {
        for d in ds {
            out.push_str(&format!(" @{}", d.name));
            if !d.args.is_empty() {
                out.push('(');
                out.push_str(&d.args.iter().map(|(k, v)| format!("{k}: {}", v.text())).collect::<Vec<_>>().join(", "));
                out.push(')');
            }
        }
    }
    fn sels(out: &mut String, ss: &mut [SelN]) {
        out.push_str("{ ");
        for s in ss.iter_mut() {
            match s {
                SelN::Field { alias, name, args, dirs: ds, sels: sub, pos } => {
                    *pos = (1, out.len() + 1);
                    if let Some(a) = alias {
                        out.push_str(&format!("{a}: "));
                    }
                    out.push_str(name);
                    if !args.is_empty() {
                        out.push('(');
                        out.push_str(&args.iter().map(|(k, v)| format!("{k}: {}", v.text())).collect::<Vec<_>>().join(", "));
                        out.push(')');
                    }
                    dirs(out, ds);
                    if !sub.is_empty() {
                        out.push(' ');
                        sels(out, sub);
                    }
                }
                SelN::Spread { name, dirs: ds, pos } => {
                    *pos = (1, out.len() + 1);
                    out.push_str(&format!("...{name}"));
                    dirs(out, ds);
                }
                SelN::Inline { cond, dirs: ds, sels: sub, pos } => {
                    *pos = (1, out.len() + 1);
                    out.push_str("...");
                    if let Some(c) = cond {
                        out.push_str(&format!(" on {c}"));
                    }
                    dirs(out, ds);
                    out.push(' ');
                    sels(out, sub);
                }
            }
            out.push(' ');
        }
        out.push('}');
    }
    let mut out = String::new();
    for op in d.ops.iter_mut() {
        if op.name.is_none() && op.vars.is_empty() && op.ty == "query" {
            // shorthand
        } else {
            out.push_str(&op.ty);
            if let Some(n) = &op.name {
                out.push_str(&format!(" {n}"));
            }
            if !op.vars.is_empty() {
                out.push('(');
                out.push_str(
                    &op.vars
                        .iter()
                        .map(|v| {
                            let mut s = format!("${}: {}", v.name, tref_text(&v.ty));
                            if let Some(d) = &v.default {
                                s.push_str(&format!(" = {}", gv_text(d)));
                            }
                            s
                        })
                        .collect::<Vec<_>>()
                        .join(", "),
                );
                out.push(')');
            }
            out.push(' ');
        }
        sels(&mut out, &mut op.sels);
        out.push(' ');
    }
    for f in d.frags.iter_mut() {
        out.push_str(&format!("fragment {} on {} ", f.name, f.cond));
        sels(&mut out, &mut f.sels);
        out.push(' ');
    }
    assert!(out.is_ascii());
    out
}

fn dirs_sexp(ds: &[DirN]) -> Sexp {
    list(ds.iter().map(|d| {
        let mut v = vec![st(d.name.clone())];
        v.extend(d.args.iter().map(|(k, x)| list(vec![st(k.clone()), x.to_sexp()])));
        node("dir", v)
    }).collect())
}
fn pos_sexp(p: &(usize, usize)) -> Sexp {
    list(vec![num(p.0), num(p.1)])
}
pub fn sels_sexp(ss: &[SelN]) -> Sexp {
    list(ss.iter().map(|s| match s {
        SelN::Field { alias, name, args, dirs, sels, pos } => node("field", vec![
            alias.as_ref().map(|a| st(a.clone())).unwrap_or(atom("none")),
            st(name.clone()),
            list(args.iter().map(|(k, x)| list(vec![st(k.clone()), x.to_sexp()])).collect()),
            dirs_sexp(dirs),
            sels_sexp(sels),
            pos_sexp(pos),
        ]),
        SelN::Spread { name, dirs, pos } => node("spread", vec![st(name.clone()), dirs_sexp(dirs), pos_sexp(pos)]),
        SelN::Inline { cond, dirs, sels, pos } => node("inline", vec![
            cond.as_ref().map(|a| st(a.clone())).unwrap_or(atom("none")),
            dirs_sexp(dirs),
            sels_sexp(sels),
            pos_sexp(pos),
        ]),
    }).collect())
}
impl DocN {
    pub fn to_sexp(&self) -> Sexp {
        node("doc", vec![
            list(self.ops.iter().map(|o| node("op", vec![
                atom(o.ty.clone()),
                o.name.as_ref().map(|a| st(a.clone())).unwrap_or(atom("none")),
                list(o.vars.iter().map(|v| node("vardef", vec![
                    st(v.name.clone()),
                    v.ty.to_sexp(),
                    v.default.as_ref().map(|d| node("some", vec![d.to_sexp()])).unwrap_or(atom("none")),
                ])).collect()),
                list(vec![]),
                sels_sexp(&o.sels),
            ])).collect()),
            list(self.frags.iter().map(|f| node("frag", vec![st(f.name.clone()), st(f.cond.clone()), list(vec![]), sels_sexp(&f.sels)])).collect()),
        ])
    }
}

// ------------------------------------------------------------------ document generator (valid by construction)

pub struct DocGen<'a> {
    pub sd: &'a SchemaD,
    pub rng: &'a mut Rng,
    pub dist: &'a mut Dist,
    pub frags: Vec<FragN>,
    /// Boolean variables: (name, has default, default value)
    pub vars: Vec<(String, bool, bool)>,
    pub max_frags: usize,
    /// chance (1/den) of aliasing a field to a key shared with other occurrences
    pub directives: bool,
    pub budget: usize,
}

impl<'a> DocGen<'a> {
    fn overlapping_conditions(&self, ty: &str) -> Vec<String> {
        // every composite type whose possible types intersect those of `ty`
        let mine = self.sd.possible(ty);
        self.sd
            .types
            .iter()
            .filter(|t| matches!(t.kind.as_str(), "object" | "interface" | "union"))
            .filter(|t| t.name != self.sd.query && Some(&t.name) != self.sd.mutation.as_ref())
            .filter(|t| self.sd.possible(&t.name).iter().any(|p| mine.contains(p)))
            .map(|t| t.name.clone())
            .collect()
    }
    fn directives(&mut self) -> Vec<DirN> {
        self.directives_opt(true)
    }
    /// `allow_vars = false` for `__typename`: the validator does not visit directives of
    /// `__typename` fields, so a variable used only there is reported as unused (a C09 matter)
    fn directives_opt(&mut self, allow_vars: bool) -> Vec<DirN> {
        if !self.directives || !self.rng.chance(1, 4) {
            return vec![];
        }
        let mut out = vec![];
        let n = 1 + self.rng.below(2);
        let mut used = vec![];
        for _ in 0..n {
            let name = if self.rng.chance(1, 2) { "skip" } else { "include" };
            if used.contains(&name) {
                continue; // a directive may appear once per location
            }
            used.push(name);
            let v = match self.rng.below(if allow_vars { 4 } else { 2 }) {
                0 => DV::Const(GV::Bool(true)),
                1 => DV::Const(GV::Bool(false)),
                _ => {
                    // a Boolean variable: `$vN: Boolean!` (always supplied) or `$vN: Boolean = d` (may be omitted)
                    let k = self.rng.below(4);
                    let name = format!("v{k}");
                    if !self.vars.iter().any(|v| v.0 == name) {
                        let has_default = self.rng.chance(1, 2);
                        let d = self.rng.chance(1, 2);
                        self.vars.push((name.clone(), has_default, d));
                    }
                    self.dist.hit("doc_directive_var");
                    DV::Var(name)
                }
            };
            self.dist.hit("doc_directive");
            out.push(DirN { name: name.into(), args: vec![("if".into(), v)] });
        }
        out
    }
    /// a copy of the composite field selection `s` (same response key, field and arguments)
    /// whose sub-selection keeps (varied copies of) some composite sub-fields and adds other leaves
    pub fn vary(&mut self, parent_ty: &str, s: &SelN) -> Option<SelN> {
        if let SelN::Field { alias, name, args, sels, .. } = s {
            if sels.is_empty() || name == "__typename" {
                return None;
            }
            let fd = self.sd.find(parent_ty)?.fields.iter().find(|f| &f.name == name)?.clone();
            let child_ty = fd.ty.base().to_string();
            let ct = self.sd.find(&child_ty)?.clone();
            let mut new = vec![];
            for sub in sels {
                if let SelN::Field { sels: ss, .. } = sub {
                    if !ss.is_empty() && self.rng.chance(2, 3) {
                        if let Some(v) = self.vary(&child_ty, sub) {
                            new.push(v);
                        }
                    }
                }
            }
            let leaves: Vec<FieldD> = ct.fields.iter().filter(|f| !self.sd.is_composite(f.ty.base()) && f.name != "echo").cloned().collect();
            if !leaves.is_empty() {
                let f = self.rng.pick(&leaves).clone();
                new.push(SelN::Field { alias: None, name: f.name, args: vec![], dirs: vec![], sels: vec![], pos: (0, 0) });
            } else {
                new.push(SelN::Field { alias: None, name: "__typename".into(), args: vec![], dirs: vec![], sels: vec![], pos: (0, 0) });
            }
            Some(SelN::Field { alias: alias.clone(), name: name.clone(), args: args.clone(), dirs: vec![], sels: new, pos: (0, 0) })
        } else {
            None
        }
    }

    pub fn selection_set(&mut self, ty: &str, depth: usize) -> Vec<SelN> {
        let t = self.sd.find(ty).unwrap().clone();
        let n = 1 + self.rng.below(4);
        let mut out = vec![];
        for _ in 0..n {
            if self.budget == 0 {
                break;
            }
            self.budget -= 1;
            let k = self.rng.below(10);
            if k < 6 && !t.fields.is_empty() {
                // a field of this type
                let f = self.rng.pick(&t.fields).clone();
                let composite = self.sd.is_composite(f.ty.base());
                if composite && depth == 0 {
                    continue;
                }
                let (alias, args) = if f.name == "echo" {
                    let x = self.rng.below(3) as i64;
                    if self.rng.chance(1, 3) {
                        (Some("echo_d".to_string()), vec![])
                    } else {
                        (Some(format!("echo_{x}")), vec![("x".to_string(), DV::Const(GV::Int(x)))])
                    }
                } else if self.rng.chance(1, 5) {
                    // alias = f(field name): equal keys always denote the same field
                    self.dist.hit("doc_alias");
                    (Some(format!("{}_{}", f.name, self.rng.below(2))), vec![])
                } else {
                    (None, vec![])
                };
                let dirs = self.directives();
                let sels = if composite { self.selection_set(f.ty.base(), depth - 1) } else { vec![] };
                if composite && sels.is_empty() {
                    continue;
                }
                self.dist.hit("doc_field");
                out.push(SelN::Field { alias, name: f.name.clone(), args, dirs, sels, pos: (0, 0) });
            } else if k < 7 {
                self.dist.hit("doc_typename");
                let alias = if self.rng.chance(1, 4) { Some("tn".to_string()) } else { None };
                let dirs = self.directives_opt(false);
                out.push(SelN::Field { alias, name: "__typename".into(), args: vec![], dirs, sels: vec![], pos: (0, 0) });
            } else if k < 9 || self.frags.len() >= self.max_frags {
                // inline fragment
                let conds = self.overlapping_conditions(ty);
                let cond = if self.rng.chance(1, 5) || conds.is_empty() || ty == self.sd.query || Some(ty) == self.sd.mutation.as_deref() {
                    if self.rng.chance(1, 2) { None } else { Some(ty.to_string()) }
                } else {
                    Some(self.rng.pick(&conds).clone())
                };
                let inner_ty = cond.clone().unwrap_or(ty.to_string());
                let dirs = self.directives();
                let sels = self.selection_set(&inner_ty, depth);
                if sels.is_empty() {
                    continue;
                }
                self.dist.hit(match &cond {
                    None => "doc_inline_nocond",
                    Some(c) => match self.sd.find(c).unwrap().kind.as_str() {
                        "object" => "doc_inline_object_cond",
                        "interface" => "doc_inline_interface_cond",
                        _ => "doc_inline_union_cond",
                    },
                });
                out.push(SelN::Inline { cond, dirs, sels, pos: (0, 0) });
            } else {
                // named fragment: either reuse an applicable one or define a new one (acyclic:
                // a fragment body is generated before its name is visible)
                let conds = if ty == self.sd.query || Some(ty) == self.sd.mutation.as_deref() { vec![ty.to_string()] } else { self.overlapping_conditions(ty) };
                let reusable: Vec<String> = self.frags.iter().filter(|f| conds.contains(&f.cond)).map(|f| f.name.clone()).collect();
                let name = if !reusable.is_empty() && self.rng.chance(1, 2) {
                    self.dist.hit("doc_spread_reuse");
                    self.rng.pick(&reusable).clone()
                } else {
                    let cond = self.rng.pick(&conds).clone();
                    let sels = self.selection_set(&cond, depth);
                    if sels.is_empty() {
                        continue;
                    }
                    let name = format!("F{}", self.frags.len());
                    self.dist.hit(match self.sd.find(&cond).unwrap().kind.as_str() {
                        "object" => "doc_frag_object_cond",
                        "interface" => "doc_frag_interface_cond",
                        _ => "doc_frag_union_cond",
                    });
                    self.frags.push(FragN { name: name.clone(), cond, sels });
                    name
                };
                out.push(SelN::Spread { name, dirs: self.directives(), pos: (0, 0) });
            }
        }
        out
    }
}

/// a document with one operation over the family, its variables, and a matching variable set
pub fn gen_request(sd: &SchemaD, rng: &mut Rng, dist: &mut Dist, op_ty: &str, directives: bool) -> (DocN, Vec<(String, GV)>) {
    gen_request_b(sd, rng, dist, op_ty, directives, 14, 3)
}

/// `gen_request` with an explicit selection budget and depth
pub fn gen_request_b(sd: &SchemaD, rng: &mut Rng, dist: &mut Dist, op_ty: &str, directives: bool, budget: usize, depth: usize) -> (DocN, Vec<(String, GV)>) {
    let root = if op_ty == "mutation" { sd.mutation.clone().unwrap() } else { sd.query.clone() };
    let mut g = DocGen { sd, rng, dist, frags: vec![], vars: vec![], max_frags: 3, directives, budget };
    let mut sels = vec![];
    while sels.is_empty() {
        g.budget = budget;
        sels = g.selection_set(&root, depth);
    }
    // repeat one composite root field with a DIFFERENT sub-selection that overlaps the first on
    // its composite sub-fields (nested merging of repeated response keys)
    if g.rng.chance(1, 3) {
        let cands: Vec<SelN> = sels.iter().filter(|s| matches!(s, SelN::Field { sels: ss, .. } if !ss.is_empty())).cloned().collect();
        if !cands.is_empty() {
            let c = g.rng.pick(&cands).clone();
            if let Some(v) = g.vary(&root, &c) {
                g.dist.hit("doc_repeated_composite_varied");
                sels.push(v);
            }
        }
    }
    let frags_now = g.frags.clone();
    let mut used: Vec<String> = vec![];
    fn walk(ss: &[SelN], used: &mut Vec<String>) {
        for s in ss {
            let (ds, sub): (&Vec<DirN>, Option<&Vec<SelN>>) = match s {
                SelN::Field { dirs, sels, .. } => (dirs, Some(sels)),
                SelN::Spread { dirs, .. } => (dirs, None),
                SelN::Inline { dirs, sels, .. } => (dirs, Some(sels)),
            };
            for d in ds {
                for (_, v) in &d.args {
                    if let DV::Var(n) = v {
                        if !used.contains(n) {
                            used.push(n.clone());
                        }
                    }
                }
            }
            if let Some(sub) = sub {
                walk(sub, used);
            }
        }
    }
    walk(&sels, &mut used);
    for f in &frags_now {
        walk(&f.sels, &mut used);
    }
    g.vars.retain(|v| used.contains(&v.0));
    let vars_decl: Vec<VarDefN> = g
        .vars
        .iter()
        .map(|(n, has_d, d)| VarDefN {
            name: n.clone(),
            ty: if *has_d { TRef::Named("Boolean".into()) } else { TRef::NonNull(Box::new(TRef::Named("Boolean".into()))) },
            default: if *has_d { Some(GV::Bool(*d)) } else { None },
        })
        .collect();
    let mut supplied = vec![];
    for (n, has_d, _) in g.vars.clone() {
        if !has_d || g.rng.chance(1, 2) {
            supplied.push((n, GV::Bool(g.rng.chance(1, 2))));
        } else {
            g.dist.hit("doc_var_omitted_with_default");
        }
    }
    let name = if g.rng.chance(1, 2) || !vars_decl.is_empty() || op_ty != "query" { Some("Op".to_string()) } else { None };
    let frags = std::mem::take(&mut g.frags);
    let doc = DocN { ops: vec![OpN { ty: op_ty.into(), name, vars: vars_decl, sels }], frags };
    (doc, supplied)
}

pub fn vars_sexp(vs: &[(String, GV)]) -> Sexp {
    node("vars", vs.iter().map(|(k, v)| list(vec![st(k.clone()), v.to_sexp()])).collect())
}
pub fn vars_from_sexp(s: &Sexp) -> Vec<(String, GV)> {
    s.args().iter().map(|p| {
        let l = p.as_list().unwrap();
        (l[0].as_str().unwrap().to_string(), GV::from_sexp(&l[1]).unwrap())
    }).collect()
}

/// canonical rendering of a response: data, errors as sorted (path, line, column), invocation log
pub fn response_sexp(resp: &async_graphql::Response, w: &World) -> Sexp {
    let data = match &resp.data {
        AValue::Null => atom("null"),
        v => avalue_to_sexp(v),
    };
    let mut errs: Vec<String> = resp
        .errors
        .iter()
        .map(|e| {
            let path = list(
                e.path
                    .iter()
                    .map(|p| match p {
                        async_graphql::PathSegment::Field(f) => st(f.clone()),
                        async_graphql::PathSegment::Index(i) => num(i),
                    })
                    .collect(),
            );
            let (l, c) = e.locations.first().map(|p| (p.line, p.column)).unwrap_or((0, 0));
            list(vec![path, num(l), num(c)]).to_string()
        })
        .collect();
    errs.sort();
    let log = w.log.lock().unwrap();
    node(
        "resp",
        vec![
            data,
            node("errs", errs.into_iter().map(atom).collect()),
            node("log", log.iter().map(|(id, f, k)| list(vec![num(id), st(f.clone()), st(k.clone())])).collect()),
        ],
    )
}

pub fn counts(m: &BTreeMap<String, u64>) -> String {
    format!("{m:?}")
}
