//! C13 — the parser accepts exactly GraphQL documents and builds the tree they denote.
//!
//! Case kinds
//!   (q TEXT)        parse_query(TEXT): the whole executable document
//!   (blk RAW)       a block string with raw content RAW inside a minimal document (block_string_value)
//!   (ty TEXT)       TEXT used as the type of a variable definition (type_ rule + Type::new)
//!   (num TEXT)      TEXT used as the single element of a list argument (number rule + conversion)
//! Output (canonical, hash maps sorted by name)
//!   (ok DOC) | (err syntax|depth|multiple-ops|missing-op|number) | (err dup-op NAME) | (err dup-frag NAME)

use agvh::*;
use async_graphql_parser::{
    Error, parse_query,
    types::{
        BaseType, Directive, DocumentOperations, ExecutableDocument, FragmentDefinition, OperationDefinition,
        OperationType, Selection, SelectionSet, Type, VariableDefinition,
    },
};
use async_graphql_value::{ConstValue, Name, Value};

// ------------------------------------------------------------------ canonical printing

fn nm(n: &Name) -> Sexp {
    st(n.as_str())
}
fn opt_nm(n: Option<&Name>) -> Sexp {
    match n {
        Some(n) => nm(n),
        None => atom("-"),
    }
}
fn number(n: &async_graphql_value::Number) -> Sexp {
    if let Some(u) = n.as_u64() {
        node("i", vec![num(u)])
    } else if let Some(i) = n.as_i64() {
        node("i", vec![num(i)])
    } else {
        node("fl", vec![num(n.as_f64().unwrap().to_bits())])
    }
}
fn value(v: &Value) -> Sexp {
    match v {
        Value::Variable(n) => node("v", vec![nm(n)]),
        Value::Null => atom("null"),
        Value::Number(n) => number(n),
        Value::String(s) => node("s", vec![st(s.as_str())]),
        Value::Boolean(b) => node("b", vec![atom(if *b { "true" } else { "false" })]),
        Value::Binary(_) => atom("binary"),
        Value::Enum(n) => node("e", vec![nm(n)]),
        Value::List(xs) => node("l", xs.iter().map(value).collect()),
        Value::Object(fs) => node("o", fs.iter().map(|(k, v)| list(vec![nm(k), value(v)])).collect()),
    }
}
fn cvalue(v: &ConstValue) -> Sexp {
    value(&v.clone().into_value())
}
fn ty(t: &Type) -> Sexp {
    let n = atom(if t.nullable { "n" } else { "nn" });
    match &t.base {
        BaseType::Named(name) => node("named", vec![nm(name), n]),
        BaseType::List(inner) => node("listof", vec![ty(inner), n]),
    }
}
fn dirs(ds: &[async_graphql_parser::Positioned<Directive>]) -> Sexp {
    list(
        ds.iter()
            .map(|d| {
                list(vec![
                    nm(&d.node.name.node),
                    list(d.node.arguments.iter().map(|(k, v)| list(vec![nm(&k.node), value(&v.node)])).collect()),
                ])
            })
            .collect(),
    )
}
fn sels(s: &SelectionSet) -> Sexp {
    list(
        s.items
            .iter()
            .map(|sel| match &sel.node {
                Selection::Field(f) => node(
                    "f",
                    vec![
                        opt_nm(f.node.alias.as_ref().map(|a| &a.node)),
                        nm(&f.node.name.node),
                        list(f.node.arguments.iter().map(|(k, v)| list(vec![nm(&k.node), value(&v.node)])).collect()),
                        dirs(&f.node.directives),
                        sels(&f.node.selection_set.node),
                    ],
                ),
                Selection::FragmentSpread(s) => {
                    node("spread", vec![nm(&s.node.fragment_name.node), dirs(&s.node.directives)])
                }
                Selection::InlineFragment(i) => node(
                    "inline",
                    vec![
                        opt_nm(i.node.type_condition.as_ref().map(|t| &t.node.on.node)),
                        dirs(&i.node.directives),
                        sels(&i.node.selection_set.node),
                    ],
                ),
            })
            .collect(),
    )
}
fn vardef(v: &VariableDefinition) -> Sexp {
    node(
        "var",
        vec![
            nm(&v.name.node),
            ty(&v.var_type.node),
            dirs(&v.directives),
            match &v.default_value {
                Some(d) => cvalue(&d.node),
                None => atom("-"),
            },
        ],
    )
}
fn op(o: &OperationDefinition) -> Sexp {
    node(
        "op",
        vec![
            atom(match o.ty {
                OperationType::Query => "query",
                OperationType::Mutation => "mutation",
                OperationType::Subscription => "subscription",
            }),
            list(o.variable_definitions.iter().map(|v| vardef(&v.node)).collect()),
            dirs(&o.directives),
            sels(&o.selection_set.node),
        ],
    )
}
fn frag(name: &Name, f: &FragmentDefinition) -> Sexp {
    list(vec![nm(name), nm(&f.type_condition.node.on.node), dirs(&f.directives), sels(&f.selection_set.node)])
}
fn doc(d: &ExecutableDocument) -> Sexp {
    let ops = match &d.operations {
        DocumentOperations::Single(o) => node("single", vec![op(&o.node)]),
        DocumentOperations::Multiple(m) => {
            let mut v: Vec<_> = m.iter().collect();
            v.sort_by(|a, b| a.0.as_str().cmp(b.0.as_str()));
            node("multi", v.into_iter().map(|(k, o)| list(vec![nm(k), op(&o.node)])).collect())
        }
    };
    let mut fs: Vec<_> = d.fragments.iter().collect();
    fs.sort_by(|a, b| a.0.as_str().cmp(b.0.as_str()));
    node("doc", vec![ops, node("frags", fs.into_iter().map(|(k, f)| frag(k, &f.node)).collect())])
}

fn result(text: &str) -> Sexp {
    match parse_query(text) {
        Ok(d) => node("ok", vec![doc(&d)]),
        Err(e) => match e {
            Error::Syntax { message, .. } => {
                if message.starts_with("invalid number") {
                    node("err", vec![atom("number")])
                } else {
                    node("err", vec![atom("syntax")])
                }
            }
            Error::MultipleOperations { .. } => node("err", vec![atom("multiple-ops")]),
            Error::OperationDuplicated { operation, .. } => node("err", vec![atom("dup-op"), nm(&operation)]),
            Error::FragmentDuplicated { fragment, .. } => node("err", vec![atom("dup-frag"), nm(&fragment)]),
            Error::MissingOperation => node("err", vec![atom("missing-op")]),
            Error::RecursionLimitExceeded => node("err", vec![atom("depth")]),
            _ => node("err", vec![atom("other")]),
        },
    }
}

/// the document a focused case stands for (the judge builds the same text)
pub fn wrap(kind: &str, t: &str) -> String {
    match kind {
        "q" => t.to_string(),
        "blk" => format!("{{a(b:\"\"\"{}\"\"\")}}", t),
        "ty" => format!("query($v:{}){{a}}", t),
        "num" => format!("{{a(b:[{}])}}", t),
        _ => String::new(),
    }
}

fn run(case: &Sexp, _dist: &mut Dist) -> Sexp {
    let a = case.args();
    let text = a[0].as_str().unwrap();
    result(&wrap(case.tag().unwrap(), text))
}

// ------------------------------------------------------------------ generator

struct G<'a> {
    out: String,
    rng: &'a mut Rng,
    dist: &'a mut Dist,
    budget: i32,
    glue_ok: bool,
}

const NAMES: [&str; 14] = ["a", "b", "user", "id", "_x", "T", "Foo", "on", "query", "trueish", "nullable", "fragment", "x1", "type"];
const ENUMS: [&str; 8] = ["RED", "green", "trueish", "falsey", "nullable", "on", "query", "A_1"];

fn name_like(c: char) -> bool {
    c.is_ascii_alphanumeric() || c == '_'
}

impl<'a> G<'a> {
    fn sep_piece(&mut self) {
        match self.rng.below(16) {
            0..=6 => self.out.push(' '),
            7 => self.out.push(','),
            8 => self.out.push('\n'),
            9 => self.out.push_str("\r\n"),
            10 => self.out.push('\t'),
            11 => {
                self.dist.hit("bom");
                self.out.push('\u{feff}')
            }
            12 => self.out.push('\r'),
            _ => {
                self.dist.hit("comment");
                self.out.push('#');
                let n = self.rng.below(6);
                for _ in 0..n {
                    let c = *self.rng.pick(&['c', ' ', '"', '{', '#', '\u{e9}', '\\', ',', '1']);
                    self.out.push(c);
                }
                self.out.push_str(*self.rng.pick(&["\n", "\r\n", "\r"]));
            }
        }
    }
    /// random ignored tokens (possibly none)
    fn ws(&mut self) {
        if self.rng.chance(3, 5) {
            return;
        }
        let n = 1 + self.rng.below(2);
        for _ in 0..n {
            self.sep_piece();
        }
    }
    /// emit a token, separating it from the previous one when both are name-like
    fn tok(&mut self, t: &str) {
        self.budget -= 1;
        let last = self.out.chars().last();
        let need = match (last, t.chars().next()) {
            (Some(a), Some(b)) => (name_like(a) || a == '.') && (name_like(b) || b == '-' || b == '.'),
            _ => false,
        };
        if need && !(self.glue_ok && self.rng.chance(1, 40)) {
            // a mandatory separator: never a BOM-only or empty one
            match self.rng.below(5) {
                0 => self.out.push(','),
                1 => self.out.push('\n'),
                2 => {
                    self.out.push_str("#c\n");
                    self.dist.hit("comment")
                }
                _ => self.out.push(' '),
            }
            self.ws();
        } else {
            if need {
                self.dist.hit("glued_tokens");
            }
            self.ws();
        }
        self.out.push_str(t);
    }
    fn name(&mut self) {
        let n = *self.rng.pick(&NAMES);
        self.tok(n);
    }
    fn int_text(&mut self) -> String {
        match self.rng.below(12) {
            0 => "0".into(),
            1 => "-0".into(),
            2 => "18446744073709551615".into(),
            3 => "18446744073709551616".into(),
            4 => "-9223372036854775808".into(),
            5 => "-9223372036854775809".into(),
            6 => format!("{}", self.rng.next_u64()),
            7 => format!("-{}", self.rng.next_u64()),
            8 => format!("{}{}", self.rng.next_u64(), self.rng.below(1000)),
            _ => format!("{}", self.rng.range(-1000, 1000)),
        }
    }
    fn float_text(&mut self) -> String {
        let mut t = String::new();
        if self.rng.chance(1, 4) {
            t.push('-');
        }
        match self.rng.below(6) {
            0 => t.push('0'),
            1 => t.push_str(&format!("{}", self.rng.below(100))),
            2 => t.push_str(&format!("{}", self.rng.next_u64() >> self.rng.below(40))),
            3 => t.push_str("9007199254740993"),
            _ => t.push_str(&format!("{}", self.rng.below(100000))),
        }
        let frac = self.rng.chance(2, 3);
        if frac {
            t.push('.');
            let m = if self.rng.chance(1, 6) { 18 } else { 4 };
            let n = 1 + self.rng.below(m);
            for _ in 0..n {
                t.push((b'0' + self.rng.below(10) as u8) as char);
            }
        }
        if !frac || self.rng.chance(1, 2) {
            t.push(*self.rng.pick(&['e', 'E']));
            match self.rng.below(3) {
                0 => t.push('+'),
                1 => t.push('-'),
                _ => {}
            }
            let e = match self.rng.below(8) {
                0 => self.rng.below(400),
                1 => 300 + self.rng.below(30),
                _ => self.rng.below(25),
            };
            t.push_str(&format!("{}", e));
        }
        t
    }
    fn string_text(&mut self) -> String {
        let mut t = String::from("\"");
        let n = self.rng.below(7);
        for _ in 0..n {
            match self.rng.below(14) {
                0 => t.push_str("\\n"),
                1 => t.push_str("\\\""),
                2 => t.push_str("\\\\"),
                3 => t.push_str(*self.rng.pick(&["\\/", "\\b", "\\f", "\\r", "\\t"])),
                4 => {
                    self.dist.hit("unicode_escape");
                    t.push_str(&format!("\\u{:04x}", self.rng.below(0xD800)))
                }
                5 => {
                    self.dist.hit("unicode_escape");
                    t.push_str(*self.rng.pick(&["\\u00e9", "\\uD7FF", "\\uE000", "\\uFFFF", "\\u0041", "\\uABCD", "\\ufeff"]))
                }
                6 => {
                    if self.rng.chance(1, 4) {
                        self.dist.hit("surrogate_escape");
                        t.push_str(*self.rng.pick(&["\\uD800", "\\udfff", "\\uDBFF", "\\ud83d\\ude00"]))
                    } else {
                        t.push('x')
                    }
                }
                7 => t.push(*self.rng.pick(&['\u{e9}', '\u{1F600}', '\u{feff}', '\u{1}', '\u{7f}'])),
                8 => t.push(*self.rng.pick(&['#', ',', '{', ' ', '\t'])),
                _ => t.push(*self.rng.pick(&['a', 'b', 'Z', '0', '_'])),
            }
        }
        t.push('"');
        t
    }
    fn block_raw(&mut self) -> String {
        let mut t = String::new();
        let n = self.rng.below(14);
        for _ in 0..n {
            match self.rng.below(16) {
                0..=3 => t.push(' '),
                4 => t.push('\t'),
                5 | 6 => t.push('\n'),
                7 => t.push_str("\r\n"),
                8 => t.push('\r'),
                9 => {
                    self.dist.hit("block_escaped_quotes");
                    t.push_str("\\\"\"\"")
                }
                10 => t.push(*self.rng.pick(&['"', '\\', '\u{e9}', '#'])),
                11 => t.push_str(*self.rng.pick(&["\"\"", "\\n", "\\u0041", "\\\""])),
                _ => t.push(*self.rng.pick(&['a', 'b', 'c'])),
            }
        }
        // an unescaped quote run at the end would merge with the closing delimiter
        while t.ends_with('"') || t.ends_with('\\') {
            t.pop();
        }
        t
    }
    fn value(&mut self, depth: usize, konst: bool) {
        let k = if depth >= 3 || self.budget < 0 { self.rng.below(8) } else { self.rng.below(11) };
        match k {
            0 => {
                if konst && !self.rng.chance(1, 15) {
                    self.tok("1")
                } else {
                    self.tok("$");
                    self.glue_name()
                }
            }
            1 => {
                self.dist.hit("v_int");
                let t = self.int_text();
                self.tok(&t)
            }
            2 => {
                self.dist.hit("v_float");
                let t = self.float_text();
                self.tok(&t)
            }
            3 => {
                self.dist.hit("v_string");
                let t = self.string_text();
                self.tok(&t)
            }
            4 => {
                self.dist.hit("v_block");
                let t = format!("\"\"\"{}\"\"\"", self.block_raw());
                self.tok(&t)
            }
            5 => {
                let b = *self.rng.pick(&["true", "false"]);
                self.tok(b)
            }
            6 => self.tok("null"),
            7 => {
                self.dist.hit("v_enum");
                let e = *self.rng.pick(&ENUMS);
                self.tok(e)
            }
            8 | 9 => {
                self.dist.hit("v_list");
                self.tok("[");
                let n = self.rng.below(4);
                for _ in 0..n {
                    self.value(depth + 1, konst);
                }
                self.tok("]")
            }
            _ => {
                self.dist.hit("v_object");
                self.tok("{");
                let n = self.rng.below(3);
                for _ in 0..n {
                    let k = *self.rng.pick(&["a", "b", "c"]);
                    self.tok(k);
                    self.tok(":");
                    self.value(depth + 1, konst);
                }
                self.tok("}")
            }
        }
    }
    /// a name directly after `$` or `@` (the spec allows ignored tokens there too)
    fn glue_name(&mut self) {
        let n = *self.rng.pick(&NAMES);
        if self.rng.chance(1, 12) {
            self.tok(n)
        } else {
            self.out.push_str(n)
        }
    }
    fn arguments(&mut self, konst: bool) {
        self.tok("(");
        let n = 1 + self.rng.below(2);
        for _ in 0..n {
            let k = *self.rng.pick(&["a", "b", "arg", "on"]);
            self.tok(k);
            self.tok(":");
            self.value(0, konst);
        }
        self.tok(")");
    }
    fn directives(&mut self, konst: bool) {
        if !self.rng.chance(1, 5) {
            return;
        }
        self.dist.hit("directives");
        let n = 1 + self.rng.below(2);
        for _ in 0..n {
            self.tok("@");
            self.glue_name();
            if self.rng.chance(1, 3) {
                self.arguments(konst);
            }
        }
    }
    fn type_ref(&mut self, depth: usize, inner_ws: bool) {
        let t = |g: &mut G, s: &str| {
            if inner_ws {
                g.tok(s)
            } else {
                g.out.push_str(s)
            }
        };
        if depth < 3 && self.rng.chance(1, 3) {
            t(self, "[");
            self.type_ref(depth + 1, inner_ws);
            t(self, "]");
        } else {
            let n = *self.rng.pick(&["Int", "String", "T", "on", "_A1"]);
            t(self, n);
        }
        if self.rng.chance(1, 3) {
            t(self, "!");
        }
    }
    fn var_defs(&mut self) {
        self.tok("(");
        let n = if self.rng.chance(1, 25) {
            self.dist.hit("empty_vardefs");
            0
        } else {
            1 + self.rng.below(2)
        };
        for _ in 0..n {
            self.tok("$");
            self.glue_name();
            self.tok(":");
            let inner_ws = self.rng.chance(1, 12);
            if inner_ws {
                self.dist.hit("type_inner_ws");
            }
            self.ws();
            // the first token of the type may always be preceded by ignored tokens
            self.type_ref(0, inner_ws);
            let dirs_first = self.rng.chance(1, 2);
            let konst = !self.rng.chance(1, 10);
            if dirs_first {
                self.directives(konst);
            }
            if self.rng.chance(1, 2) {
                self.dist.hit("default_value");
                self.tok("=");
                self.value(1, true);
            }
            if !dirs_first {
                self.directives(konst);
            }
        }
        self.tok(")");
    }
    fn selection_set(&mut self, depth: usize) {
        self.tok("{");
        let n = if self.budget < 0 { 1 } else { 1 + self.rng.below(3) };
        for _ in 0..n {
            match self.rng.below(9) {
                0 => {
                    self.dist.hit("spread");
                    self.tok("...");
                    let n = if self.rng.chance(1, 15) { "on" } else { *self.rng.pick(&["F", "frag", "only", "on_"]) };
                    self.tok(n);
                    self.directives(false);
                }
                1 => {
                    self.dist.hit("inline");
                    self.tok("...");
                    if self.rng.chance(2, 3) {
                        self.tok("on");
                        self.name();
                    }
                    self.directives(false);
                    self.selection_set(depth + 1);
                }
                _ => {
                    if self.rng.chance(1, 5) {
                        self.name();
                        self.tok(":");
                    }
                    self.name();
                    if self.rng.chance(1, 3) {
                        self.arguments(false);
                    }
                    self.directives(false);
                    if depth < 3 && self.budget > 0 && self.rng.chance(1, 3) {
                        self.selection_set(depth + 1);
                    }
                }
            }
        }
        self.tok("}");
    }
    fn chain(&mut self, levels: usize) {
        // exactly `levels` selection sets nested below the top-level one
        self.out.push_str("{a");
        let mut open = 1;
        let mut nested = 0;
        while nested < levels {
            if nested % 7 == 3 && nested + 2 <= levels {
                self.out.push_str("{...{a");
                nested += 2;
                open += 2;
            } else {
                self.out.push_str("{a");
                nested += 1;
                open += 1;
            }
        }
        for _ in 0..open {
            self.out.push('}');
        }
    }
    fn definition(&mut self, idx: usize) {
        let k = if idx == 0 { self.rng.below(10) } else { 1 + self.rng.below(12) };
        match k {
            0 => {
                self.dist.hit("def_anonymous");
                self.selection_set(0);
            }
            1 | 2 | 3 | 10 | 11 | 12 => {
                self.dist.hit("def_fragment");
                self.tok("fragment");
                let n = if self.rng.chance(1, 15) { "on" } else { *self.rng.pick(&["F", "frag", "G", "H", "I", "J"]) };
                self.tok(n);
                self.tok("on");
                self.name();
                self.directives(false);
                self.selection_set(0);
            }
            _ => {
                self.dist.hit("def_operation");
                let ot = *self.rng.pick(&["query", "query", "mutation", "subscription"]);
                self.tok(ot);
                if idx > 0 || self.rng.chance(3, 4) {
                    let n = *self.rng.pick(&["Q", "M", "q2", "query", "on", "Op1", "Op2", "Op3", "Op4"]);
                    self.tok(n);
                }
                if self.rng.chance(1, 2) {
                    self.var_defs();
                }
                self.directives(false);
                self.selection_set(0);
            }
        }
    }
}

const MUT_POOL: [&str; 24] = [
    "{", "}", "(", ")", "[", "]", ":", "!", "$", "@", "\"", "#", ".", ",", "0", "a", "e", "-", "\n", " ", "...", "=", "&", "\\",
];

fn mutate(rng: &mut Rng, text: &str) -> String {
    let cs: Vec<char> = text.chars().collect();
    if cs.is_empty() {
        return text.to_string();
    }
    let i = rng.below(cs.len());
    let mut out: Vec<char> = Vec::new();
    match rng.below(5) {
        0 => {
            out.extend(&cs[..i]);
            out.extend(&cs[i + 1..]);
        }
        1 | 2 => {
            out.extend(&cs[..i]);
            out.extend(rng.pick(&MUT_POOL).chars());
            out.extend(&cs[i..]);
        }
        3 => {
            out.extend(&cs[..i]);
            if i + 1 < cs.len() {
                out.push(cs[i + 1]);
                out.push(cs[i]);
                out.extend(&cs[i + 2..]);
            }
        }
        _ => {
            out.extend(&cs[..i]);
            // drop a run of ignorable characters: glues the neighbours together
            let mut j = i;
            while j < cs.len() && (cs[j] == ' ' || cs[j] == ',' || cs[j] == '\n') {
                j += 1;
            }
            out.extend(&cs[j.max(i)..]);
        }
    }
    out.into_iter().collect()
}

fn gen_case(rng: &mut Rng, _i: usize, _o: &Opts, dist: &mut Dist) -> Sexp {
    let kind = rng.below(20);
    let mut r2 = rng.fork();
    let mut g = G { out: String::new(), rng: &mut r2, dist, budget: 22, glue_ok: true };
    match kind {
        0 | 1 => {
            g.dist.hit("kind_blk");
            let t = g.block_raw();
            return node("blk", vec![st(t)]);
        }
        2 => {
            g.dist.hit("kind_ty");
            let ws = g.rng.chance(1, 2);
            g.glue_ok = false;
            g.type_ref(0, ws);
            let mut t = g.out.clone();
            if rng.chance(1, 4) {
                t = mutate(rng, &t);
            }
            return node("ty", vec![st(t)]);
        }
        3 | 4 => {
            g.dist.hit("kind_num");
            let mut t = if g.rng.chance(1, 2) { g.int_text() } else { g.float_text() };
            if rng.chance(1, 3) {
                t = mutate(rng, &t);
            }
            if rng.chance(1, 10) {
                t = format!("0{}", t);
            }
            return node("num", vec![st(t)]);
        }
        5 => {
            g.dist.hit("kind_depth");
            let levels = 60 + g.rng.below(8);
            g.dist.hit(if levels <= 64 { "depth_within" } else { "depth_beyond" });
            if g.rng.chance(1, 2) {
                g.out.push_str("fragment F on T");
            }
            g.chain(levels);
            if g.rng.chance(1, 2) {
                g.out.push_str("{b}");
            }
            return node("q", vec![st(g.out.clone())]);
        }
        _ => {}
    }
    g.dist.hit("kind_doc");
    if g.rng.chance(1, 10) {
        g.out.push('\u{feff}');
    }
    let n = match g.rng.below(6) {
        0 | 1 | 2 => 1,
        3 | 4 => 2,
        _ => 3,
    };
    for i in 0..n {
        g.definition(i);
    }
    g.ws();
    let mut text = g.out.clone();
    if text.chars().count() > 400 {
        text = text.chars().take(400).collect();
        dist.hit("truncated");
    }
    if rng.chance(1, 4) {
        dist.hit("mutated");
        text = mutate(rng, &text);
    }
    node("q", vec![st(text)])
}

fn main() {
    main_loop(&mut gen_case, &mut run);
}
