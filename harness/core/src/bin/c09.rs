//! C09 — strict validation rejects exactly the documents the GraphQL spec calls invalid.
//!
//! Case:   (case VSCHEMA DOC OPNAME VARS TEXT)            stream `main`    (static schema, derive macros)
//!         (case VSCHEMA DOC OPNAME VARS TEXT (flavour dynamic))   stream `dynamic` (the same schema built
//!            with async_graphql::dynamic, c09/dynschema.rs; VSCHEMA is the dump of THAT registry, the
//!            request goes through dynamic::Schema::execute / execute_stream, RAN additionally counts
//!            the invocations the resolver closures logged themselves)
//!   VSCHEMA  description of the schema read back from the REAL registry (through
//!            ExtensionContext::schema_env): types, fields, arguments, input objects, directives.
//!            Two variants of the static schema exist: the plain one, and one that additionally
//!            registers a custom field directive called `ifdef`; the variant a case runs against is
//!            the one whose dump the case carries (`run` looks for a `(dirdef "ifdef" …)` entry).
//!            A THIRD variant has the same field set but merged roots: Query and Mutation are
//!            `#[derive(MergedObject)]` of `#[Object]` parts, Subscription is a
//!            `#[derive(MergedSubscription)]` of two `#[Subscription]` parts (root names `MQuery`,
//!            `MMutation`, `MSubscription` — `run` recognises the variant by the query root's name).
//!            The dump lists, as `(subflag NAME…)`, the object types registered with
//!            `is_subscription: true`: the flag `visit_selection` goes by.
//!   DOC      the document as a tree (printed by the harness to TEXT, which is what is executed)
//!   OPNAME   none | "name";  VARS supplied variable values
//! Output: (out STAGE (errs (MSG NLOCS)…) RAN (later MSG…))
//!   STAGE  parse | valid | ok   — where the production pipeline `Schema::execute` (Strict mode)
//!          stopped: parse error, validation rejected, validation accepted
//!   errs   the errors returned by that stage (observed in the extension hooks), sorted, deduplicated
//!   RAN    number of field resolutions (Extension::resolve calls)
//!   later  messages of the response errors when validation accepted
//! A case line that is not a C09 case (the witness of a finding of another property listed with
//! `"also": ["C09"]`) is answered with `(foreign)` and skipped by the judge.

use std::sync::{Arc, Mutex};

use agvh::*;
use async_graphql::extensions::*;
use async_graphql::parser::types::ExecutableDocument;
use async_graphql::registry::{MetaType, Registry};
use async_graphql::*;
use futures_util::stream::{self, Stream};

include!("../c09/schema.rs");
include!("../c09/doc.rs");
include!("../c09/gen.rs");
include!("../c09/dynschema.rs");

// ------------------------------------------------------------------ observation of the pipeline

#[derive(Default)]
struct Obs {
    parse_err: Option<Vec<(String, usize)>>,
    valid_err: Option<Vec<(String, usize)>>,
    validated: bool,
    ran: usize,
    dump: Option<Sexp>,
    want_dump: bool,
}
struct ObsF(Arc<Mutex<Obs>>);
impl ExtensionFactory for ObsF {
    fn create(&self) -> Arc<dyn Extension> {
        Arc::new(ObsE(self.0.clone()))
    }
}
struct ObsE(Arc<Mutex<Obs>>);
#[async_graphql::async_trait::async_trait]
impl Extension for ObsE {
    async fn parse_query(&self, ctx: &ExtensionContext<'_>, query: &str, variables: &Variables, next: NextParseQuery<'_>) -> ServerResult<ExecutableDocument> {
        {
            let mut o = self.0.lock().unwrap();
            if o.want_dump {
                o.dump = Some(dump_registry(&ctx.schema_env.registry));
            }
        }
        let r = next.run(ctx, query, variables).await;
        if let Err(e) = &r {
            self.0.lock().unwrap().parse_err = Some(vec![(e.message.clone(), e.locations.len())]);
        }
        r
    }
    async fn validation(&self, ctx: &ExtensionContext<'_>, next: NextValidation<'_>) -> Result<ValidationResult, Vec<ServerError>> {
        let r = next.run(ctx).await;
        let mut o = self.0.lock().unwrap();
        o.validated = true;
        if let Err(es) = &r {
            o.valid_err = Some(es.iter().map(|e| (e.message.clone(), e.locations.len())).collect());
        }
        r
    }
    async fn resolve(&self, ctx: &ExtensionContext<'_>, info: ResolveInfo<'_>, next: NextResolve<'_>) -> ServerResult<Option<Value>> {
        self.0.lock().unwrap().ran += 1;
        next.run(ctx, info).await
    }
}

fn build(obs: Arc<Mutex<Obs>>, with_ifdef: bool) -> Schema<Query, Mutation, Subscription> {
    let mut b = Schema::build(Query, Mutation, Subscription).directive(concat).directive(tagged);
    if with_ifdef {
        b = b.directive(ifdef);
    }
    b.validation_mode(ValidationMode::Strict).extension(ObsF(obs)).finish()
}

fn build_merged(obs: Arc<Mutex<Obs>>) -> Schema<MQuery, MMutation, MSubscription> {
    Schema::build(MQuery(QPartA, QPartB, QPartC), MMutation(MPartA, MPartB), MSubscription(SPartA, SPartB))
        .directive(concat)
        .directive(tagged)
        .validation_mode(ValidationMode::Strict)
        .extension(ObsF(obs))
        .finish()
}

/// is the query root of the schema description the merged one?
fn case_is_merged(vschema: &Sexp) -> bool {
    vschema.args().first().and_then(|sc| sc.args().first()).and_then(|q| q.as_str()) == Some("MQuery")
}

fn schema_sexp_merged() -> Sexp {
    let obs = Arc::new(Mutex::new(Obs { want_dump: true, ..Default::default() }));
    let schema = build_merged(obs.clone());
    let _ = spin_on(schema.execute("{ __typename }"));
    obs.lock().unwrap().dump.take().expect("registry dump (merged roots)")
}

/// does the schema description of a case contain a directive definition called `ifdef`?
fn case_has_ifdef(vschema: &Sexp) -> bool {
    vschema.args().get(1).map(|d| d.args().iter().any(|x| x.args().first().and_then(|n| n.as_str()) == Some("ifdef"))).unwrap_or(false)
}

fn schema_sexp(with_ifdef: bool) -> Sexp {
    let obs = Arc::new(Mutex::new(Obs { want_dump: true, ..Default::default() }));
    let schema = build(obs.clone(), with_ifdef);
    let _ = spin_on(schema.execute("{ __typename }"));
    obs.lock().unwrap().dump.take().expect("registry dump")
}

fn build_dyn(obs: Arc<Mutex<Obs>>) -> dynamic::Schema {
    dynflavour::build(ObsF(obs))
}

fn schema_sexp_dyn() -> Sexp {
    let obs = Arc::new(Mutex::new(Obs { want_dump: true, ..Default::default() }));
    let schema = build_dyn(obs.clone());
    let _ = spin_on(schema.execute("{ __typename }"));
    obs.lock().unwrap().dump.take().expect("registry dump (dynamic)")
}

/// `(flavour dynamic)` as sixth component of the case
fn case_is_dynamic(a: &[Sexp]) -> bool {
    a.len() == 6 && a[5].tag() == Some("flavour") && a[5].args().first().and_then(|x| x.as_atom()) == Some("dynamic")
}

fn errs_sexp(es: &[(String, usize)]) -> Sexp {
    let mut v: Vec<(String, usize)> = es.to_vec();
    v.sort();
    v.dedup();
    list(v.into_iter().map(|(m, n)| list(vec![st(m), num(n)])).collect())
}

fn gen_case_dynamic(rng: &mut Rng, i: usize, dist: &mut Dist) -> Sexp {
    thread_local! {
        static SDD: (Sexp, SchemaD) = { let s = schema_sexp_dyn(); let d = SchemaD::from_sexp(&s); (s, d) };
    }
    SDD.with(|sd| {
        // the same generator, the same 52 mutations; there is one variant only (the dynamic API cannot
        // register an executable directive, hence no `ifdef` variant)
        let mut local = Dist::default();
        let (doc, opname, vars, _) = gen_request(&[&sd.1], rng, i, &mut local);
        for (k, n) in &local.0 {
            if !k.starts_with("gen_schema_") {
                dist.add(&format!("dyn_{k}"), *n);
            }
        }
        let text = print_doc(&doc);
        if text.contains("blob(") {
            dist.hit("dyn_uses_custom_scalar_blob");
        }
        if text.contains("@concat") || text.contains("@ifdef") || text.contains("@tagged") {
            dist.hit("dyn_uses_directive_the_dynamic_api_cannot_register");
        }
        node(
            "case",
            vec![sd.0.clone(), doc.to_sexp(), opname.map(st).unwrap_or(atom("none")), vars_sexp(&vars), st(text), node("flavour", vec![atom("dynamic")])],
        )
    })
}

fn gen_case(rng: &mut Rng, i: usize, o: &Opts, dist: &mut Dist) -> Sexp {
    if o.stream == "dynamic" {
        return gen_case_dynamic(rng, i, dist);
    }
    thread_local! {
        static SD: [(Sexp, SchemaD); 3] = [0, 1, 2].map(|v| { let s = if v == 2 { schema_sexp_merged() } else { schema_sexp(v == 1) }; let d = SchemaD::from_sexp(&s); (s, d) });
    }
    SD.with(|sds| {
        let (doc, opname, vars, variant) = gen_request(&[&sds[0].1, &sds[1].1, &sds[2].1], rng, i, dist);
        let sx = &sds[variant].0;
        debug_assert_eq!(case_has_ifdef(sx), variant == 1);
        debug_assert_eq!(case_is_merged(sx), variant == 2);
        let text = print_doc(&doc);
        node(
            "case",
            vec![sx.clone(), doc.to_sexp(), opname.map(st).unwrap_or(atom("none")), vars_sexp(&vars), st(text)],
        )
    })
}

fn run(case: &Sexp, dist: &mut Dist) -> Sexp {
    let a = case.args();
    let dynamic_flavour = case_is_dynamic(a);
    if !(a.len() == 5 || dynamic_flavour) || a[0].tag() != Some("vschema") {
        // the witness of a finding owned by another property and shared through `"also": ["C09"]`
        // comes in that property's case format; it is replayed there, C09 has its own corpus case
        dist.hit("foreign_witness_skipped");
        return node("foreign", vec![]);
    }
    let opname = a[2].as_str().map(|s| s.to_string());
    let vars = vars_from_sexp(&a[3]);
    let text = a[4].as_str().unwrap();
    let obs = Arc::new(Mutex::new(Obs::default()));
    let with_ifdef = case_has_ifdef(&a[0]);
    let merged = !dynamic_flavour && case_is_merged(&a[0]);
    let pre = if dynamic_flavour { "dyn_" } else { "" };
    dist.hit(if dynamic_flavour { "dyn_schema_dynamic" } else if merged { "schema_merged_roots" } else if with_ifdef { "schema_with_ifdef_directive" } else { "schema_plain" });
    enum Either {
        S(Schema<Query, Mutation, Subscription>),
        D(dynamic::Schema),
        M(Schema<MQuery, MMutation, MSubscription>),
    }
    let schema = if dynamic_flavour { Either::D(build_dyn(obs.clone())) } else if merged { Either::M(build_merged(obs.clone())) } else { Either::S(build(obs.clone(), with_ifdef)) };
    dynflavour::DYN_RESOLVER_CALLS.store(0, std::sync::atomic::Ordering::SeqCst);
    let mut req = Request::new(text);
    if let Some(n) = &opname {
        req = req.operation_name(n.clone());
    }
    let mut vs = Variables::default();
    for (k, v) in &vars {
        vs.insert(Name::new(k), v.to_const());
    }
    req = req.variables(vs);
    let is_sub = {
        // subscriptions go through execute_stream; everything else through execute
        let d = Doc::from_sexp(&a[1]);
        d.map(|d| {
            let op = match &opname {
                Some(n) => d.ops.iter().find(|o| o.name.as_deref() == Some(n.as_str())),
                None => d.ops.first(),
            };
            op.map(|o| o.ty == "subscription").unwrap_or(false)
        })
        .unwrap_or(false)
    };
    let errors: Vec<ServerError> = if is_sub {
        use futures_util::StreamExt;
        let mut out = vec![];
        let s: futures_util::stream::BoxStream<'static, Response> = match &schema {
            Either::S(x) => Box::pin(x.execute_stream(req)),
            Either::D(x) => x.execute_stream(req),
            Either::M(x) => Box::pin(x.execute_stream(req)),
        };
        futures_util::pin_mut!(s);
        let mut n = 0;
        while let Some(r) = spin_on(s.next()) {
            out.extend(r.errors);
            n += 1;
            if n >= 3 {
                break;
            }
        }
        out
    } else {
        match &schema {
            Either::S(x) => spin_on(x.execute(req)).errors,
            Either::D(x) => spin_on(x.execute(req)).errors,
            Either::M(x) => spin_on(x.execute(req)).errors,
        }
    };
    let logged = dynflavour::DYN_RESOLVER_CALLS.load(std::sync::atomic::Ordering::SeqCst);
    let o = obs.lock().unwrap();
    let (stage, errs) = if let Some(e) = &o.parse_err {
        ("parse", e.clone())
    } else if let Some(e) = &o.valid_err {
        ("valid", e.clone())
    } else if o.validated {
        ("ok", vec![])
    } else {
        ("none", errors.iter().map(|e| (e.message.clone(), e.locations.len())).collect())
    };
    dist.hit(&format!("{pre}stage_{stage}"));
    if dynamic_flavour && logged > 0 {
        dist.hit("dyn_resolver_closures_ran");
    }
    let mut later: Vec<String> = if stage == "ok" { errors.iter().map(|e| e.message.clone()).collect() } else { vec![] };
    later.sort();
    later.dedup();
    if !later.is_empty() {
        dist.hit(&format!("{pre}accepted_then_failed"));
    }
    node("out", vec![atom(stage), errs_sexp(&errs), num(o.ran + logged), node("later", later.into_iter().map(st).collect())])
}

fn main() {
    main_loop(&mut gen_case, &mut run);
}
