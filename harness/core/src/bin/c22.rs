//! C22 — look-ahead and selection views list every sub-field that will be resolved.
//!
//! Schema: the static family (objects A,B,C, interfaces I,J, unions U,V — family.rs) under a root
//! `Query` that additionally has `me: Query` (the root again, so that root fields appear BENEATH a
//! resolver) and `pick(x: Int! = 0, n: Int, s: String, t: E, xs: [Int], any: _Any): I`, a field
//! whose arguments are literals, variables (supplied / omitted / defaulted), lists and objects.
//!
//! Case:   (case SCHEMA DOC OPNAME VARS WORLD TEXT)          as for C01
//! Output: (out (inv PARENT FIELD KEY (LINE COL) (path…) (recv (ARG VALUE)…) (sel …) (la …))…)
//!   one `inv` per resolver invocation, in execution order (depth-first: every resolver is
//!   immediately ready); `recv` = the argument values the resolver function actually received;
//!   `sel` = `ctx.field().selection_set()` to depth 2 (name, alias, `arguments()`);
//!   `la`  = `ctx.look_ahead().field(n)` (`exists`, `selection_fields`) for every field name n
//!           occurring in the document plus `__typename` and the absent name `zz`, and
//!           `.field(n).field(m)` likewise.
//!   The sub-fields "subsequently resolved beneath" an invocation are the following invocations
//!   whose path extends its path (the judge reads them off the same list).

use std::sync::Arc;

#[path = "../family.rs"]
mod family;

use agvh::*;
use async_graphql::{Any, Context, EmptyMutation, EmptySubscription, Object, Result, Schema};
use family::*;

pub struct Q;

impl FromRVal for Q {
    fn conv(rv: &RVal) -> Result<Self> {
        match rv {
            RVal::Obj(ty, 0) if ty == "Query" => Ok(Q),
            _ => bad("Query", rv),
        }
    }
}

fn opt_int(v: &Option<i64>) -> GV {
    v.map(GV::Int).unwrap_or(GV::Null)
}

#[Object(name = "Query")]
impl Q {
    async fn a(&self, ctx: &Context<'_>) -> Result<Option<A>> {
        fetch(ctx, 0, "a")
    }
    async fn a_req(&self, ctx: &Context<'_>) -> Result<A> {
        fetch(ctx, 0, "aReq")
    }
    async fn b(&self, ctx: &Context<'_>) -> Result<Option<B>> {
        fetch(ctx, 0, "b")
    }
    async fn c(&self, ctx: &Context<'_>) -> Result<Option<C>> {
        fetch(ctx, 0, "c")
    }
    async fn i(&self, ctx: &Context<'_>) -> Result<Option<I>> {
        fetch(ctx, 0, "i")
    }
    async fn is(&self, ctx: &Context<'_>) -> Result<Option<Vec<Option<I>>>> {
        fetch(ctx, 0, "is")
    }
    async fn jay(&self, ctx: &Context<'_>) -> Result<Option<J>> {
        fetch(ctx, 0, "jay")
    }
    async fn un(&self, ctx: &Context<'_>) -> Result<Option<U>> {
        fetch(ctx, 0, "un")
    }
    async fn uns(&self, ctx: &Context<'_>) -> Result<Option<Vec<Option<U>>>> {
        fetch(ctx, 0, "uns")
    }
    async fn vn(&self, ctx: &Context<'_>) -> Result<Option<V>> {
        fetch(ctx, 0, "vn")
    }
    async fn num(&self, ctx: &Context<'_>) -> Result<Option<i64>> {
        fetch(ctx, 0, "num")
    }
    /// the root again: root fields (with their arguments) become sub-fields of a resolver
    async fn me(&self, ctx: &Context<'_>) -> Result<Option<Q>> {
        fetch(ctx, 0, "me")
    }
    #[allow(clippy::too_many_arguments)]
    async fn pick(
        &self,
        ctx: &Context<'_>,
        #[graphql(default = 0)] x: i64,
        n: Option<i64>,
        s: Option<String>,
        t: Option<E>,
        xs: Option<Vec<Option<i64>>>,
        any: Option<Any>,
    ) -> Result<Option<I>> {
        let recv = vec![
            ("x".to_string(), GV::Int(x)),
            ("n".to_string(), opt_int(&n)),
            ("s".to_string(), s.clone().map(GV::Str).unwrap_or(GV::Null)),
            ("t".to_string(), t.map(|e| GV::Enum(format!("{e:?}"))).unwrap_or(GV::Null)),
            ("xs".to_string(), xs.as_ref().map(|l| GV::List(l.iter().map(opt_int).collect())).unwrap_or(GV::Null)),
            ("any".to_string(), any.as_ref().map(|a| const_to_gv(&a.0)).unwrap_or(GV::Null)),
        ];
        *world(ctx).recv.lock().unwrap() = recv;
        fetch(ctx, 0, "pick")
    }
    async fn echo(&self, ctx: &Context<'_>, #[graphql(default = 0)] x: i64) -> i64 {
        *world(ctx).recv.lock().unwrap() = vec![("x".to_string(), GV::Int(x))];
        world(ctx).get(ctx, 0, "echo");
        x
    }
}

type S22 = Schema<Q, EmptyMutation, EmptySubscription>;

fn build22() -> S22 {
    Schema::build(Q, EmptyMutation, EmptySubscription).finish()
}

// ------------------------------------------------------------------ generator

struct VarPlan {
    name: &'static str,
    ty: TRef,
    default: Option<GV>,
    /// may be left out of the request variables
    omittable: bool,
}

fn named(n: &str) -> TRef {
    TRef::Named(n.into())
}

fn var_plans() -> Vec<VarPlan> {
    vec![
        VarPlan { name: "i0", ty: TRef::NonNull(Box::new(named("Int"))), default: None, omittable: false },
        VarPlan { name: "i1", ty: named("Int"), default: Some(GV::Int(5)), omittable: true },
        VarPlan { name: "i2", ty: named("Int"), default: None, omittable: true },
        VarPlan { name: "s0", ty: named("String"), default: None, omittable: true },
        VarPlan { name: "s1", ty: named("String"), default: Some(GV::Str("dflt".into())), omittable: true },
        VarPlan { name: "e0", ty: named("E"), default: None, omittable: true },
        VarPlan { name: "e1", ty: named("E"), default: Some(GV::Enum("Z".into())), omittable: true },
    ]
}

fn int_dv(rng: &mut Rng, nullable: bool, used: &mut Vec<String>, dist: &mut Dist) -> DV {
    let k = rng.below(if nullable { 7 } else { 5 });
    let var = |n: &str, used: &mut Vec<String>, dist: &mut Dist| {
        if !used.iter().any(|u| u == n) {
            used.push(n.to_string());
        }
        dist.hit("arg_variable");
        DV::Var(n.to_string())
    };
    match k {
        0 | 1 | 2 => DV::Const(GV::Int(*rng.pick(&[0, 1, -3, 7, 42]))),
        3 => var("i0", used, dist),
        4 => var("i1", used, dist),
        5 => var("i2", used, dist),
        _ => DV::Const(GV::Null),
    }
}

/// a DV tree cannot hold variables inside constants, so lists/objects with variables are built as text + sexp pairs
#[derive(Clone, Debug)]
enum AV {
    Leaf(DV),
    List(Vec<AV>),
    Obj(Vec<(String, AV)>),
}
impl AV {
    fn text(&self) -> String {
        match self {
            AV::Leaf(d) => d.text(),
            AV::List(xs) => format!("[{}]", xs.iter().map(|x| x.text()).collect::<Vec<_>>().join(", ")),
            AV::Obj(fs) => format!("{{{}}}", fs.iter().map(|(k, v)| format!("{k}: {}", v.text())).collect::<Vec<_>>().join(", ")),
        }
    }
}

fn any_av(rng: &mut Rng, depth: usize, used: &mut Vec<String>, dist: &mut Dist) -> AV {
    match rng.below(if depth == 0 { 2 } else { 4 }) {
        0 | 1 => AV::Leaf(int_dv(rng, true, used, dist)),
        2 => AV::List((0..rng.below(3)).map(|_| any_av(rng, depth - 1, used, dist)).collect()),
        _ => {
            let keys = ["k", "l", "m"];
            let n = 1 + rng.below(3);
            AV::Obj((0..n).map(|i| (keys[i].to_string(), any_av(rng, depth - 1, used, dist))).collect())
        }
    }
}

/// Give every `pick` occurrence arguments and a response key that is a function of them
/// (equal keys = equal arguments, so OverlappingFieldsCanBeMerged stays satisfied).
fn decorate(ss: &mut [SelN], rng: &mut Rng, used: &mut Vec<String>, table: &mut Vec<String>, side: &mut Vec<(String, AV)>, dist: &mut Dist) {
    for s in ss.iter_mut() {
        match s {
            SelN::Field { alias, name, args, sels, .. } => {
                if name == "pick" {
                    let mut av: Vec<(String, AV)> = vec![];
                    if rng.chance(1, 2) {
                        av.push(("x".into(), AV::Leaf(int_dv(rng, false, used, dist))));
                    }
                    if rng.chance(1, 2) {
                        av.push(("n".into(), AV::Leaf(int_dv(rng, true, used, dist))));
                    }
                    if rng.chance(1, 3) {
                        let d = match rng.below(4) {
                            0 => DV::Const(GV::Str("lit".into())),
                            1 => DV::Const(GV::Null),
                            2 => {
                                used.push("s0".into());
                                DV::Var("s0".into())
                            }
                            _ => {
                                used.push("s1".into());
                                DV::Var("s1".into())
                            }
                        };
                        av.push(("s".into(), AV::Leaf(d)));
                    }
                    if rng.chance(1, 3) {
                        let d = match rng.below(4) {
                            0 | 1 => DV::Const(GV::Enum(rng.pick(&["X", "Y", "Z"]).to_string())),
                            2 => {
                                used.push("e0".into());
                                DV::Var("e0".into())
                            }
                            _ => {
                                used.push("e1".into());
                                DV::Var("e1".into())
                            }
                        };
                        av.push(("t".into(), AV::Leaf(d)));
                    }
                    if rng.chance(1, 3) {
                        av.push(("xs".into(), AV::List((0..rng.below(4)).map(|_| AV::Leaf(int_dv(rng, true, used, dist))).collect())));
                    }
                    if rng.chance(1, 3) {
                        av.push(("any".into(), any_av(rng, 2, used, dist)));
                    }
                    if rng.chance(1, 2) {
                        rng.shuffle(&mut av);
                    }
                    let text = av.iter().map(|(k, v)| format!("{k}: {}", v.text())).collect::<Vec<_>>().join(", ");
                    let idx = match table.iter().position(|t| *t == text) {
                        Some(i) => i,
                        None => {
                            table.push(text);
                            table.len() - 1
                        }
                    };
                    *alias = Some(format!("p{idx}"));
                    dist.hit(if av.is_empty() { "pick_without_args" } else { "pick_with_args" });
                    // an argument value travels through the family's printer as a raw token (`GV::Enum(text)`
                    // prints verbatim, so positions are right); `side` maps the text back to the value tree
                    *args = av
                        .into_iter()
                        .map(|(k, v)| {
                            let t = v.text();
                            side.push((t.clone(), v));
                            (k, DV::Const(GV::Enum(t)))
                        })
                        .collect();
                }
                decorate(sels, rng, used, table, side, dist);
            }
            SelN::Inline { sels, .. } => decorate(sels, rng, used, table, side, dist),
            SelN::Spread { .. } => {}
        }
    }
}

fn av_sexp(v: &AV) -> Sexp {
    match v {
        AV::Leaf(d) => d.to_sexp(),
        AV::List(xs) => node("list", xs.iter().map(av_sexp).collect()),
        AV::Obj(fs) => node("obj", fs.iter().map(|(k, v)| list(vec![st(k.clone()), av_sexp(v)])).collect()),
    }
}

/// replace the raw tokens in the document tree by the value trees they stand for
fn substitute_sexp(s: &Sexp, side: &[(String, AV)]) -> Sexp {
    match s {
        Sexp::List(xs) => {
            if xs.len() == 2 && xs[0].as_atom() == Some("e") {
                if let Some(n) = xs[1].as_str() {
                    if let Some((_, v)) = side.iter().find(|(k, _)| k == n) {
                        return av_sexp(v);
                    }
                }
            }
            Sexp::List(xs.iter().map(|x| substitute_sexp(x, side)).collect())
        }
        _ => s.clone(),
    }
}

fn gen_case(rng: &mut Rng, _i: usize, _o: &Opts, dist: &mut Dist) -> Sexp {
    thread_local! {
        static SD: SchemaD = SchemaD::from_sdl(&build22().sdl());
    }
    SD.with(|sd| {
        // the document generator draws fields uniformly: weight `me` and `pick` by repeating them
        // in the description it draws from (the case carries the true description)
        let mut sd_gen = sd.clone();
        if let Some(q) = sd_gen.types.iter_mut().find(|t| t.name == "Query") {
            let me = q.fields.iter().find(|f| f.name == "me").unwrap().clone();
            let pick = q.fields.iter().find(|f| f.name == "pick").unwrap().clone();
            for _ in 0..4 {
                q.fields.push(me.clone());
                q.fields.push(pick.clone());
            }
        }
        let (mut doc, mut vars) = gen_request(&sd_gen, rng, dist, "query", true);
        let mut used = vec![];
        let mut table = vec![];
        let mut side = vec![];
        decorate(&mut doc.ops[0].sels, rng, &mut used, &mut table, &mut side, dist);
        let mut frags = std::mem::take(&mut doc.frags);
        for f in frags.iter_mut() {
            decorate(&mut f.sels, rng, &mut used, &mut table, &mut side, dist);
        }
        doc.frags = frags;
        for p in var_plans() {
            if used.iter().any(|u| u == p.name) {
                doc.ops[0].vars.push(VarDefN { name: p.name.into(), ty: p.ty.clone(), default: p.default.clone() });
                if !p.omittable || rng.chance(1, 2) {
                    let v = match p.ty.base() {
                        "Int" => GV::Int(*rng.pick(&[2, 9, -1])),
                        "String" => GV::Str(rng.pick(&["sup", ""]).to_string()),
                        _ => GV::Enum(rng.pick(&["X", "Y"]).to_string()),
                    };
                    let v = if p.default.is_none() && p.omittable && rng.chance(1, 5) { GV::Null } else { v };
                    vars.push((p.name.to_string(), v));
                } else {
                    dist.hit(if p.default.is_some() { "arg_var_omitted_with_default" } else { "arg_var_omitted_no_default" });
                }
            }
        }
        let text = print_doc(&mut doc);
        let wg = WorldGen { sd, fail_16: 0, nonfinite: false };
        let mut w = wg.generate(rng, &sd.query, dist);
        // keep the resolvers that have sub-fields with arguments beneath them alive more often
        let mut es = std::mem::take(&mut w.entries);
        for ((id, f), rv) in es.iter_mut() {
            if *id == 0 && matches!(rv, RVal::Null) && rng.chance(3, 4) {
                match f.as_str() {
                    "me" => *rv = RVal::Obj("Query".into(), 0),
                    "pick" | "i" => *rv = RVal::Obj(rng.pick(&["A", "B"]).to_string(), *rng.pick(&[1u32, 2, 3])),
                    _ => {}
                }
            }
        }
        // (ids 1..=3 are A objects, 4..=6 B objects)
        for ((_, _), rv) in es.iter_mut() {
            if let RVal::Obj(ty, id) = rv {
                if ty == "B" && *id < 4 {
                    *id += 3;
                }
            }
        }
        let w = World::new(es);
        node(
            "case",
            vec![
                sd.to_sexp(),
                substitute_sexp(&doc.to_sexp(), &side),
                doc.ops[0].name.as_ref().map(|n| st(n.clone())).unwrap_or(atom("none")),
                vars_sexp(&vars),
                w.to_sexp(),
                st(text),
            ],
        )
    })
}

/// field names occurring in the document tree (sexp form), sorted, plus `__typename` and `zz`
fn doc_names(s: &Sexp, out: &mut Vec<String>) {
    if let Sexp::List(xs) = s {
        if xs.len() == 7 && xs[0].as_atom() == Some("field") {
            if let Some(n) = xs[2].as_str() {
                out.push(n.to_string());
            }
        }
        for x in xs {
            doc_names(x, out);
        }
    }
}

fn run(case: &Sexp, dist: &mut Dist) -> Sexp {
    let a = case.args();
    let vars = vars_from_sexp(&a[3]);
    let mut names = vec!["__typename".to_string(), "zz".to_string()];
    doc_names(&a[1], &mut names);
    names.sort();
    names.dedup();
    let mut w = World::from_sexp(&a[4]).expect("world");
    w.view_names = Some(names);
    let w = Arc::new(w);
    let text = a[5].as_str().unwrap();
    let schema = build22();
    let mut req = async_graphql::Request::new(text).data(w.clone());
    if let Some(n) = a[2].as_str() {
        req = req.operation_name(n);
    }
    let mut vs = async_graphql::Variables::default();
    for (k, v) in &vars {
        vs.insert(async_graphql::Name::new(k), v.to_avalue());
    }
    req = req.variables(vs);
    let resp = spin_on(schema.execute(req));
    if !resp.errors.is_empty() {
        dist.hit("resp_with_errors");
        if std::env::var("AGV_DEBUG").is_ok() {
            eprintln!("{:?} {}", resp.errors.iter().map(|e| e.message.clone()).collect::<Vec<_>>(), text);
        }
    }
    let views = w.views.lock().unwrap();
    dist.add("invocations", views.len() as u64);
    node("out", views.clone())
}

fn main() {
    main_loop(&mut gen_case, &mut run);
}
