//! C16 — serde values convert to GraphQL values and back without loss.
//!
//! A fixed family of Rust types (tags `T01`…) covers the serde data model.  Every type is
//! declared through a macro that emits the `#[derive(Serialize, Deserialize)]` type *and* its
//! shape description, so the shape printed into a case line is the shape of the Rust type the case
//! is run on (`run` re-checks it).
//!
//! Case kinds
//!   (rt TAG SHAPE VALUE)   build VALUE as the Rust type TAG, `to_value`, then `from_value::<TAG>`
//!   (de TAG SHAPE GV)      `from_value::<TAG>` on an arbitrary ConstValue GV (perturbed image)
//! Output
//!   (rt (ok GV) (ok VALUE')) | (rt (ok GV) (err)) | (rt (err) (skip))
//!   (de (ok VALUE')) | (de (err))
//!
//! SHAPE  bool i8 … u128 f32 f64 char str bytes unit ustruct | (opt S) (newtype S) (seq S) (map S)
//!        (tup S…) (tstruct S…) (struct ("f" S)…)
//!        (enum (uv "A") (nv "B" S) (tv "C" S…) (sv "D" ("f" S)…) …)
//! VALUE  (b true) (i N) (f BITS) (c "x") (s "…") (y (N…)) (unit) (none) (some V) (nt V)
//!        (seq V…) (tup V…) (map ("k" V)…) (var "A" V)      floats are the bits of the f64 widening
//! GV     null (n N) (fl BITS) (s "…") (b true) (bin (N…)) (en "X") (l GV…) (o ("k" GV)…)

use std::collections::BTreeMap;

use agvh::*;
use async_graphql_value::{ConstValue, Name, Number, from_value, to_value};
use indexmap::IndexMap;
use serde::{Deserialize, Serialize, de::DeserializeOwned};

// ------------------------------------------------------------------ generator state

struct G<'a> {
    rng: &'a mut Rng,
    dist: &'a mut Dist,
    /// probability (in 1/64) of drawing from the classes that cannot round-trip
    hostile: usize,
}

// ------------------------------------------------------------------ shapes

trait Sh: Sized + Serialize + DeserializeOwned {
    fn shape() -> Sexp;
    fn generate(g: &mut G) -> Self;
    fn to_sx(&self) -> Sexp;
    fn from_sx(s: &Sexp) -> Option<Self>;
}

fn arg1<'a>(s: &'a Sexp, tag: &str) -> Option<&'a Sexp> {
    if s.tag()? != tag || s.args().len() != 1 {
        return None;
    }
    s.args().first()
}

impl Sh for bool {
    fn shape() -> Sexp {
        atom("bool")
    }
    fn generate(g: &mut G) -> Self {
        g.rng.chance(1, 2)
    }
    fn to_sx(&self) -> Sexp {
        node("b", vec![atom(if *self { "true" } else { "false" })])
    }
    fn from_sx(s: &Sexp) -> Option<Self> {
        match arg1(s, "b")?.as_atom()? {
            "true" => Some(true),
            "false" => Some(false),
            _ => None,
        }
    }
}

macro_rules! int_sh {
    ($($t:ident),*) => {$(
        impl Sh for $t {
            fn shape() -> Sexp { atom(stringify!($t)) }
            fn generate(g: &mut G) -> Self {
                g.dist.hit(concat!("int_", stringify!($t)));
                match g.rng.below(8) {
                    0 => <$t>::MIN,
                    1 => <$t>::MAX,
                    2 => 0,
                    3 => 1,
                    4 => <$t>::MAX / 2 + 1,
                    5 => (<$t>::MIN / 2).wrapping_sub(1),
                    6 => (g.rng.next_u64() % 300) as $t,
                    _ => {
                        let hi = g.rng.next_u64() as u128;
                        let lo = g.rng.next_u64() as u128;
                        ((hi << 64) | lo) as $t
                    }
                }
            }
            fn to_sx(&self) -> Sexp { node("i", vec![num(*self)]) }
            fn from_sx(s: &Sexp) -> Option<Self> { arg1(s, "i")?.as_atom()?.parse().ok() }
        }
    )*};
}
int_sh!(i8, i16, i32, i64, i128, u8, u16, u32, u64, u128);

const F64_POOL: [f64; 12] = [
    0.0,
    -0.0,
    1.5,
    -2.25,
    1e300,
    -1e-300,
    f64::MIN_POSITIVE,
    5e-324,
    f64::MAX,
    f64::MIN,
    1.0,
    0.1,
];
const F32_POOL: [f32; 10] = [0.0, -0.0, 1.5, -2.25, 1e30, f32::MIN_POSITIVE, 1e-45, f32::MAX, f32::MIN, 0.1];

impl Sh for f64 {
    fn shape() -> Sexp {
        atom("f64")
    }
    fn generate(g: &mut G) -> Self {
        g.dist.hit("float_f64");
        if g.rng.chance(g.hostile, 64) {
            g.dist.hit("hostile_nonfinite");
            return *g.rng.pick(&[f64::NAN, f64::INFINITY, f64::NEG_INFINITY]);
        }
        if g.rng.chance(1, 2) {
            *g.rng.pick(&F64_POOL)
        } else {
            let v = f64::from_bits(g.rng.next_u64());
            if v.is_finite() { v } else { 3.25 }
        }
    }
    fn to_sx(&self) -> Sexp {
        node("f", vec![num(self.to_bits())])
    }
    fn from_sx(s: &Sexp) -> Option<Self> {
        Some(f64::from_bits(arg1(s, "f")?.as_atom()?.parse().ok()?))
    }
}

impl Sh for f32 {
    fn shape() -> Sexp {
        atom("f32")
    }
    fn generate(g: &mut G) -> Self {
        g.dist.hit("float_f32");
        if g.rng.chance(g.hostile, 64) {
            g.dist.hit("hostile_nonfinite");
            return *g.rng.pick(&[f32::NAN, f32::INFINITY, f32::NEG_INFINITY]);
        }
        if g.rng.chance(1, 2) {
            *g.rng.pick(&F32_POOL)
        } else {
            let v = f32::from_bits(g.rng.next_u64() as u32);
            if v.is_finite() { v } else { 3.25 }
        }
    }
    fn to_sx(&self) -> Sexp {
        node("f", vec![num((*self as f64).to_bits())])
    }
    fn from_sx(s: &Sexp) -> Option<Self> {
        Some(f64::from_bits(arg1(s, "f")?.as_atom()?.parse().ok()?) as f32)
    }
}

impl Sh for char {
    fn shape() -> Sexp {
        atom("char")
    }
    fn generate(g: &mut G) -> Self {
        g.dist.hit("char");
        *g.rng.pick(&['a', 'Z', '0', ' ', '"', '\\', '\n', '\u{e9}', '\u{1F600}', '\u{0}'])
    }
    fn to_sx(&self) -> Sexp {
        node("c", vec![st(self.to_string())])
    }
    fn from_sx(s: &Sexp) -> Option<Self> {
        let t = arg1(s, "c")?.as_str()?;
        let mut it = t.chars();
        let c = it.next()?;
        if it.next().is_some() { None } else { Some(c) }
    }
}

const STR_POOL: [&str; 14] = [
    "",
    "a",
    "null",
    "A",
    "x y",
    "\u{e9}\u{1F600}",
    "\"q\"\\",
    "line\nbreak\r\t",
    "0",
    "true",
    "__typename",
    "\u{0}",
    "a-b.c",
    "V",
];

impl Sh for String {
    fn shape() -> Sexp {
        atom("str")
    }
    fn generate(g: &mut G) -> Self {
        g.dist.hit("string");
        if g.rng.chance(3, 4) {
            g.rng.pick(&STR_POOL).to_string()
        } else {
            let n = g.rng.below(6);
            (0..n).map(|_| *g.rng.pick(&['a', 'b', '\u{e9}', ' ', '1', '\u{4e2d}', '{', '$'])).collect()
        }
    }
    fn to_sx(&self) -> Sexp {
        node("s", vec![st(self.clone())])
    }
    fn from_sx(s: &Sexp) -> Option<Self> {
        Some(arg1(s, "s")?.as_str()?.to_string())
    }
}

/// a byte string that goes through `serialize_bytes` / `deserialize_byte_buf`
/// (`Vec<u8>` itself is a sequence of `u8` in the serde data model)
#[derive(Debug, PartialEq)]
struct Bytes(Vec<u8>);

impl Serialize for Bytes {
    fn serialize<S: serde::Serializer>(&self, s: S) -> Result<S::Ok, S::Error> {
        s.serialize_bytes(&self.0)
    }
}
impl<'de> Deserialize<'de> for Bytes {
    fn deserialize<D: serde::Deserializer<'de>>(d: D) -> Result<Self, D::Error> {
        struct V;
        impl<'de> serde::de::Visitor<'de> for V {
            type Value = Bytes;
            fn expecting(&self, f: &mut std::fmt::Formatter) -> std::fmt::Result {
                f.write_str("bytes")
            }
            fn visit_bytes<E: serde::de::Error>(self, v: &[u8]) -> Result<Bytes, E> {
                Ok(Bytes(v.to_vec()))
            }
            fn visit_byte_buf<E: serde::de::Error>(self, v: Vec<u8>) -> Result<Bytes, E> {
                Ok(Bytes(v))
            }
        }
        d.deserialize_byte_buf(V)
    }
}
impl Sh for Bytes {
    fn shape() -> Sexp {
        atom("bytes")
    }
    fn generate(g: &mut G) -> Self {
        g.dist.hit("bytes");
        let n = g.rng.below(5);
        Bytes((0..n).map(|_| *g.rng.pick(&[0u8, 1, 65, 127, 128, 200, 255])).collect())
    }
    fn to_sx(&self) -> Sexp {
        node("y", vec![list(self.0.iter().map(num).collect())])
    }
    fn from_sx(s: &Sexp) -> Option<Self> {
        let mut v = vec![];
        for x in arg1(s, "y")?.as_list()? {
            v.push(x.as_atom()?.parse().ok()?);
        }
        Some(Bytes(v))
    }
}

impl Sh for () {
    fn shape() -> Sexp {
        atom("unit")
    }
    fn generate(g: &mut G) -> Self {
        g.dist.hit("unit");
    }
    fn to_sx(&self) -> Sexp {
        node("unit", vec![])
    }
    fn from_sx(s: &Sexp) -> Option<Self> {
        if s.tag()? == "unit" && s.args().is_empty() { Some(()) } else { None }
    }
}

impl<T: Sh> Sh for Option<T> {
    fn shape() -> Sexp {
        node("opt", vec![T::shape()])
    }
    fn generate(g: &mut G) -> Self {
        if g.rng.chance(1, 4) {
            g.dist.hit("opt_none");
            None
        } else {
            g.dist.hit("opt_some");
            Some(T::generate(g))
        }
    }
    fn to_sx(&self) -> Sexp {
        match self {
            None => node("none", vec![]),
            Some(v) => node("some", vec![v.to_sx()]),
        }
    }
    fn from_sx(s: &Sexp) -> Option<Self> {
        match s.tag()? {
            "none" if s.args().is_empty() => Some(None),
            "some" => Some(Some(T::from_sx(arg1(s, "some")?)?)),
            _ => None,
        }
    }
}

impl<T: Sh> Sh for Vec<T> {
    fn shape() -> Sexp {
        node("seq", vec![T::shape()])
    }
    fn generate(g: &mut G) -> Self {
        let n = [0, 1, 1, 2, 3][g.rng.below(5)];
        g.dist.hit("seq");
        (0..n).map(|_| T::generate(g)).collect()
    }
    fn to_sx(&self) -> Sexp {
        node("seq", self.iter().map(|x| x.to_sx()).collect())
    }
    fn from_sx(s: &Sexp) -> Option<Self> {
        if s.tag()? != "seq" {
            return None;
        }
        s.args().iter().map(T::from_sx).collect()
    }
}

impl<T: Sh> Sh for BTreeMap<String, T> {
    fn shape() -> Sexp {
        node("map", vec![T::shape()])
    }
    fn generate(g: &mut G) -> Self {
        let n = [0, 1, 2, 2, 3][g.rng.below(5)];
        g.dist.hit("map");
        let mut m = BTreeMap::new();
        for _ in 0..n {
            let k = String::generate(g);
            let v = T::generate(g);
            m.insert(k, v);
        }
        m
    }
    fn to_sx(&self) -> Sexp {
        node("map", self.iter().map(|(k, v)| list(vec![st(k.clone()), v.to_sx()])).collect())
    }
    fn from_sx(s: &Sexp) -> Option<Self> {
        if s.tag()? != "map" {
            return None;
        }
        let mut m = BTreeMap::new();
        let mut last: Option<String> = None;
        for e in s.args() {
            let e = e.as_list()?;
            if e.len() != 2 {
                return None;
            }
            let k = e[0].as_str()?.to_string();
            // a case must already be canonical: keys strictly increasing
            if let Some(l) = &last {
                if *l >= k {
                    return None;
                }
            }
            last = Some(k.clone());
            m.insert(k, T::from_sx(&e[1])?);
        }
        Some(m)
    }
}

macro_rules! tuple_sh {
    ($(($($n:ident : $t:ident),+))*) => {$(
        impl<$($t: Sh),+> Sh for ($($t,)+) {
            fn shape() -> Sexp { node("tup", vec![$($t::shape()),+]) }
            fn generate(g: &mut G) -> Self { g.dist.hit("tuple"); ($($t::generate(g),)+) }
            fn to_sx(&self) -> Sexp { let ($($n,)+) = self; node("tup", vec![$($n.to_sx()),+]) }
            fn from_sx(s: &Sexp) -> Option<Self> {
                if s.tag()? != "tup" { return None; }
                let mut it = s.args().iter();
                let r = ($($t::from_sx(it.next()?)?,)+);
                if it.next().is_some() { return None; }
                Some(r)
            }
        }
    )*};
}
tuple_sh! { (a: A, b: B) (a: A, b: B, c: C) (a: A, b: B, c: C, d: D) }

macro_rules! ustruct {
    ($name:ident) => {
        #[derive(Serialize, Deserialize, Debug)]
        struct $name;
        impl Sh for $name {
            fn shape() -> Sexp {
                atom("ustruct")
            }
            fn generate(g: &mut G) -> Self {
                g.dist.hit("unit_struct");
                $name
            }
            fn to_sx(&self) -> Sexp {
                node("unit", vec![])
            }
            fn from_sx(s: &Sexp) -> Option<Self> {
                if s.tag()? == "unit" && s.args().is_empty() { Some($name) } else { None }
            }
        }
    };
}

macro_rules! nstruct {
    ($name:ident($t:ty)) => {
        #[derive(Serialize, Deserialize, Debug)]
        struct $name($t);
        impl Sh for $name {
            fn shape() -> Sexp {
                node("newtype", vec![<$t>::shape()])
            }
            fn generate(g: &mut G) -> Self {
                g.dist.hit("newtype_struct");
                $name(<$t>::generate(g))
            }
            fn to_sx(&self) -> Sexp {
                node("nt", vec![self.0.to_sx()])
            }
            fn from_sx(s: &Sexp) -> Option<Self> {
                Some($name(<$t>::from_sx(arg1(s, "nt")?)?))
            }
        }
    };
}

macro_rules! tstruct {
    ($name:ident($($b:ident : $t:ty),*)) => {
        #[derive(Serialize, Deserialize, Debug)]
        struct $name($($t),*);
        impl Sh for $name {
            fn shape() -> Sexp { node("tstruct", vec![$(<$t>::shape()),*]) }
            fn generate(g: &mut G) -> Self { g.dist.hit("tuple_struct"); $name($(<$t>::generate(g)),*) }
            fn to_sx(&self) -> Sexp { let $name($($b),*) = self; node("tup", vec![$($b.to_sx()),*]) }
            #[allow(unused_mut, unused_variables)]
            fn from_sx(s: &Sexp) -> Option<Self> {
                if s.tag()? != "tup" { return None; }
                let mut it = s.args().iter();
                let r = $name($(<$t>::from_sx(it.next()?)?),*);
                if it.next().is_some() { return None; }
                Some(r)
            }
        }
    };
}

macro_rules! sstruct {
    ($name:ident { $($f:ident : $t:ty),* }) => {
        #[derive(Serialize, Deserialize, Debug)]
        struct $name { $($f: $t),* }
        impl Sh for $name {
            fn shape() -> Sexp { node("struct", vec![$(list(vec![st(stringify!($f)), <$t>::shape()])),*]) }
            fn generate(g: &mut G) -> Self { g.dist.hit("struct"); $name { $($f: <$t>::generate(g)),* } }
            fn to_sx(&self) -> Sexp { node("tup", vec![$(self.$f.to_sx()),*]) }
            #[allow(unused_mut, unused_variables)]
            fn from_sx(s: &Sexp) -> Option<Self> {
                if s.tag()? != "tup" { return None; }
                let mut it = s.args().iter();
                let r = $name { $($f: <$t>::from_sx(it.next()?)?),* };
                if it.next().is_some() { return None; }
                Some(r)
            }
        }
    };
}

/// enum with its variants grouped by kind (the order inside the enum is units, newtypes, tuples, structs)
macro_rules! senum {
    ($name:ident { units: [$($u:ident),*], newtypes: [$($n:ident($nt:ty)),*],
                   tuples: [$($p:ident($($pb:ident : $pt:ty),*)),*],
                   structs: [$($s:ident { $($sf:ident : $sft:ty),* }),*] }) => {
        #[derive(Serialize, Deserialize, Debug)]
        enum $name {
            $($u,)*
            $($n($nt),)*
            $($p($($pt),*),)*
            $($s { $($sf: $sft),* },)*
        }
        impl Sh for $name {
            fn shape() -> Sexp {
                node("enum", vec![
                    $(node("uv", vec![st(stringify!($u))]),)*
                    $(node("nv", vec![st(stringify!($n)), <$nt>::shape()]),)*
                    $(node("tv", vec![st(stringify!($p)), $(<$pt>::shape()),*]),)*
                    $(node("sv", vec![st(stringify!($s)), $(list(vec![st(stringify!($sf)), <$sft>::shape()])),*]),)*
                ])
            }
            #[allow(unused_assignments)]
            fn generate(g: &mut G) -> Self {
                let total = 0usize $(+ { let _ = stringify!($u); 1 })* $(+ { let _ = stringify!($n); 1 })*
                    $(+ { let _ = stringify!($p); 1 })* $(+ { let _ = stringify!($s); 1 })*;
                let k = g.rng.below(total);
                let mut i = 0usize;
                $( if i == k { g.dist.hit("variant_unit"); return $name::$u; } i += 1; )*
                $( if i == k { g.dist.hit("variant_newtype"); return $name::$n(<$nt>::generate(g)); } i += 1; )*
                $( if i == k { g.dist.hit("variant_tuple"); return $name::$p($(<$pt>::generate(g)),*); } i += 1; )*
                $( if i == k { g.dist.hit("variant_struct"); return $name::$s { $($sf: <$sft>::generate(g)),* }; } i += 1; )*
                unreachable!()
            }
            fn to_sx(&self) -> Sexp {
                match self {
                    $($name::$u => node("var", vec![st(stringify!($u)), node("unit", vec![])]),)*
                    $($name::$n(x) => node("var", vec![st(stringify!($n)), x.to_sx()]),)*
                    $($name::$p($($pb),*) => node("var", vec![st(stringify!($p)), node("tup", vec![$($pb.to_sx()),*])]),)*
                    $($name::$s { $($sf),* } => node("var", vec![st(stringify!($s)), node("tup", vec![$($sf.to_sx()),*])]),)*
                }
            }
            #[allow(unused_mut, unused_variables)]
            fn from_sx(s: &Sexp) -> Option<Self> {
                if s.tag()? != "var" || s.args().len() != 2 { return None; }
                let name = s.args()[0].as_str()?;
                let p = &s.args()[1];
                $( if name == stringify!($u) {
                    return if p.tag()? == "unit" && p.args().is_empty() { Some($name::$u) } else { None };
                } )*
                $( if name == stringify!($n) { return Some($name::$n(<$nt>::from_sx(p)?)); } )*
                $( if name == stringify!($p) {
                    if p.tag()? != "tup" { return None; }
                    let mut it = p.args().iter();
                    let r = $name::$p($(<$pt>::from_sx(it.next()?)?),*);
                    if it.next().is_some() { return None; }
                    return Some(r);
                } )*
                $( if name == stringify!($s) {
                    if p.tag()? != "tup" { return None; }
                    let mut it = p.args().iter();
                    let r = $name::$s { $($sf: <$sft>::from_sx(it.next()?)?),* };
                    if it.next().is_some() { return None; }
                    return Some(r);
                } )*
                None
            }
        }
    };
}

// ------------------------------------------------------------------ the family

ustruct!(Marker);
nstruct!(Meters(f64));
nstruct!(MaybeId(Option<u32>));
nstruct!(Wrap(Marker));
tstruct!(Pair(a: i8, b: u64));
tstruct!(Triple(a: String, b: Option<bool>, c: Vec<i16>));
tstruct!(Empty());
sstruct!(Point { x: i32, y: i32 });
sstruct!(NoFields {});
sstruct!(Scalars {
    b: bool,
    i1: i8,
    i2: i16,
    i3: i32,
    i4: i64,
    u1: u8,
    u2: u16,
    u3: u32,
    u4: u64,
    f1: f32,
    f2: f64,
    s: String,
    y: Bytes
});
senum!(Color { units: [Red, Green, Blue], newtypes: [], tuples: [], structs: [] });
senum!(Shape {
    units: [Nothing],
    newtypes: [Circle(f64), Label(String), Maybe(Option<i32>), Tagged(Color)],
    tuples: [Rect(a: u32, b: u32), Mixed(a: Option<String>, b: Point, c: Vec<u8>)],
    structs: [Poly { pts: Vec<Point>, closed: bool }, Bare {}]
});
senum!(Odd { units: [V], newtypes: [U(())], tuples: [Z()], structs: [] });
sstruct!(Inner { id: u16, tags: Vec<String>, shape: Shape, extra: Option<Box2> });
nstruct!(Box2(BTreeMap<String, Option<i64>>));
sstruct!(Outer {
    name: String,
    inner: Inner,
    history: Vec<Option<Inner>>,
    lookup: BTreeMap<String, Vec<Shape>>,
    pair: (Pair, Option<Triple>),
    marker: Marker,
    unit: ()
});
sstruct!(Deep { l1: Option<Vec<BTreeMap<String, (i8, Option<Shape>)>>>, l2: Vec<Vec<Vec<Option<u8>>>> });
sstruct!(Nullish {
    oo: Option<Option<i32>>,
    ou: Option<()>,
    om: Option<Marker>,
    ow: Option<Wrap>,
    of: Option<f64>,
    ooo: Option<Option<Option<bool>>>,
    on: Option<MaybeId>
});
sstruct!(Wide { a: i128, b: u128 });
sstruct!(Chars { c: char, s: String });
sstruct!(Floats { a: f32, b: f64, c: Vec<f64>, d: Option<f32>, e: (f32, f64) });

type T01 = Scalars;
type T02 = Outer;
type T03 = Deep;
type T04 = Shape;
type T05 = Nullish;
type T06 = Option<Option<i32>>;
type T07 = Wide;
type T08 = Chars;
type T09 = Floats;
type T10 = Vec<Shape>;
type T11 = BTreeMap<String, Outer>;
type T12 = (i8, String, Option<Color>, Vec<Pair>);
type T13 = Odd;
type T14 = Triple;
type T15 = Inner;
type T16 = Option<Vec<Option<Marker>>>;
type T17 = (Empty, NoFields, Meters, MaybeId);
type T18 = BTreeMap<String, Option<()>>;
type T19 = Vec<(u64, i64, Bytes)>;
type T20 = Color;
type T21 = u128;
type T22 = char;
type T23 = Option<f64>;
type T24 = Vec<Option<Option<Color>>>;

macro_rules! family {
    ($($t:ident),*) => {
        const TAGS: &[&str] = &[$(stringify!($t)),*];
        fn shape_of(tag: &str) -> Sexp {
            match tag { $(stringify!($t) => <$t>::shape(),)* _ => panic!("unknown tag {tag}") }
        }
        fn gen_value(tag: &str, g: &mut G) -> Sexp {
            match tag { $(stringify!($t) => <$t>::generate(g).to_sx(),)* _ => panic!("unknown tag {tag}") }
        }
        fn run_rt(tag: &str, v: &Sexp) -> Sexp {
            match tag { $(stringify!($t) => rt::<$t>(v),)* _ => panic!("unknown tag {tag}") }
        }
        fn run_de(tag: &str, gv: ConstValue) -> Sexp {
            match tag { $(stringify!($t) => de::<$t>(gv),)* _ => panic!("unknown tag {tag}") }
        }
    };
}
family!(
    T01, T02, T03, T04, T05, T06, T07, T08, T09, T10, T11, T12, T13, T14, T15, T16, T17, T18, T19, T20, T21, T22, T23, T24
);

// ------------------------------------------------------------------ ConstValue <-> S-expression

fn gv_sx(v: &ConstValue) -> Sexp {
    match v {
        ConstValue::Null => atom("null"),
        ConstValue::Number(n) => {
            if let Some(u) = n.as_u64() {
                node("n", vec![num(u)])
            } else if let Some(i) = n.as_i64() {
                node("n", vec![num(i)])
            } else {
                node("fl", vec![num(n.as_f64().expect("number is u64, i64 or f64").to_bits())])
            }
        }
        ConstValue::String(s) => node("s", vec![st(s.clone())]),
        ConstValue::Boolean(b) => node("b", vec![atom(if *b { "true" } else { "false" })]),
        ConstValue::Binary(b) => node("bin", vec![list(b.iter().map(num).collect())]),
        ConstValue::Enum(n) => node("en", vec![st(n.as_str())]),
        ConstValue::List(xs) => node("l", xs.iter().map(gv_sx).collect()),
        ConstValue::Object(m) => node("o", m.iter().map(|(k, v)| list(vec![st(k.as_str()), gv_sx(v)])).collect()),
    }
}

fn gv_from_sx(s: &Sexp) -> Option<ConstValue> {
    if let Some("null") = s.as_atom() {
        return Some(ConstValue::Null);
    }
    let a = s.args();
    Some(match s.tag()? {
        "n" => {
            let t = a.first()?.as_atom()?;
            if let Ok(u) = t.parse::<u64>() {
                ConstValue::Number(u.into())
            } else {
                ConstValue::Number(t.parse::<i64>().ok()?.into())
            }
        }
        "fl" => ConstValue::Number(Number::from_f64(f64::from_bits(a.first()?.as_atom()?.parse().ok()?))?),
        "s" => ConstValue::String(a.first()?.as_str()?.to_string()),
        "b" => ConstValue::Boolean(a.first()?.as_atom()? == "true"),
        "bin" => {
            let mut v: Vec<u8> = vec![];
            for x in a.first()?.as_list()? {
                v.push(x.as_atom()?.parse().ok()?);
            }
            ConstValue::Binary(v.into())
        }
        "en" => ConstValue::Enum(Name::new(a.first()?.as_str()?)),
        "l" => ConstValue::List(a.iter().map(gv_from_sx).collect::<Option<Vec<_>>>()?),
        "o" => {
            let mut m = IndexMap::new();
            for e in a {
                let e = e.as_list()?;
                if e.len() != 2 || m.insert(Name::new(e[0].as_str()?), gv_from_sx(&e[1])?).is_some() {
                    return None;
                }
            }
            ConstValue::Object(m)
        }
        _ => return None,
    })
}

// ------------------------------------------------------------------ running the real code

fn rt<T: Sh>(v: &Sexp) -> Sexp {
    let x = T::from_sx(v).expect("value does not have the shape of its tag");
    match to_value(&x) {
        Err(_) => node("rt", vec![node("err", vec![]), node("skip", vec![])]),
        Ok(gv) => {
            let ser = node("ok", vec![gv_sx(&gv)]);
            let back = match from_value::<T>(gv) {
                Ok(y) => node("ok", vec![y.to_sx()]),
                Err(_) => node("err", vec![]),
            };
            node("rt", vec![ser, back])
        }
    }
}

fn de<T: Sh>(gv: ConstValue) -> Sexp {
    match from_value::<T>(gv) {
        Ok(y) => node("de", vec![node("ok", vec![y.to_sx()])]),
        Err(_) => node("de", vec![node("err", vec![])]),
    }
}

// ------------------------------------------------------------------ perturbation of serialised values (de cases)

/// integers with at most 24 significant bits (exact in f32 and f64) around the width boundaries
const INT_POOL: [i64; 16] = [
    0,
    1,
    -1,
    127,
    128,
    -128,
    -129,
    255,
    256,
    65535,
    65536,
    -32769,
    1 << 31,
    -(1 << 31),
    1 << 32,
    1 << 40,
];
/// floats that are exact in f32
const FL_POOL: [f64; 6] = [0.0, -0.0, 1.5, -2.25, 1024.0, 0.0009765625];
const KEY_POOL: [&str; 10] = ["x", "y", "Red", "Circle", "Rect", "Poly", "pts", "id", "extra", "zz"];

fn fresh(g: &mut G, depth: usize) -> ConstValue {
    match g.rng.below(if depth == 0 { 7 } else { 10 }) {
        0 => ConstValue::Null,
        1 => ConstValue::Number((*g.rng.pick(&INT_POOL)).into()),
        2 => ConstValue::Number(Number::from_f64(*g.rng.pick(&FL_POOL)).unwrap()),
        3 => ConstValue::String(g.rng.pick(&["", "a", "Red", "Nothing", "V", "Circle", "Bare"]).to_string()),
        4 => ConstValue::Boolean(g.rng.chance(1, 2)),
        5 => ConstValue::Binary(vec![*g.rng.pick(&[0u8, 65, 97, 127])].into()),
        6 => ConstValue::Enum(Name::new(*g.rng.pick(&["Red", "Green", "Nothing", "Z", "U", "nope"]))),
        7 | 8 => {
            let n = g.rng.below(3);
            ConstValue::List((0..n).map(|_| fresh(g, depth - 1)).collect())
        }
        _ => {
            let n = g.rng.below(3);
            let mut m = IndexMap::new();
            for _ in 0..n {
                m.insert(Name::new(*g.rng.pick(&KEY_POOL)), fresh(g, depth - 1));
            }
            ConstValue::Object(m)
        }
    }
}

fn count_nodes(v: &ConstValue) -> usize {
    1 + match v {
        ConstValue::List(xs) => xs.iter().map(count_nodes).sum(),
        ConstValue::Object(m) => m.values().map(count_nodes).sum(),
        _ => 0,
    }
}


/// does edit `kind` apply to this node
fn applicable(kind: usize, v: &ConstValue) -> bool {
    match (kind, v) {
        (0, _) => true,
        (1, ConstValue::String(_)) | (8, ConstValue::String(_)) => true,
        (2, ConstValue::List(_)) => true,
        (3, ConstValue::Object(_)) | (7, ConstValue::Object(_)) => true,
        (4, ConstValue::Object(m)) => m.len() > 1,
        (5, ConstValue::Object(m)) => m.len() == 1,
        (6, ConstValue::Number(_)) => true,
        (9, ConstValue::Object(m)) => m.values().any(|x| *x == ConstValue::Null),
        _ => false,
    }
}

/// pre-order indices of the nodes an edit applies to
fn candidates(kind: usize, v: &ConstValue, next: &mut usize, out: &mut Vec<usize>) {
    if applicable(kind, v) {
        out.push(*next);
    }
    *next += 1;
    match v {
        ConstValue::List(xs) => xs.iter().for_each(|x| candidates(kind, x, next, out)),
        ConstValue::Object(m) => m.values().for_each(|x| candidates(kind, x, next, out)),
        _ => {}
    }
}

/// apply one edit at the `k`-th node (pre-order)
fn perturb(v: &mut ConstValue, k: &mut usize, want: usize, first: bool, g: &mut G) -> bool {
    if *k == 0 {
        // draw an edit that applies to this node (a few attempts), else replace the subtree
        for attempt in 0..4 {
            let kind = if attempt == 0 { want } else { g.rng.below(10) };
            // positional reading of a struct is only tried on an untouched image: after another edit
            // the positions may have shifted, and a value could land in a slot of another numeric
            // type (f64 into f32, wide integer into a float), whose conversion is not modelled
            if kind == 7 && !first {
                continue;
            }
            match (kind, &mut *v) {
                (0, _) if attempt == 0 => {
                    g.dist.hit("edit_null");
                    *v = ConstValue::Null;
                    return true;
                }
                (1, ConstValue::String(s)) => {
                    g.dist.hit("edit_str_to_enum");
                    *v = ConstValue::Enum(Name::new(s.as_str()));
                    return true;
                }
                (2, ConstValue::List(xs)) => {
                    g.dist.hit("edit_list_len");
                    if xs.is_empty() || g.rng.chance(1, 2) {
                        let x = fresh(g, 1);
                        xs.push(x)
                    } else {
                        xs.pop();
                    }
                    return true;
                }
                (3, ConstValue::Object(m)) => {
                    g.dist.hit("edit_obj_keys");
                    if m.is_empty() || g.rng.chance(1, 2) {
                        let x = fresh(g, 1);
                        m.insert(Name::new(*g.rng.pick(&KEY_POOL)), x);
                    } else {
                        let i = g.rng.below(m.len());
                        m.shift_remove_index(i);
                    }
                    return true;
                }
                (4, ConstValue::Object(m)) if m.len() > 1 => {
                    g.dist.hit("edit_obj_order");
                    let mut es: Vec<_> = std::mem::take(m).into_iter().collect();
                    g.rng.shuffle(&mut es);
                    *m = es.into_iter().collect();
                    return true;
                }
                (5, ConstValue::Object(m)) if m.len() == 1 => {
                    g.dist.hit("edit_variant_to_string");
                    let k = m.keys().next().unwrap().to_string();
                    *v = ConstValue::String(k);
                    return true;
                }
                (6, ConstValue::Number(_)) => {
                    g.dist.hit("edit_number");
                    *v = ConstValue::Number((*g.rng.pick(&INT_POOL)).into());
                    return true;
                }
                (7, ConstValue::Object(m)) => {
                    // a struct is also accepted as the sequence of its fields
                    g.dist.hit("edit_obj_to_list");
                    let xs: Vec<ConstValue> = std::mem::take(m).into_values().collect();
                    *v = ConstValue::List(xs);
                    return true;
                }
                (8, ConstValue::String(s)) => {
                    // a unit variant is also accepted as {"Name": null}
                    g.dist.hit("edit_string_to_variant");
                    let mut m = IndexMap::new();
                    m.insert(Name::new(s.as_str()), ConstValue::Null);
                    *v = ConstValue::Object(m);
                    return true;
                }
                (9, ConstValue::Object(m)) if !m.is_empty() => {
                    // drop the entries that are null (a missing Option field reads as None)
                    g.dist.hit("edit_drop_null_entries");
                    m.retain(|_, x| *x != ConstValue::Null);
                    return true;
                }
                _ => {}
            }
        }
        g.dist.hit("edit_fresh");
        *v = fresh(g, 2);
        return true;
    }
    *k -= 1;
    match v {
        ConstValue::List(xs) => {
            for x in xs {
                if perturb(x, k, want, first, g) {
                    return true;
                }
            }
        }
        ConstValue::Object(m) => {
            for (_, x) in m.iter_mut() {
                if perturb(x, k, want, first, g) {
                    return true;
                }
            }
        }
        _ => {}
    }
    false
}

// ------------------------------------------------------------------ cases

fn gen_case(rng: &mut Rng, _i: usize, o: &Opts, dist: &mut Dist) -> Sexp {
    let tag = *rng.pick(TAGS);
    let hostile = if rng.chance(1, 4) { 6 } else { 0 };
    let want_de = rng.chance(1, 4);
    let _ = o;
    let mut g = G { rng, dist, hostile };
    let shape = shape_of(tag);
    // the nullish family and the rejected scalars are hostile by their type
    let v = gen_value(tag, &mut g);
    if want_de {
        // perturbed image of a value of this type
        let ser = run_rt(tag, &v);
        if let Some(gv) = ser.args().first().and_then(|s| s.args().first()).and_then(gv_from_sx) {
            let mut gv = gv;
            let edits = 1 + g.rng.below(2);
            for e in 0..edits {
                // draw the edit first, then a node it applies to (a random node otherwise)
                let want = g.rng.below(11);
                let mut cands = vec![];
                candidates(want, &gv, &mut 0, &mut cands);
                let mut k = if cands.is_empty() { g.rng.below(count_nodes(&gv)) } else { *g.rng.pick(&cands) };
                perturb(&mut gv, &mut k, want, e == 0, &mut g);
            }
            g.dist.hit("kind_de");
            return node("de", vec![atom(tag), shape, gv_sx(&gv)]);
        }
    }
    g.dist.hit("kind_rt");
    g.dist.hit(&format!("tag_{tag}"));
    node("rt", vec![atom(tag), shape, v])
}

fn run(case: &Sexp, dist: &mut Dist) -> Sexp {
    let a = case.args();
    let tag = a[0].as_atom().expect("tag");
    if a[1] != shape_of(tag) {
        return node("bad-shape", vec![]);
    }
    match case.tag().unwrap() {
        "rt" => {
            let out = run_rt(tag, &a[2]);
            let back = &out.args()[1];
            if back.tag() == Some("ok") && back.args()[0] == a[2] {
                dist.hit("rt_round_trips");
            } else if out.args()[0].tag() == Some("err") {
                dist.hit("rt_to_value_error");
            } else if back.tag() == Some("err") {
                dist.hit("rt_from_value_error");
            } else {
                dist.hit("rt_silent_change");
            }
            out
        }
        "de" => {
            let gv = gv_from_sx(&a[2]).expect("GV");
            let out = run_de(tag, gv);
            dist.hit(if out.args()[0].tag() == Some("ok") { "de_accepted" } else { "de_rejected" });
            out
        }
        t => panic!("unknown case kind {t}"),
    }
}

fn main() {
    main_loop(&mut gen_case, &mut run);
}
