//! C34 — the GraphiQL page embeds its configuration verbatim and safely.
//!
//! Case
//!   (cfg (endpoint "E") (sub none|"S") (title none|"T") (headers ("k" "v")…) (ws ("k" "v")…))
//!       GraphiQLSource::build().endpoint(E)[.subscription_endpoint(S)][.title(T)]
//!           .header(k, v)… .ws_connection_param(k, v)… .finish()
//! Output: the text found at every configured position of the rendered page (the body of the
//! single-quoted JavaScript string literal, the content of <title>), map entries sorted by the
//! rendered key, and two counters over the whole page:
//!   (page (title "T'") (endpoint "E'") (sub none|"S'") (headers ("K'" "V'")…) (ws ("K'" "V'")…)
//!         (members (NAME COMMA)…) (closers N) (comments N))
//!       members = the properties of the object literal given to createGraphiQLFetcher in page
//!       order, COMMA = true when a comma follows the property
//!       closers = occurrences of `</script` (ASCII case-insensitive; the template itself has 2),
//!       comments = occurrences of `<!--` (the template has none)
//!   (unparsed "what")   the page does not have the expected shape around a position

use agvh::*;
use async_graphql::http::GraphiQLSource;

struct Scan<'a> {
    page: &'a str,
    at: usize,
}

impl<'a> Scan<'a> {
    /// moves behind the next occurrence of `pat`
    fn find(&mut self, pat: &str) -> Result<(), String> {
        match self.page[self.at..].find(pat) {
            Some(i) => {
                self.at += i + pat.len();
                Ok(())
            }
            None => Err(format!("missing {pat}")),
        }
    }
    fn peek_is(&self, pat: &str) -> bool {
        self.page[self.at..].starts_with(pat)
    }
    fn expect(&mut self, pat: &str) -> Result<(), String> {
        if self.peek_is(pat) {
            self.at += pat.len();
            Ok(())
        } else {
            Err(format!("expected {pat}"))
        }
    }
    /// text up to (not including) the next `stop`, which is consumed
    fn until(&mut self, stop: char) -> Result<&'a str, String> {
        match self.page[self.at..].find(stop) {
            Some(i) => {
                let s = &self.page[self.at..self.at + i];
                self.at += i + stop.len_utf8();
                Ok(s)
            }
            None => Err(format!("unterminated before {stop:?}")),
        }
    }
    fn skip_ws(&mut self) {
        while let Some(c) = self.page[self.at..].chars().next() {
            if c == ' ' || c == '\n' {
                self.at += 1;
            } else {
                break;
            }
        }
    }
    /// `{ 'K': 'V', … }` after the opening brace
    fn entries(&mut self) -> Result<Vec<(String, String)>, String> {
        let mut out = vec![];
        loop {
            self.skip_ws();
            if self.peek_is("}") {
                self.at += 1;
                return Ok(out);
            }
            self.expect("'")?;
            let k = self.until('\'')?;
            self.expect(": '")?;
            let v = self.until('\'')?;
            self.expect(",")?;
            out.push((k.to_string(), v.to_string()));
        }
    }
}

fn extract(page: &str) -> Result<Sexp, String> {
    let mut s = Scan { page, at: 0 };
    // members of the object literal passed to createGraphiQLFetcher, each with the flag
    // "followed by a comma"
    let mut members: Vec<Sexp> = vec![];
    fn comma(s: &mut Scan<'_>) -> Sexp {
        s.skip_ws();
        if s.peek_is(",") {
            s.at += 1;
            atom("true")
        } else {
            atom("false")
        }
    }
    s.find("<title>")?;
    let title = s.until('<')?;
    s.expect("/title>")?;
    s.find("url: createUrl('")?;
    let endpoint = s.until('\'')?;
    s.expect(")")?;
    let c = comma(&mut s);
    members.push(list(vec![atom("url"), c]));
    s.skip_ws();
    s.expect("fetch: customFetch")?;
    let c = comma(&mut s);
    members.push(list(vec![atom("fetch"), c]));
    s.skip_ws();
    let sub = if s.peek_is("subscriptionUrl: createUrl('") {
        s.expect("subscriptionUrl: createUrl('")?;
        let b = s.until('\'')?;
        s.expect(")")?;
        let c = comma(&mut s);
        members.push(list(vec![atom("subscriptionUrl"), c]));
        Some(b)
    } else {
        None
    };
    s.skip_ws();
    let headers = if s.peek_is("headers: {") {
        s.expect("headers: {")?;
        let e = s.entries()?;
        let c = comma(&mut s);
        members.push(list(vec![atom("headers"), c]));
        e
    } else {
        vec![]
    };
    s.skip_ws();
    let ws = if s.peek_is("wsConnectionParams: {") {
        s.expect("wsConnectionParams: {")?;
        let e = s.entries()?;
        let c = comma(&mut s);
        members.push(list(vec![atom("wsConnectionParams"), c]));
        e
    } else {
        vec![]
    };
    s.skip_ws();
    s.expect("});")?;
    let lower = page.to_ascii_lowercase();
    let closers = lower.matches("</script").count();
    let comments = page.matches("<!--").count();
    let ents = |mut v: Vec<(String, String)>| -> Vec<Sexp> {
        v.sort();
        v.into_iter().map(|(k, v)| list(vec![st(k), st(v)])).collect()
    };
    Ok(node(
        "page",
        vec![
            node("title", vec![st(title)]),
            node("endpoint", vec![st(endpoint)]),
            node("sub", vec![sub.map(st).unwrap_or(atom("none"))]),
            node("headers", ents(headers)),
            node("ws", ents(ws)),
            node("members", members),
            node("closers", vec![num(closers)]),
            node("comments", vec![num(comments)]),
        ],
    ))
}

fn opt_str(s: &Sexp) -> Option<Option<&str>> {
    match s {
        Sexp::Atom(a) if a == "none" => Some(None),
        Sexp::Str(x) => Some(Some(x)),
        _ => None,
    }
}

fn pairs(s: &Sexp) -> Option<Vec<(&str, &str)>> {
    s.args()
        .iter()
        .map(|p| {
            let l = p.as_list()?;
            Some((l.first()?.as_str()?, l.get(1)?.as_str()?))
        })
        .collect()
}

fn run(case: &Sexp, _dist: &mut Dist) -> Sexp {
    let a = case.args();
    if case.tag() != Some("cfg") || a.len() != 5 {
        return atom("bad-case");
    }
    let (Some(endpoint), Some(sub), Some(title), Some(headers), Some(ws)) = (
        a[0].args().first().and_then(|x| x.as_str()),
        a[1].args().first().and_then(opt_str),
        a[2].args().first().and_then(opt_str),
        pairs(&a[3]),
        pairs(&a[4]),
    ) else {
        return atom("bad-case");
    };
    let mut b = GraphiQLSource::build().endpoint(endpoint);
    if let Some(s) = sub {
        b = b.subscription_endpoint(s);
    }
    if let Some(t) = title {
        b = b.title(t);
    }
    for (k, v) in &headers {
        b = b.header(k, v);
    }
    for (k, v) in &ws {
        b = b.ws_connection_param(k, v);
    }
    let page = b.finish();
    match extract(&page) {
        Ok(s) => s,
        Err(e) => node("unparsed", vec![st(e)]),
    }
}

// ------------------------------------------------------------------ generator

const PIECES: [&str; 44] = [
    "'", "\"", "&", "<", ">", "\\", "\n", "\r", "\r\n", "\u{2028}", "\u{2029}", "\u{0}", "\t", "\u{7f}", "\u{1b}", "\u{85}",
    "</script>", "</SCRIPT", "</ScRiPt >", "<!--", "-->", "<script>", "é", "日本", "\u{1F600}", "\u{FEFF}", "&#39;", "&amp;",
    "&lt;", "\\n", "\\u0041", "\\x41", "\\'", "\\\\", "\\u{1F600}", "${x}", "`", "/", "/graphql", "http://h:8000/q?a=1&b=2",
    "Bearer ", "[token]", " ", "x",
];

fn gen_string(rng: &mut Rng, dist: &mut Dist) -> String {
    match rng.below(10) {
        0 => {
            dist.hit("str_plain");
            rng.pick(&["/", "/graphql", "/ws", "Authorization", "token", "Bearer [token]", "My IDE", ""]).to_string()
        }
        1 => {
            dist.hit("str_single_piece");
            rng.pick(&PIECES).to_string()
        }
        2 => {
            dist.hit("str_trailing_backslash");
            let mut s = gen_pieces(rng, 2);
            s.push_str(if rng.chance(1, 2) { "\\" } else { "\\\\\\" });
            s
        }
        _ => {
            dist.hit("str_mixed");
            {
                let n = 1 + rng.below(6);
                gen_pieces(rng, n)
            }
        }
    }
}

fn gen_pieces(rng: &mut Rng, n: usize) -> String {
    let mut s = String::new();
    for _ in 0..n {
        if rng.chance(1, 6) {
            // any scalar value
            let c = loop {
                let hi = [0x80u32, 0x800, 0x3000, 0x10000, 0x110000][rng.below(5)];
                if let Some(c) = char::from_u32(rng.below(hi as usize) as u32) {
                    break c;
                }
            };
            s.push(c);
        } else {
            let p: &str = *rng.pick(&PIECES);
            s.push_str(p);
        }
    }
    s
}

const BENIGN: [&str; 14] = [
    "/", "/graphql", "/ws", "https://api.example.org:8443/v1/graphql?x=1;y=2", "Authorization", "Bearer [token]", "token",
    "X-Trace-Id", "My IDE (staging)", "caf\u{e9} \u{65e5}\u{672c} \u{1F600}", "a=b, c=d; e", "ws://h/sub#frag", "{id}", "",
];

fn gen_case(rng: &mut Rng, _i: usize, _o: &Opts, dist: &mut Dist) -> Sexp {
    // a third of the configurations contain nothing that needs escaping in either context
    let benign = rng.chance(1, 3);
    if benign {
        dist.hit("cfg_benign");
    } else {
        dist.hit("cfg_hostile");
    }
    let gen_string = |rng: &mut Rng, dist: &mut Dist| -> String {
        if benign { rng.pick(&BENIGN).to_string() } else { gen_string(rng, dist) }
    };
    let opt = |rng: &mut Rng, dist: &mut Dist, what: &str| -> Sexp {
        if rng.chance(1, 2) {
            dist.hit(&format!("{what}_set"));
            st(gen_string(rng, dist))
        } else {
            atom("none")
        }
    };
    let map = |rng: &mut Rng, dist: &mut Dist, what: &str| -> Vec<Sexp> {
        let n = [0, 0, 1, 1, 2, 3][rng.below(6)];
        dist.hit(&format!("{what}_{n}"));
        let mut keys: Vec<String> = vec![];
        let mut out = vec![];
        for _ in 0..n {
            let k = gen_string(rng, dist);
            if keys.contains(&k) {
                continue;
            }
            keys.push(k.clone());
            out.push(list(vec![st(k), st(gen_string(rng, dist))]));
        }
        out
    };
    let endpoint = gen_string(rng, dist);
    let sub = opt(rng, dist, "sub");
    let title = opt(rng, dist, "title");
    let headers = map(rng, dist, "headers");
    let ws = map(rng, dist, "ws");
    node(
        "cfg",
        vec![
            node("endpoint", vec![st(endpoint)]),
            node("sub", vec![sub]),
            node("title", vec![title]),
            node("headers", headers),
            node("ws", ws),
        ],
    )
}

fn main() {
    main_loop(&mut gen_case, &mut run);
}
