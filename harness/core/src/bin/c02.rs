//! C02 — query results follow spec field collection and completion (DYNAMIC schemas), plus the
//! dynamic half of C03 (stream `faults`).
//!
//! Case:   (case SCHEMA DOC OPNAME VARS WORLD TEXT)
//!   SCHEMA  abstract description of a type system; `run` assembles a REAL
//!           `async_graphql::dynamic::Schema` from it (objects, interfaces incl. inheritance, unions,
//!           enums, custom scalars with validators: `values = [carrier, predicate]`), every field
//!           with a data-driven resolver.  Either the description of the static family read back
//!           from its registry (SDL export) or a random small type system generated here.
//!   DOC     the document as a tree (printed to TEXT, which is what is executed)
//!   VARS    supplied variables;   WORLD  (object id, field name) -> RVal driving every resolver
//! Output: (resp DATA (errs …) (log …)).
//!
//! How an RVal is handed to the library: null -> Ok(None); (leaf v) -> FieldValue::value(v);
//! (o T id) -> FieldValue::owned_any(id) [.with_type(T) when the declared type is abstract];
//! (l …) -> FieldValue::list (a null item is FieldValue::NULL: an item cannot be absent);
//! (fail m) -> Err(m); (arg x) -> the received argument x.
//! Object ids: root = 0, the k-th non-root object type owns 10k+1..10k+3; a parent that is not an
//! object identity is seen as NOID = 1000000 (no world entries).
//!
//! Streams: main (fault-free valid worlds) and leafcheck (values invalid for their declared type)
//! are judged on DATA; faults (failing resolvers, no C02 deviation by construction) is C03's.

use std::sync::Arc;

#[path = "../family.rs"]
mod family;

use agvh::*;
use async_graphql::dynamic::{self as dy, DynamicRequestExt, FieldFuture, FieldValue, ResolverContext};
use family::*;

const NOID: u32 = 1_000_000;

// ------------------------------------------------------------------ description <- S-expression

fn strs(s: &Sexp) -> Vec<String> {
    s.as_list().unwrap().iter().map(|x| x.as_str().unwrap().to_string()).collect()
}

fn schema_from_sexp(s: &Sexp) -> SchemaD {
    let a = s.args();
    let opt = |x: &Sexp| x.as_str().map(|v| v.to_string());
    let types = a[3]
        .as_list()
        .unwrap()
        .iter()
        .map(|t| {
            let t = t.args();
            TypeD {
                name: t[0].as_str().unwrap().to_string(),
                kind: t[1].as_atom().unwrap().to_string(),
                fields: t[2]
                    .as_list()
                    .unwrap()
                    .iter()
                    .map(|f| {
                        let f = f.args();
                        FieldD {
                            name: f[0].as_str().unwrap().to_string(),
                            ty: TRef::from_sexp(&f[1]).unwrap(),
                            args: f[2]
                                .as_list()
                                .unwrap()
                                .iter()
                                .map(|x| {
                                    let x = x.args();
                                    ArgD {
                                        name: x[0].as_str().unwrap().to_string(),
                                        ty: TRef::from_sexp(&x[1]).unwrap(),
                                        default: if x[2].tag() == Some("some") { GV::from_sexp(&x[2].args()[0]) } else { None },
                                    }
                                })
                                .collect(),
                        }
                    })
                    .collect(),
                implements: strs(&t[3]),
                members: strs(&t[4]),
                values: strs(&t[5]),
            }
        })
        .collect();
    SchemaD { query: a[0].as_str().unwrap().to_string(), mutation: opt(&a[1]), subscription: opt(&a[2]), types }
}

// ------------------------------------------------------------------ description -> real dynamic schema

fn dref(t: &TRef) -> dy::TypeRef {
    match t {
        TRef::Named(n) => dy::TypeRef::Named(n.clone().into()),
        TRef::List(i) => dy::TypeRef::List(Box::new(dref(i))),
        TRef::NonNull(i) => dy::TypeRef::NonNull(Box::new(dref(i))),
    }
}

fn conv_item(rv: &RVal, abs: bool) -> async_graphql::Result<FieldValue<'static>> {
    Ok(match conv(rv, abs)? {
        Some(v) => v,
        None => FieldValue::NULL,
    })
}

fn conv(rv: &RVal, abs: bool) -> async_graphql::Result<Option<FieldValue<'static>>> {
    Ok(match rv {
        RVal::Null => None,
        RVal::Leaf(g) => Some(FieldValue::value(g.to_avalue())),
        RVal::Obj(ty, id) => {
            let fv = FieldValue::owned_any(*id);
            Some(if abs { fv.with_type(ty.clone()) } else { fv })
        }
        RVal::List(xs) => Some(FieldValue::list(xs.iter().map(|x| conv_item(x, abs)).collect::<async_graphql::Result<Vec<_>>>()?)),
        RVal::Fail(m) => return Err(m.clone().into()),
        RVal::Arg(_) => return Err("nested arg".into()),
    })
}

fn make_field(sd: &SchemaD, f: &FieldD) -> dy::Field {
    let fname = f.name.clone();
    let abs = sd.find(f.ty.base()).is_some_and(|t| t.kind == "interface" || t.kind == "union");
    let mut fld = dy::Field::new(f.name.clone(), dref(&f.ty), move |ctx: ResolverContext<'_>| {
        let fname = fname.clone();
        FieldFuture::new(async move {
            let w = ctx.ctx.data_unchecked::<Arc<World>>().clone();
            let id = ctx.parent_value.downcast_ref::<u32>().copied().unwrap_or(NOID);
            match w.get(ctx.ctx, id, &fname) {
                RVal::Arg(a) => Ok(ctx.args.get(&a).map(|v| FieldValue::value(v.as_value().clone()))),
                rv => conv(&rv, abs),
            }
        })
    });
    for a in &f.args {
        let mut iv = dy::InputValue::new(a.name.clone(), dref(&a.ty));
        if let Some(d) = &a.default {
            iv = iv.default_value(d.to_avalue());
        }
        fld = fld.argument(iv);
    }
    fld
}

fn build_dynamic(sd: &SchemaD) -> Result<dy::Schema, String> {
    let mut b = dy::Schema::build(&sd.query, sd.mutation.as_deref(), None);
    for t in &sd.types {
        match t.kind.as_str() {
            "object" => {
                let mut o = dy::Object::new(t.name.clone());
                for f in &t.fields {
                    o = o.field(make_field(sd, f));
                }
                for i in &t.implements {
                    o = o.implement(i.clone());
                }
                b = b.register(o);
            }
            "interface" => {
                let mut o = dy::Interface::new(t.name.clone());
                for f in &t.fields {
                    let mut ifd = dy::InterfaceField::new(f.name.clone(), dref(&f.ty));
                    for a in &f.args {
                        ifd = ifd.argument(dy::InputValue::new(a.name.clone(), dref(&a.ty)));
                    }
                    o = o.field(ifd);
                }
                for i in &t.implements {
                    o = o.implement(i.clone());
                }
                b = b.register(o);
            }
            "union" => {
                let mut u = dy::Union::new(t.name.clone());
                for m in &t.members {
                    u = u.possible_type(m.clone());
                }
                b = b.register(u);
            }
            "enum" => {
                let mut e = dy::Enum::new(t.name.clone());
                for v in &t.values {
                    e = e.item(v.clone());
                }
                b = b.register(e);
            }
            "scalar" => {
                if ["Int", "Float", "String", "Boolean", "ID"].contains(&t.name.as_str()) {
                    continue; // created by the library
                }
                let pred = t.values.get(1).cloned().unwrap_or_default();
                let s = dy::Scalar::new(t.name.clone()).validator(move |v| match (pred.as_str(), v) {
                    ("even", async_graphql::Value::Number(n)) => n.as_i64().is_some_and(|i| i % 2 == 0),
                    ("nonempty", async_graphql::Value::String(s)) => !s.is_empty(),
                    _ => false,
                });
                b = b.register(s);
            }
            _ => {}
        }
    }
    b.finish().map_err(|e| e.to_string())
}

// ------------------------------------------------------------------ random type systems

fn td(name: &str, kind: &str) -> TypeD {
    TypeD { name: name.into(), kind: kind.into(), fields: vec![], implements: vec![], members: vec![], values: vec![] }
}

fn wrap(rng: &mut Rng, base: &str, nested: bool) -> TRef {
    let n = || TRef::Named(base.to_string());
    let nn = |t: TRef| TRef::NonNull(Box::new(t));
    let l = |t: TRef| TRef::List(Box::new(t));
    match rng.below(12) {
        0..=3 => n(),
        4 | 5 => nn(n()),
        6 | 7 => l(n()),
        8 => l(nn(n())),
        9 => nn(l(n())),
        10 => nn(l(nn(n()))),
        _ if nested => l(l(n())),
        _ => l(n()),
    }
}

/// `nested_comp`: allow `[[T]]` for composite `T` (kept out of the faults stream: the shallow merge of
/// nested lists under a repeated response key is a C02 finding)
fn gen_schema(rng: &mut Rng, dist: &mut Dist, nested_comp: bool) -> SchemaD {
    let n_obj = 2 + rng.below(3);
    let n_if = rng.below(4);
    let n_un = rng.below(3);
    let n_en = 1 + rng.below(2);
    let mut leafs: Vec<String> = ["Int", "Float", "String", "Boolean", "ID"].iter().map(|s| s.to_string()).collect();
    let mut types = vec![];
    for k in 0..n_en {
        let mut e = td(&format!("E{k}"), "enum");
        e.values = (0..2 + rng.below(2)).map(|j| format!("E{k}V{j}")).collect();
        leafs.push(e.name.clone());
        types.push(e);
    }
    let mut even = td("Even", "scalar");
    even.values = vec!["Int".into(), "even".into()];
    leafs.push("Even".into());
    types.push(even);
    if rng.chance(1, 2) {
        let mut tok = td("Tok", "scalar");
        tok.values = vec!["String".into(), "nonempty".into()];
        leafs.push("Tok".into());
        types.push(tok);
    }
    let objs: Vec<String> = (0..n_obj).map(|k| format!("O{k}")).collect();
    let ifs: Vec<String> = (0..n_if).map(|k| format!("I{k}")).collect();
    let uns: Vec<String> = (0..n_un).map(|k| format!("U{k}")).collect();
    let mut comps = objs.clone();
    comps.extend(ifs.iter().cloned());
    comps.extend(uns.iter().cloned());
    // field pool: one type per field name
    let n_pool = 8 + rng.below(7);
    let pool: Vec<FieldD> = (0..n_pool)
        .map(|k| {
            let comp = rng.chance(9, 20);
            let base = if comp { rng.pick(&comps).clone() } else { rng.pick(&leafs).clone() };
            FieldD { name: format!("f{k}"), ty: wrap(rng, &base, nested_comp || !comp), args: vec![] }
        })
        .collect();
    let add_fields = |dst: &mut Vec<FieldD>, src: &[FieldD]| {
        for f in src {
            if !dst.iter().any(|x| x.name == f.name) {
                dst.push(f.clone());
            }
        }
    };
    // interfaces, possibly inheriting from an earlier one (transitively declared)
    let mut itypes: Vec<TypeD> = vec![];
    for (k, name) in ifs.iter().enumerate() {
        let mut t = td(name, "interface");
        if k > 0 && rng.chance(1, 2) {
            let p = itypes[rng.below(k)].clone();
            dist.hit("schema_interface_inherits");
            t.implements.push(p.name.clone());
            for g in &p.implements {
                if !t.implements.contains(g) {
                    t.implements.push(g.clone());
                }
            }
            add_fields(&mut t.fields, &p.fields);
        }
        for _ in 0..1 + rng.below(3) {
            let f = rng.pick(&pool).clone();
            add_fields(&mut t.fields, &[f]);
        }
        itypes.push(t);
    }
    let mut otypes: Vec<TypeD> = objs.iter().map(|n| td(n, "object")).collect();
    let implement = |o: &mut TypeD, it: &TypeD| {
        for g in std::iter::once(&it.name).chain(it.implements.iter()) {
            if !o.implements.contains(g) {
                o.implements.push(g.clone());
            }
        }
    };
    for o in otypes.iter_mut() {
        for it in &itypes {
            if rng.chance(1, 3) {
                implement(o, it);
            }
        }
    }
    for it in &itypes {
        if !otypes.iter().any(|o| o.implements.contains(&it.name)) {
            let k = rng.below(otypes.len());
            implement(&mut otypes[k], it);
        }
    }
    for o in otypes.iter_mut() {
        for i in o.implements.clone() {
            let it = itypes.iter().find(|t| t.name == i).unwrap();
            add_fields(&mut o.fields, &it.fields);
        }
        for _ in 0..2 + rng.below(3) {
            let f = rng.pick(&pool).clone();
            add_fields(&mut o.fields, &[f]);
        }
    }
    let mut utypes = vec![];
    for name in &uns {
        let mut u = td(name, "union");
        for _ in 0..1 + rng.below(3) {
            let m = rng.pick(&objs).clone();
            if !u.members.contains(&m) {
                u.members.push(m);
            }
        }
        utypes.push(u);
    }
    // root: one entry point per composite type, a few leaves, echo
    let mut q = td("Query", "object");
    for (k, c) in comps.iter().enumerate() {
        q.fields.push(FieldD { name: format!("q{k}"), ty: wrap(rng, c, nested_comp), args: vec![] });
    }
    for k in 0..1 + rng.below(3) {
        let base = rng.pick(&leafs).clone();
        q.fields.push(FieldD { name: format!("r{k}"), ty: wrap(rng, &base, true), args: vec![] });
    }
    if rng.chance(1, 2) {
        let nn_int = TRef::NonNull(Box::new(TRef::Named("Int".into())));
        q.fields.push(FieldD { name: "echo".into(), ty: nn_int.clone(), args: vec![ArgD { name: "x".into(), ty: nn_int, default: Some(GV::Int(0)) }] });
    }
    let mut all = vec![q];
    all.extend(otypes);
    all.extend(itypes);
    all.extend(utypes);
    all.extend(types);
    for b in ["Int", "Float", "String", "Boolean", "ID"] {
        all.push(td(b, "scalar"));
    }
    dist.add("schema_types", (all.len() - 5) as u64);
    SchemaD { query: "Query".into(), mutation: None, subscription: None, types: all }
}

// ------------------------------------------------------------------ worlds

#[derive(Clone, Copy, PartialEq)]
enum Mode {
    Main,
    Leafcheck,
    Faults,
}

fn pools(sd: &SchemaD) -> Vec<(String, [u32; 3])> {
    sd.types
        .iter()
        .filter(|t| t.kind == "object" && t.name != sd.query && Some(&t.name) != sd.mutation.as_ref())
        .enumerate()
        .map(|(k, t)| (t.name.clone(), [10 * k as u32 + 1, 10 * k as u32 + 2, 10 * k as u32 + 3]))
        .collect()
}

struct WGen<'a> {
    sd: &'a SchemaD,
    pools: Vec<(String, [u32; 3])>,
    mode: Mode,
}

impl<'a> WGen<'a> {
    fn good_leaf(&self, rng: &mut Rng, tn: &str) -> GV {
        match tn {
            "Int" => GV::Int(*rng.pick(&[0, 1, -1, 7, 42, 2147483647, -2147483648, 9007199254740993])),
            "Float" => GV::Float(float_token(*rng.pick(&[0.0, 1.5, -2.25, 1e100, 3.0, 0.1]))),
            "String" => GV::Str(rng.pick(&["", "x", "hello world", "\"q\"\\"]).to_string()),
            "ID" => GV::Str(rng.pick(&["id-1", "42", ""]).to_string()),
            "Boolean" => GV::Bool(rng.chance(1, 2)),
            _ => {
                let t = self.sd.find(tn).expect("leaf type");
                if t.kind == "enum" {
                    GV::Enum(rng.pick(&t.values).clone())
                } else if t.values.get(1).map(|s| s.as_str()) == Some("even") {
                    GV::Int(*rng.pick(&[0, 2, -4, 100]))
                } else {
                    GV::Str(rng.pick(&["t", "tok en"]).to_string())
                }
            }
        }
    }
    /// a value that is NOT valid for the leaf type `tn`
    fn bad_leaf(&self, rng: &mut Rng, tn: &str, dist: &mut Dist) -> GV {
        let t = self.sd.find(tn).unwrap();
        if t.kind == "enum" {
            dist.hit("leafcheck_enum_bad");
            return match rng.below(3) {
                0 => GV::Enum("NOPE".into()),
                1 => GV::Str("nope".into()),
                _ => GV::Int(1),
            };
        }
        if !t.values.is_empty() {
            dist.hit("leafcheck_custom_scalar_rejected");
            return if t.values[1] == "even" { rng.pick(&[GV::Int(3), GV::Str("2".into()), GV::Int(-1)]).clone() } else { rng.pick(&[GV::Str("".into()), GV::Int(2)]).clone() };
        }
        dist.hit("leafcheck_builtin_wrong_kind");
        match tn {
            "Int" => rng.pick(&[GV::Str("7".into()), GV::Bool(true), GV::Float("1.5".into())]).clone(),
            "Float" => rng.pick(&[GV::Str("1.5".into()), GV::Bool(false)]).clone(),
            "String" => rng.pick(&[GV::Int(5), GV::Bool(true)]).clone(),
            "ID" => rng.pick(&[GV::Bool(true), GV::Float("1.5".into())]).clone(),
            _ => rng.pick(&[GV::Int(1), GV::Str("true".into())]).clone(),
        }
    }
    fn value(&self, rng: &mut Rng, t: &TRef, item: bool, dist: &mut Dist) -> RVal {
        if self.mode == Mode::Leafcheck && rng.chance(1, 12) {
            // Value::Null handed over as a value, in any position
            dist.hit(if t.is_non_null() { "leafcheck_null_value_nonnull" } else { "leafcheck_null_value_nullable" });
            return RVal::Leaf(GV::Null);
        }
        match t {
            TRef::NonNull(inner) => self.value_nn(rng, inner, dist),
            _ => {
                // a null list item cannot be "no value" (it is Value::Null): kept out of the faults stream
                let p = if item { if self.mode == Mode::Faults { 0 } else { 1 } } else { 2 };
                if rng.chance(p, 10) {
                    dist.hit(if item { "world_null_item" } else { "world_null" });
                    RVal::Null
                } else {
                    self.value_nn(rng, t, dist)
                }
            }
        }
    }
    fn value_nn(&self, rng: &mut Rng, t: &TRef, dist: &mut Dist) -> RVal {
        match t {
            TRef::NonNull(inner) => self.value_nn(rng, inner, dist),
            TRef::List(inner) => {
                if self.mode == Mode::Leafcheck && rng.chance(1, 16) {
                    dist.hit("leafcheck_not_a_list");
                    return RVal::Leaf(GV::Int(5));
                }
                let n = [0, 1, 2, 2, 3][rng.below(5)];
                dist.hit("world_list");
                RVal::List((0..n).map(|_| self.value(rng, inner, true, dist)).collect())
            }
            TRef::Named(n) => {
                let ty = self.sd.find(n).unwrap();
                if self.sd.is_composite(n) {
                    let poss = self.sd.possible(n);
                    if self.mode == Mode::Leafcheck && ty.kind != "object" && rng.chance(1, 8) {
                        // a runtime type the abstract type does not admit
                        dist.hit("leafcheck_wrong_with_type");
                        let others: Vec<&(String, [u32; 3])> = self.pools.iter().filter(|p| !poss.contains(&p.0)).collect();
                        return match rng.below(3) {
                            0 if !others.is_empty() => {
                                let p = rng.pick(&others);
                                RVal::Obj(p.0.clone(), p.1[0])
                            }
                            1 => RVal::Obj("Nope".into(), 1),
                            2 => RVal::Leaf(GV::Int(1)),
                            _ => RVal::Obj(n.clone(), 1),
                        };
                    }
                    let ty = rng.pick(&poss).clone();
                    let id = *rng.pick(&self.pools.iter().find(|p| p.0 == ty).unwrap().1);
                    RVal::Obj(ty, id)
                } else if self.mode == Mode::Leafcheck && rng.chance(1, 5) {
                    RVal::Leaf(self.bad_leaf(rng, n, dist))
                } else if self.mode == Mode::Leafcheck && ty.kind == "enum" && rng.chance(1, 4) {
                    // an enum item named by a string: accepted by the dynamic API
                    dist.hit("leafcheck_enum_by_string");
                    RVal::Leaf(GV::Str(rng.pick(&ty.values).clone()))
                } else {
                    RVal::Leaf(self.good_leaf(rng, n))
                }
            }
        }
    }
    fn generate(&self, rng: &mut Rng, root: &str, fail_16: usize, dist: &mut Dist) -> World {
        let mut es = vec![];
        let mut gen_obj = |ty: &str, id: u32, es: &mut Vec<((u32, String), RVal)>, rng: &mut Rng, dist: &mut Dist| {
            let t = self.sd.find(ty).unwrap();
            for f in &t.fields {
                let rv = if f.name == "echo" {
                    RVal::Arg("x".into())
                } else if fail_16 > 0 && rng.chance(fail_16, 16) {
                    dist.hit("world_fail");
                    RVal::Fail(format!("boom-{}-{}", id, f.name))
                } else {
                    self.value(rng, &f.ty, false, dist)
                };
                es.push(((id, f.name.clone()), rv));
            }
        };
        gen_obj(root, 0, &mut es, rng, dist);
        for (ty, ids) in &self.pools {
            for id in ids {
                gen_obj(ty, *id, &mut es, rng, dist);
            }
        }
        World::new(es)
    }
}

// ------------------------------------------------------------------ cases

fn has_union_cond(sd: &SchemaD, ss: &[SelN]) -> bool {
    ss.iter().any(|s| match s {
        SelN::Field { sels, .. } => has_union_cond(sd, sels),
        SelN::Spread { .. } => false,
        SelN::Inline { cond, sels, .. } => cond.as_ref().is_some_and(|c| sd.find(c).unwrap().kind == "union") || has_union_cond(sd, sels),
    })
}

fn gen_case(rng: &mut Rng, _i: usize, o: &Opts, dist: &mut Dist) -> Sexp {
    thread_local! {
        static FAMILY: SchemaD = SchemaD::from_sdl(&build_schema().sdl());
    }
    let mode = match o.stream.as_str() {
        "leafcheck" => Mode::Leafcheck,
        "faults" => Mode::Faults,
        _ => Mode::Main,
    };
    let sd = if rng.chance(1, 3) {
        dist.hit("schema_family");
        FAMILY.with(|f| f.clone())
    } else {
        dist.hit("schema_random");
        gen_schema(rng, dist, mode != Mode::Faults)
    };
    let op_ty = if mode == Mode::Faults && sd.mutation.is_some() && rng.chance(1, 4) { "mutation" } else { "query" };
    let (mut doc, vars) = loop {
        let (doc, vars) = gen_request(&sd, rng, dist, op_ty, mode != Mode::Faults);
        // the faults stream is C03's: keep C02's listed deviations out of it
        if mode == Mode::Faults && (has_union_cond(&sd, &doc.ops[0].sels) || doc.frags.iter().any(|f| sd.find(&f.cond).unwrap().kind == "union" || has_union_cond(&sd, &f.sels))) {
            continue;
        }
        break (doc, vars);
    };
    let text = print_doc(&mut doc);
    let wg = WGen { sd: &sd, pools: pools(&sd), mode };
    let root = if op_ty == "mutation" { sd.mutation.clone().unwrap() } else { sd.query.clone() };
    let fail_16 = if mode == Mode::Faults { if rng.chance(1, 2) { 1 } else { 3 } } else { 0 };
    let w = wg.generate(rng, &root, fail_16, dist);
    node(
        "case",
        vec![
            sd.to_sexp(),
            doc.to_sexp(),
            doc.ops[0].name.as_ref().map(|n| st(n.clone())).unwrap_or(atom("none")),
            vars_sexp(&vars),
            w.to_sexp(),
            st(text),
        ],
    )
}

fn run(case: &Sexp, dist: &mut Dist) -> Sexp {
    let a = case.args();
    let sd = schema_from_sexp(&a[0]);
    let vars = vars_from_sexp(&a[3]);
    let w = Arc::new(World::from_sexp(&a[4]).expect("world"));
    let text = a[5].as_str().unwrap();
    let schema = match build_dynamic(&sd) {
        Ok(s) => s,
        Err(e) => {
            dist.hit("schema_rejected");
            return node("schema-error", vec![st(e)]);
        }
    };
    let mut req = async_graphql::Request::new(text).data(w.clone());
    if let Some(n) = a[2].as_str() {
        req = req.operation_name(n);
    }
    let mut vs = async_graphql::Variables::default();
    for (k, v) in &vars {
        vs.insert(async_graphql::Name::new(k), v.to_avalue());
    }
    req = req.variables(vs);
    let resp = spin_on(schema.execute(req.root_value(FieldValue::owned_any(0u32))));
    if !resp.errors.is_empty() {
        dist.hit("resp_with_errors");
        if resp.errors.iter().any(|e| e.path.is_empty() && e.locations.is_empty()) {
            dist.hit("resp_request_level_error");
        }
        if std::env::var("AGV_DEBUG").is_ok() {
            eprintln!("{:?}", resp.errors.iter().map(|e| e.message.clone()).collect::<Vec<_>>());
        }
    }
    response_sexp(&resp, &w)
}

fn main() {
    main_loop(&mut gen_case, &mut run);
}
