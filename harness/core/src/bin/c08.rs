//! C08 — built-in input validators accept exactly the values satisfying their predicate.
//!
//! A static schema (derive macros) in which every field of `fields!` below exists twice: as a
//! query field taking the validated ARGUMENT `v`, and as a query field taking an input object
//! whose only FIELD `v` carries the same validators.  The table the cases quote (type, validator
//! list) is `stringify!`-ed from the very tokens handed to the derive macros.
//!
//! Case   (c MODE LOC VIA NAME (shape ELEM isList elemOpt opt) (cfg (KEY BOUND)…) WIRE)
//!   MODE strict|fast   LOC arg|field   VIA var|lit (value sent as a variable / written into the document)
//!   BOUND (i N) | (f F64BITS) | N | "pattern"      WIRE null | other | (int N) | (float F64BITS) | (str "…") | (list WIRE…)
//! Output (reached) — the resolver ran and the response has no error — or (err KIND), KIND =
//!   gate (validation rule refused the value) | parse | <validator name>.

use std::sync::OnceLock;
use std::sync::atomic::{AtomicUsize, Ordering};

use agvh::*;
use async_graphql::{
    EmptyMutation, EmptySubscription, InputObject, Name, Number, Object, Request, Schema, ValidationMode, Value,
    Variables,
};

static HITS: AtomicUsize = AtomicUsize::new(0);
fn hit() -> bool {
    HITS.fetch_add(1, Ordering::SeqCst);
    true
}

macro_rules! fields {
    ($( ($a:ident, $i:ident, $t:ident, [$($ty:tt)*], [$($v:tt)*]) )*) => {
        struct Query;
        #[Object]
        #[allow(non_snake_case)]
        impl Query {
            $(
                async fn $a(&self, #[graphql(validator($($v)*))] v: $($ty)*) -> bool { let _ = &v; hit() }
                async fn $i(&self, input: $t) -> bool { let _ = &input; hit() }
            )*
        }
        $(
            #[derive(InputObject)]
            #[allow(non_camel_case_types)]
            struct $t {
                #[graphql(validator($($v)*))]
                v: $($ty)*,
            }
        )*
        /// (argument field, input-object field, input type, Rust type, validators)
        const TABLE: &[(&str, &str, &str, &str, &str)] = &[
            $( (stringify!($a), stringify!($i), stringify!($t), stringify!($($ty)*), stringify!($($v)*)) ),*
        ];
    };
}

fields! {
    (a0maxi8, i0maxi8, I0maxi8, [i8], [maximum = 100])
    (a1mini8, i1mini8, I1mini8, [i8], [minimum = 5])
    (a2muli8, i2muli8, I2muli8, [i8], [multiple_of = 5])
    (a3rngi8, i3rngi8, I3rngi8, [i8], [multiple_of = 5, maximum = 100, minimum = 10])
    (a4maxi16, i4maxi16, I4maxi16, [i16], [maximum = 100])
    (a5mini16, i5mini16, I5mini16, [i16], [minimum = 5])
    (a6muli16, i6muli16, I6muli16, [i16], [multiple_of = 5])
    (a7rngi16, i7rngi16, I7rngi16, [i16], [multiple_of = 5, maximum = 100, minimum = 10])
    (a8maxi32, i8maxi32, I8maxi32, [i32], [maximum = 100])
    (a9mini32, i9mini32, I9mini32, [i32], [minimum = 5])
    (a10muli32, i10muli32, I10muli32, [i32], [multiple_of = 5])
    (a11rngi32, i11rngi32, I11rngi32, [i32], [multiple_of = 5, maximum = 100, minimum = 10])
    (a12maxi64, i12maxi64, I12maxi64, [i64], [maximum = 100])
    (a13mini64, i13mini64, I13mini64, [i64], [minimum = 5])
    (a14muli64, i14muli64, I14muli64, [i64], [multiple_of = 5])
    (a15rngi64, i15rngi64, I15rngi64, [i64], [multiple_of = 5, maximum = 100, minimum = 10])
    (a16maxu8, i16maxu8, I16maxu8, [u8], [maximum = 100])
    (a17minu8, i17minu8, I17minu8, [u8], [minimum = 5])
    (a18mulu8, i18mulu8, I18mulu8, [u8], [multiple_of = 5])
    (a19rngu8, i19rngu8, I19rngu8, [u8], [multiple_of = 5, maximum = 100, minimum = 10])
    (a20maxu16, i20maxu16, I20maxu16, [u16], [maximum = 100])
    (a21minu16, i21minu16, I21minu16, [u16], [minimum = 5])
    (a22mulu16, i22mulu16, I22mulu16, [u16], [multiple_of = 5])
    (a23rngu16, i23rngu16, I23rngu16, [u16], [multiple_of = 5, maximum = 100, minimum = 10])
    (a24maxu32, i24maxu32, I24maxu32, [u32], [maximum = 100])
    (a25minu32, i25minu32, I25minu32, [u32], [minimum = 5])
    (a26mulu32, i26mulu32, I26mulu32, [u32], [multiple_of = 5])
    (a27rngu32, i27rngu32, I27rngu32, [u32], [multiple_of = 5, maximum = 100, minimum = 10])
    (a28maxu64, i28maxu64, I28maxu64, [u64], [maximum = 100])
    (a29minu64, i29minu64, I29minu64, [u64], [minimum = 5])
    (a30mulu64, i30mulu64, I30mulu64, [u64], [multiple_of = 5])
    (a31rngu64, i31rngu64, I31rngu64, [u64], [multiple_of = 5, maximum = 100, minimum = 10])
    (a32maxf32, i32maxf32, I32maxf32, [f32], [maximum = 100])
    (a33minf32, i33minf32, I33minf32, [f32], [minimum = 5])
    (a34mulf32, i34mulf32, I34mulf32, [f32], [multiple_of = 5])
    (a35rngf32, i35rngf32, I35rngf32, [f32], [multiple_of = 5, maximum = 100, minimum = 10])
    (a36maxf64, i36maxf64, I36maxf64, [f64], [maximum = 100])
    (a37minf64, i37minf64, I37minf64, [f64], [minimum = 5])
    (a38mulf64, i38mulf64, I38mulf64, [f64], [multiple_of = 5])
    (a39rngf64, i39rngf64, I39rngf64, [f64], [multiple_of = 5, maximum = 100, minimum = 10])
    (a40zmini64, i40zmini64, I40zmini64, [i64], [minimum = 0])
    (a41zminf64, i41zminf64, I41zminf64, [f64], [minimum = 0])
    (a42bmaxu64, i42bmaxu64, I42bmaxu64, [u64], [maximum = 9223372036854775807])
    (a43bminu64, i43bminu64, I43bminu64, [u64], [minimum = 9223372036854775807])
    (a44bmaxi64, i44bmaxi64, I44bmaxi64, [i64], [maximum = 9223372036854775806])
    (a45bmaxf64, i45bmaxf64, I45bmaxf64, [f64], [maximum = 9223372036854775807])
    (a46fmaxi32, i46fmaxi32, I46fmaxi32, [i32], [maximum = 10.5])
    (a47fmini32, i47fmini32, I47fmini32, [i32], [minimum = 0.75])
    (a48fmuli32, i48fmuli32, I48fmuli32, [i32], [multiple_of = 2.5])
    (a49fmaxi64, i49fmaxi64, I49fmaxi64, [i64], [maximum = 10.5])
    (a50fmini64, i50fmini64, I50fmini64, [i64], [minimum = 0.75])
    (a51fmuli64, i51fmuli64, I51fmuli64, [i64], [multiple_of = 2.5])
    (a52fmaxu64, i52fmaxu64, I52fmaxu64, [u64], [maximum = 10.5])
    (a53fminu64, i53fminu64, I53fminu64, [u64], [minimum = 0.75])
    (a54fmulu64, i54fmulu64, I54fmulu64, [u64], [multiple_of = 2.5])
    (a55fmaxf32, i55fmaxf32, I55fmaxf32, [f32], [maximum = 10.5])
    (a56fminf32, i56fminf32, I56fminf32, [f32], [minimum = 0.75])
    (a57fmulf32, i57fmulf32, I57fmulf32, [f32], [multiple_of = 2.5])
    (a58fmaxf64, i58fmaxf64, I58fmaxf64, [f64], [maximum = 10.5])
    (a59fminf64, i59fminf64, I59fminf64, [f64], [minimum = 0.75])
    (a60fmulf64, i60fmulf64, I60fmulf64, [f64], [multiple_of = 2.5])
    (a61gmaxi64, i61gmaxi64, I61gmaxi64, [i64], [maximum = 9007199254740992.0])
    (a62gmaxu64, i62gmaxu64, I62gmaxu64, [u64], [maximum = 9007199254740992.0])
    (a63gminu64, i63gminu64, I63gminu64, [u64], [minimum = 9007199254740994.0])
    (a64tenthf32, i64tenthf32, I64tenthf32, [f32], [maximum = 0.1])
    (a65tenthf64, i65tenthf64, I65tenthf64, [f64], [maximum = 0.1, minimum = 0.1])
    (a66smaxl, i66smaxl, I66smaxl, [String], [max_length = 5])
    (a67sminl, i67sminl, I67sminl, [String], [min_length = 2])
    (a68scmax, i68scmax, I68scmax, [String], [chars_max_length = 5])
    (a69scmin, i69scmin, I69scmin, [String], [chars_min_length = 2])
    (a70sre, i70sre, I70sre, [String], [regex = "^[a-z]+$"])
    (a71sall, i71sall, I71sall, [String], [max_length = 8, min_length = 3, chars_max_length = 4, chars_min_length = 3, regex = "^[0-9]{3}$"])
    (a72sopt, i72sopt, I72sopt, [Option<String>], [max_length = 5, chars_min_length = 1])
    (a73oi32, i73oi32, I73oi32, [Option<i32>], [maximum = 100])
    (a74ou64, i74ou64, I74ou64, [Option<u64>], [maximum = 100])
    (a75of64, i75of64, I75of64, [Option<f64>], [minimum = 5])
    (a76lmaxit, i76lmaxit, I76lmaxit, [Vec<i32>], [max_items = 3])
    (a77lminit, i77lminit, I77lminit, [Vec<i32>], [min_items = 2])
    (a78lboth, i78lboth, I78lboth, [Vec<i32>], [list, maximum = 100, min_items = 1, max_items = 4])
    (a79loel, i79loel, I79loel, [Vec<Option<i32>>], [list, maximum = 100, minimum = 5])
    (a80olu64, i80olu64, I80olu64, [Option<Vec<u64>>], [list, maximum = 100, max_items = 3])
    (a81lf64, i81lf64, I81lf64, [Vec<f64>], [list, maximum = 10])
    (a82lstr, i82lstr, I82lstr, [Vec<String>], [list, max_length = 3, min_items = 1])
    (a83olostr, i83olostr, I83olostr, [Option<Vec<Option<String>>>], [list, chars_max_length = 3, regex = "^[a-z]+$", max_items = 3])
    (a84lmulu64, i84lmulu64, I84lmulu64, [Vec<u64>], [list, multiple_of = 5, minimum = 5])
    (a85olit, i85olit, I85olit, [Option<Vec<String>>], [min_items = 1, max_items = 2])
}

// ------------------------------------------------------------------ the table as data

#[derive(Clone, Debug, PartialEq)]
enum Bound {
    I(i64),
    F(u64),
    N(usize),
    Re(String),
    Flag,
}

#[derive(Clone, Debug)]
struct Field {
    arg: &'static str,
    inp: &'static str,
    inty: &'static str,
    elem: &'static str, // i8…u64, f32, f64, str
    is_list: bool,
    elem_opt: bool,
    opt: bool,
    cfg: Vec<(String, Bound)>,
}

fn parse_field(r: &(&'static str, &'static str, &'static str, &'static str, &'static str)) -> Field {
    let ty: String = r.3.chars().filter(|c| !c.is_whitespace()).collect();
    let mut rest = ty.as_str();
    let mut opt = false;
    let mut is_list = false;
    let mut elem_opt = false;
    if let Some(x) = rest.strip_prefix("Option<") {
        opt = true;
        rest = x.strip_suffix('>').unwrap();
    }
    if let Some(x) = rest.strip_prefix("Vec<") {
        is_list = true;
        rest = x.strip_suffix('>').unwrap();
        if let Some(y) = rest.strip_prefix("Option<") {
            elem_opt = true;
            rest = y.strip_suffix('>').unwrap();
        }
    }
    let elem = match rest {
        "i8" => "i8",
        "i16" => "i16",
        "i32" => "i32",
        "i64" => "i64",
        "u8" => "u8",
        "u16" => "u16",
        "u32" => "u32",
        "u64" => "u64",
        "f32" => "f32",
        "f64" => "f64",
        "String" => "str",
        other => panic!("unsupported type {other}"),
    };
    let mut cfg = vec![];
    for part in r.4.split(',') {
        let part = part.trim();
        if part.is_empty() {
            continue;
        }
        match part.split_once('=') {
            None => cfg.push((part.to_string(), Bound::Flag)),
            Some((k, v)) => {
                let k = k.trim().to_string();
                let v = v.trim();
                let b = if let Some(s) = v.strip_prefix('"') {
                    Bound::Re(s.strip_suffix('"').unwrap().to_string())
                } else if matches!(k.as_str(), "maximum" | "minimum" | "multiple_of") {
                    if v.contains('.') { Bound::F(v.parse::<f64>().unwrap().to_bits()) } else { Bound::I(v.parse::<i64>().unwrap()) }
                } else {
                    Bound::N(v.parse::<usize>().unwrap())
                };
                cfg.push((k, b));
            }
        }
    }
    Field { arg: r.0, inp: r.1, inty: r.2, elem, is_list, elem_opt, opt, cfg }
}

fn table() -> &'static Vec<Field> {
    static T: OnceLock<Vec<Field>> = OnceLock::new();
    T.get_or_init(|| TABLE.iter().map(parse_field).collect())
}

fn b(x: bool) -> Sexp {
    atom(if x { "true" } else { "false" })
}

fn shape_sexp(f: &Field) -> Sexp {
    node("shape", vec![atom(f.elem), b(f.is_list), b(f.elem_opt), b(f.opt)])
}

fn cfg_sexp(f: &Field) -> Sexp {
    let mut xs = vec![];
    for (k, v) in &f.cfg {
        xs.push(match v {
            Bound::Flag => atom(k.clone()),
            Bound::I(n) => node(k, vec![node("i", vec![num(n)])]),
            Bound::F(bits) => node(k, vec![node("f", vec![num(bits)])]),
            Bound::N(n) => node(k, vec![num(n)]),
            Bound::Re(p) => node(k, vec![st(p.clone())]),
        });
    }
    node("cfg", xs)
}

fn gql_type(f: &Field) -> String {
    let e = match f.elem {
        "f32" | "f64" => "Float",
        "str" => "String",
        _ => "Int",
    };
    if f.is_list {
        format!("[{}{}]{}", e, if f.elem_opt { "" } else { "!" }, if f.opt { "" } else { "!" })
    } else {
        format!("{}{}", e, if f.opt { "" } else { "!" })
    }
}

// ------------------------------------------------------------------ wire values

#[derive(Clone, Debug)]
enum Wire {
    Null,
    Other,
    Int(i128),
    Float(u64),
    Str(String),
    List(Vec<Wire>),
}

fn wire_sexp(w: &Wire) -> Sexp {
    match w {
        Wire::Null => atom("null"),
        Wire::Other => atom("other"),
        Wire::Int(i) => node("int", vec![num(i)]),
        Wire::Float(bits) => node("float", vec![num(bits)]),
        Wire::Str(s) => node("str", vec![st(s.clone())]),
        Wire::List(xs) => node("list", xs.iter().map(wire_sexp).collect()),
    }
}

fn wire_parse(s: &Sexp) -> Option<Wire> {
    if let Some(a) = s.as_atom() {
        return match a {
            "null" => Some(Wire::Null),
            "other" => Some(Wire::Other),
            _ => None,
        };
    }
    let args = s.args();
    match s.tag()? {
        "int" => {
            let i: i128 = args.first()?.as_atom()?.parse().ok()?;
            if i < i64::MIN as i128 || i > u64::MAX as i128 {
                return None;
            }
            Some(Wire::Int(i))
        }
        "float" => {
            let bits: u64 = args.first()?.as_atom()?.parse().ok()?;
            if !f64::from_bits(bits).is_finite() {
                return None;
            }
            Some(Wire::Float(bits))
        }
        "str" => Some(Wire::Str(args.first()?.as_str()?.to_string())),
        "list" => Some(Wire::List(args.iter().map(wire_parse).collect::<Option<Vec<_>>>()?)),
        _ => None,
    }
}

fn wire_value(w: &Wire) -> Value {
    match w {
        Wire::Null => Value::Null,
        Wire::Other => Value::Boolean(true),
        Wire::Int(i) => {
            if *i < 0 {
                Value::Number(Number::from(*i as i64))
            } else {
                Value::Number(Number::from(*i as u64))
            }
        }
        Wire::Float(bits) => Value::Number(Number::from_f64(f64::from_bits(*bits)).expect("finite")),
        Wire::Str(s) => Value::String(s.clone()),
        Wire::List(xs) => Value::List(xs.iter().map(wire_value).collect()),
    }
}

/// floats whose shortest decimal text is read back exactly by any decimal parser (k/8, small)
fn lit_safe(w: &Wire) -> bool {
    match w {
        Wire::Float(bits) => {
            let x = f64::from_bits(*bits);
            x.abs() < 1.0e6 && (x * 8.0).fract() == 0.0 && !(x == 0.0 && x.is_sign_negative())
        }
        Wire::List(xs) => xs.iter().all(lit_safe),
        _ => true,
    }
}

fn wire_lit(w: &Wire) -> String {
    match w {
        Wire::Float(bits) => {
            let x = f64::from_bits(*bits);
            let s = format!("{x:?}");
            if s.contains('.') || s.contains('e') { s } else { format!("{s}.0") }
        }
        other => wire_value(other).to_string(),
    }
}

// ------------------------------------------------------------------ runner

fn schemas() -> &'static (Schema<Query, EmptyMutation, EmptySubscription>, Schema<Query, EmptyMutation, EmptySubscription>) {
    static S: OnceLock<(Schema<Query, EmptyMutation, EmptySubscription>, Schema<Query, EmptyMutation, EmptySubscription>)> =
        OnceLock::new();
    S.get_or_init(|| {
        (
            Schema::build(Query, EmptyMutation, EmptySubscription).validation_mode(ValidationMode::Strict).finish(),
            Schema::build(Query, EmptyMutation, EmptySubscription).validation_mode(ValidationMode::Fast).finish(),
        )
    })
}

fn classify(msg: &str) -> Sexp {
    let k = if msg.contains("must be less than or equal to") {
        if msg.contains("the value is") {
            "maximum"
        } else if msg.contains("the string length is") {
            "max_length"
        } else if msg.contains("the chars length is") {
            "chars_max_length"
        } else if msg.contains("the value length is") {
            "max_items"
        } else {
            "unknown"
        }
    } else if msg.contains("must be greater than or equal to") {
        if msg.contains("the value is") {
            "minimum"
        } else if msg.contains("the string length is") {
            "min_length"
        } else if msg.contains("the chars length is") {
            "chars_min_length"
        } else if msg.contains("the value length is") {
            "min_items"
        } else {
            "unknown"
        }
    } else if msg.contains("the value must be a multiple of") {
        "multiple_of"
    } else if msg.contains("value doesn't match expected format") {
        "regex"
    } else if msg.starts_with("Invalid value for argument") {
        "gate"
    } else if msg.contains("Expected input type") || msg.contains("Invalid number") || msg.contains("Only integers from") {
        "parse"
    } else {
        "unknown"
    };
    if k == "unknown" { node("err", vec![atom("unknown"), st(msg)]) } else { node("err", vec![atom(k)]) }
}

fn run(case: &Sexp, dist: &mut Dist) -> Sexp {
    let a = case.args();
    if case.tag() != Some("c") || a.len() != 7 {
        return node("bad-case", vec![]);
    }
    let (mode, loc, via, name) = match (a[0].as_atom(), a[1].as_atom(), a[2].as_atom(), a[3].as_str()) {
        (Some(m), Some(l), Some(v), Some(n)) => (m, l, v, n),
        _ => return node("bad-case", vec![]),
    };
    let Some(f) = table().iter().find(|f| f.arg == name) else {
        return node("bad-case", vec![atom("no-such-field")]);
    };
    // the case must quote the schema's own type and validators
    if a[4] != shape_sexp(f) || a[5] != cfg_sexp(f) {
        return node("bad-case", vec![atom("table-mismatch")]);
    }
    let Some(w) = wire_parse(&a[6]) else {
        return node("bad-case", vec![atom("wire")]);
    };
    let schema = match mode {
        "strict" => &schemas().0,
        "fast" => &schemas().1,
        _ => return node("bad-case", vec![]),
    };
    let (query, vars) = match (loc, via) {
        ("arg", "lit") => (format!("{{ {}(v: {}) }}", f.arg, wire_lit(&w)), None),
        ("arg", "var") => (format!("query($x: {}) {{ {}(v: $x) }}", gql_type(f), f.arg), Some(wire_value(&w))),
        ("field", "lit") => (format!("{{ {}(input: {{v: {}}}) }}", f.inp, wire_lit(&w)), None),
        ("field", "var") => {
            (format!("query($x: {}) {{ {}(input: {{v: $x}}) }}", gql_type(f), f.inp), Some(wire_value(&w)))
        }
        _ => return node("bad-case", vec![]),
    };
    if via == "lit" && !lit_safe(&w) {
        return node("bad-case", vec![atom("float-literal-not-exact")]);
    }
    let mut req = Request::new(query);
    if let Some(v) = vars {
        let mut m = Variables::default();
        m.insert(Name::new("x"), v);
        req = req.variables(m);
    }
    let before = HITS.load(Ordering::SeqCst);
    let resp = spin_on(schema.execute(req));
    let hits = HITS.load(Ordering::SeqCst) - before;
    dist.hit(if hits > 0 { "out_reached" } else { "out_error" });
    match (hits, resp.errors.first()) {
        (1, None) => node("reached", vec![]),
        (0, Some(e)) if resp.errors.len() == 1 => classify(&e.message),
        _ => node(
            "inconsistent",
            vec![num(hits), list(resp.errors.iter().map(|e| st(e.message.clone())).collect())],
        ),
    }
}

// ------------------------------------------------------------------ generator

fn int_range(elem: &str) -> (i128, i128) {
    match elem {
        "i8" => (i8::MIN as i128, i8::MAX as i128),
        "i16" => (i16::MIN as i128, i16::MAX as i128),
        "i32" => (i32::MIN as i128, i32::MAX as i128),
        "i64" => (i64::MIN as i128, i64::MAX as i128),
        "u8" => (0, u8::MAX as i128),
        "u16" => (0, u16::MAX as i128),
        "u32" => (0, u32::MAX as i128),
        _ => (0, u64::MAX as i128),
    }
}

fn clamp_wire(i: i128) -> i128 {
    i.clamp(i64::MIN as i128, u64::MAX as i128)
}

/// numeric bounds of the field as (integer nearby, exact f64)
fn bounds(f: &Field) -> Vec<f64> {
    f.cfg
        .iter()
        .filter_map(|(_, b)| match b {
            Bound::I(n) => Some(*n as f64),
            Bound::F(bits) => Some(f64::from_bits(*bits)),
            _ => None,
        })
        .collect()
}

fn gen_int(rng: &mut Rng, f: &Field, dist: &mut Dist) -> Wire {
    let (lo, hi) = if matches!(f.elem, "f32" | "f64") { (i64::MIN as i128, u64::MAX as i128) } else { int_range(f.elem) };
    let bs: Vec<i128> = f
        .cfg
        .iter()
        .filter_map(|(_, b)| match b {
            Bound::I(n) => Some(*n as i128),
            Bound::F(bits) => Some(f64::from_bits(*bits).floor() as i128),
            _ => None,
        })
        .collect();
    let k = rng.below(100);
    let v: i128 = if k < 40 && !bs.is_empty() {
        dist.hit("int_near_bound");
        let b = *rng.pick(&bs);
        b + rng.range(-3, 3) as i128 * if rng.chance(1, 4) { 5 } else { 1 }
    } else if k < 55 {
        dist.hit("int_type_edge");
        *rng.pick(&[lo, lo + 1, hi, hi - 1, lo - 1, hi + 1])
    } else if k < 75 {
        dist.hit("int_class_edge");
        let p53 = 1i128 << 53;
        let p63 = 1i128 << 63;
        let p64 = 1i128 << 64;
        *rng.pick(&[
            p63 - 1, p63, p63 + 1, p64 - 1, p64 - 2, -p63, -p63 + 1, p53, p53 + 1, p53 - 1, p53 + 2, p53 + 3, -p53 - 1,
            p63 + 100, p64 - 5, p63 + 5, p64 - 1516, (1i128 << 31), (1i128 << 32), 255, 256, 127, 128, 65535, 65536,
        ])
    } else if k < 90 {
        dist.hit("int_small");
        rng.range(-20, 120) as i128
    } else {
        dist.hit("int_random");
        let r = rng.next_u64() as i128;
        if lo < 0 && rng.chance(1, 2) { -(r >> rng.below(64)) } else { r >> rng.below(64) }
    };
    let v = clamp_wire(v);
    if v > i64::MAX as i128 {
        dist.hit("int_above_i64_max");
    }
    if v < lo || v > hi {
        dist.hit("int_outside_declared_type");
    }
    Wire::Int(v)
}

fn next_up(x: f64) -> f64 {
    if x == 0.0 { f64::from_bits(1) } else if x > 0.0 { f64::from_bits(x.to_bits() + 1) } else { f64::from_bits(x.to_bits() - 1) }
}
fn next_down(x: f64) -> f64 {
    -next_up(-x)
}

fn gen_float(rng: &mut Rng, f: &Field, dist: &mut Dist) -> Wire {
    let bs = bounds(f);
    let k = rng.below(100);
    let x: f64 = if k < 50 && !bs.is_empty() {
        let b = *rng.pick(&bs);
        match rng.below(10) {
            0 => b,
            1 => b + 0.5,
            2 => b - 0.5,
            3 => b + 0.25,
            4 => b + 0.875,
            5 => next_up(b),
            6 => next_down(b),
            7 => b + 1.0,
            8 => b - 1.0,
            _ => b * rng.range(-3, 6) as f64 + rng.range(0, 7) as f64 / 8.0,
        }
    } else if k < 65 {
        rng.range(-80, 900) as f64 / 8.0
    } else if k < 80 {
        *rng.pick(&[
            0.0, -0.0, 0.1, 100.000001, 100.00000000001, 99.9999999, 4.999999999, 5.0000001, 9.223372036854775e18, 9.223372036854776e18,
            9.223372036854778e18, -9.223372036854776e18, -9.3e18, 1.0e19, 1.8446744073709552e19, 3.0e38, -3.0e38, 9007199254740992.0,
            9007199254740994.0, 1e-300, -1e-300, 5e-324, 0.10000000149011612, 0.1000000000000001, 16777217.0, 0.999999999999,
        ])
    } else if k < 90 {
        // non-integral value with a random magnitude
        let m = rng.next_u64() >> 11;
        let e = rng.range(-70, 70) as i32;
        let s = if rng.chance(1, 3) { -1.0 } else { 1.0 };
        s * (m as f64) * 2f64.powi(e - 52)
    } else {
        loop {
            let x = f64::from_bits(rng.next_u64());
            if x.is_finite() && x.abs() < 1.0e38 {
                break x;
            }
        }
    };
    // f32 fields: the model does not represent the overflow of `as f32` to infinity
    let x = if x.is_finite() && !(f.elem == "f32" && x.abs() >= 1.0e38) { x } else { 1.5 };
    if x.fract() != 0.0 {
        dist.hit("float_non_integral");
    } else {
        dist.hit("float_integral");
    }
    if x.abs() >= 9.2e18 {
        dist.hit("float_beyond_i64");
    }
    Wire::Float(x.to_bits())
}

fn gen_str(rng: &mut Rng, dist: &mut Dist) -> Wire {
    let pieces: [&str; 12] = ["a", "b", "z", "0", "7", "9", "A", " ", "\u{e9}", "\u{20ac}", "\u{1F600}", "\u{df}"];
    let n = *rng.pick(&[0usize, 1, 1, 2, 2, 3, 3, 3, 4, 4, 5, 5, 6, 8, 9]);
    let style = rng.below(4);
    let mut s = String::new();
    for _ in 0..n {
        let p = match style {
            0 => *rng.pick(&pieces[0..3]),
            1 => *rng.pick(&pieces[3..6]),
            2 => *rng.pick(&pieces[8..12]),
            _ => *rng.pick(&pieces),
        };
        s.push_str(p);
    }
    if s.len() != s.chars().count() {
        dist.hit("str_multibyte");
    } else {
        dist.hit("str_ascii");
    }
    Wire::Str(s)
}

fn gen_scalar(rng: &mut Rng, f: &Field, dist: &mut Dist) -> Wire {
    match f.elem {
        "str" => gen_str(rng, dist),
        "f32" | "f64" => {
            if rng.chance(1, 4) {
                dist.hit("int_for_float_type");
                gen_int(rng, f, dist)
            } else {
                gen_float(rng, f, dist)
            }
        }
        _ => gen_int(rng, f, dist),
    }
}

fn gen_wrong(rng: &mut Rng, f: &Field, dist: &mut Dist) -> Wire {
    dist.hit("wrong_kind_value");
    match rng.below(6) {
        0 => Wire::Other,
        1 => {
            if f.elem == "str" {
                Wire::Int(5)
            } else {
                Wire::Str("5".into())
            }
        }
        2 => Wire::Float((*rng.pick(&[10.0f64, 10.5, 100.0, 5.0, 0.0])).to_bits()),
        3 => Wire::List(vec![Wire::List(vec![Wire::Int(5)])]),
        4 => Wire::List(vec![Wire::Int(5), Wire::Int(10)]),
        _ => Wire::Null,
    }
}

fn gen_wire(rng: &mut Rng, f: &Field, dist: &mut Dist) -> Wire {
    if rng.chance(1, 12) {
        let w = gen_wrong(rng, f, dist);
        // a null given for a non-optional list of optional items is outside the model's
        // admissible inputs (the library reads it as `[null]` in fast mode) — not generated
        if matches!(w, Wire::Null) && f.is_list && !f.opt && f.elem_opt {
            return Wire::Other;
        }
        return w;
    }
    if f.opt && rng.chance(1, 8) {
        dist.hit("null_for_option");
        return Wire::Null;
    }
    if f.is_list {
        if rng.chance(1, 10) {
            dist.hit("scalar_for_list");
            return gen_scalar(rng, f, dist);
        }
        let n = *rng.pick(&[0usize, 0, 1, 1, 2, 2, 3, 3, 4, 5]);
        if n == 0 {
            dist.hit("empty_list");
        }
        let mut xs = vec![];
        for _ in 0..n {
            if f.elem_opt && rng.chance(1, 4) {
                dist.hit("null_item");
                xs.push(Wire::Null);
            } else if rng.chance(1, 25) {
                xs.push(if rng.chance(1, 2) { Wire::Null } else { Wire::Other });
            } else {
                xs.push(gen_scalar(rng, f, dist));
            }
        }
        return Wire::List(xs);
    }
    gen_scalar(rng, f, dist)
}

fn gen_case(rng: &mut Rng, _i: usize, _o: &Opts, dist: &mut Dist) -> Sexp {
    let t = table();
    let f = &t[rng.below(t.len())];
    let mode = if rng.chance(1, 2) { "strict" } else { "fast" };
    let loc = if rng.chance(1, 2) { "arg" } else { "field" };
    let w = gen_wire(rng, f, dist);
    let via = if lit_safe(&w) && rng.chance(1, 2) { "lit" } else { "var" };
    dist.hit(&format!("mode_{mode}"));
    dist.hit(&format!("loc_{loc}"));
    dist.hit(&format!("via_{via}"));
    dist.hit(&format!("elem_{}", f.elem));
    if f.is_list {
        dist.hit("shape_list");
    }
    for (k, b) in &f.cfg {
        match b {
            Bound::I(_) => dist.hit(&format!("validator_{k}_int_bound")),
            Bound::F(_) => dist.hit(&format!("validator_{k}_float_bound")),
            _ => dist.hit(&format!("validator_{k}")),
        }
    }
    node("c", vec![atom(mode), atom(loc), atom(via), st(f.arg), shape_sexp(f), cfg_sexp(f), wire_sexp(&w)])
}

fn main() {
    main_loop(&mut gen_case, &mut run);
}
