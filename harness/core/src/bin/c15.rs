//! C15 — values print as GraphQL literals and convert to JSON without loss.
//!
//! Case
//!   (val V)      V ::= null | (i INT) | (f BITS "TOKEN") | (s "…") | (b true|false) | (e "NAME")
//!                    | (l V…) | (o ("KEY" V)…)
//!                INT in i64::MIN..=u64::MAX; BITS = f64::to_bits (finite), TOKEN = the text
//!                serde_json prints for that float (opaque to the Lean model; `run` refuses the
//!                case when it is not what the real printer gives).
//! Output
//!   (ok (text "T") (reparse R) (json "J") (back R) (flags F…))
//!     T       Display of the ConstValue (the Display of the corresponding `Value` must be equal)
//!     R       (ok V) | (err)   re-parse of T: `query($v: T = <T>) { f(a: <T>) }` through parse_query,
//!             default value (parse_const_value) and argument (parse_value) must agree
//!     J       serde_json::to_string of the ConstValue
//!     back    serde_json::from_str::<ConstValue>(J)
//!     flags   value_display_same value_json_same value_json_back via_serde_value into_json
//!             (each true/false): the non-const `Value` twin prints / serialises identically and
//!             deserialises to the same value; round trip through a `serde_json::Value` tree
//!             (deserialize / from_json) gives a value equal (Rust `==`) to `back`.

use agvh::*;
use async_graphql_parser::{
    parse_query,
    types::{DocumentOperations, Selection},
};
use async_graphql_value::{ConstValue, Name, Number, Value, indexmap::IndexMap};

// ------------------------------------------------------------------ generator

const NAMES: [&str; 14] = [
    "a", "b", "_", "__typename", "RED", "x1", "true", "false", "null", "on", "aB_9", "query", "Z", "e1E5",
];
const BAD_NAMES: [&str; 12] = ["", "1a", "a-b", "a b", "\u{e9}", "a]", "$v", "true", "false", "null", "9", "a.b"];

fn gen_char(rng: &mut Rng, dist: &mut Dist) -> char {
    match rng.below(16) {
        0 | 1 => {
            dist.hit("ch_c0_control");
            char::from_u32(rng.below(0x20) as u32).unwrap()
        }
        2 => {
            dist.hit("ch_c1_control");
            char::from_u32(0x7f + rng.below(0x21) as u32).unwrap()
        }
        3 => {
            dist.hit("ch_quote");
            '"'
        }
        4 => {
            dist.hit("ch_backslash");
            '\\'
        }
        5 => {
            dist.hit("ch_edge");
            *rng.pick(&[
                '\u{7e}', '\u{a0}', '\u{2028}', '\u{2029}', '\u{feff}', '\u{d7ff}', '\u{e000}', '\u{ffff}', '\u{10000}',
                '\u{10ffff}', '\u{85}', '\u{1b}', '\u{7f}', '\u{9f}', '\u{1f}', '\u{20}', '\0', '\u{8}', '\u{c}',
            ])
        }
        6 => *rng.pick(&['/', 'u', 'n', 'b', 'f', 'r', 't', '#', ',', '\'', '0', '2', '7', 'x', '{', '}']),
        7 | 8 => {
            dist.hit("ch_bmp");
            loop {
                let c = rng.below(0x10000) as u32;
                if let Some(ch) = char::from_u32(c) {
                    return ch;
                }
            }
        }
        9 | 10 => {
            dist.hit("ch_non_bmp");
            char::from_u32(0x10000 + rng.below(0x100000) as u32).unwrap()
        }
        _ => char::from_u32(0x20 + rng.below(0x5f) as u32).unwrap(),
    }
}

fn gen_string(rng: &mut Rng, dist: &mut Dist) -> String {
    dist.hit("string");
    let n = [0, 1, 1, 2, 3, 5, 8, 13][rng.below(8)];
    let mut s = String::new();
    for _ in 0..n {
        if rng.chance(1, 12) {
            // text that looks like an escape sequence
            let pool: [&str; 7] = ["\\u0041", "\\n", "\\\"", "\\u{1b}", "\"\"\"", "\\\\", "\r\n"];
            s.push_str(*rng.pick(&pool));
        } else {
            s.push(gen_char(rng, dist));
        }
    }
    s
}

fn gen_int(rng: &mut Rng, dist: &mut Dist) -> i128 {
    dist.hit("int");
    match rng.below(8) {
        0 => *rng.pick(&[
            0i128,
            -1,
            1,
            9,
            10,
            -10,
            99,
            100,
            i64::MIN as i128,
            i64::MAX as i128,
            i64::MAX as i128 + 1,
            u64::MAX as i128,
            u64::MAX as i128 - 1,
            i64::MIN as i128 + 1,
            i32::MAX as i128,
            i32::MIN as i128,
        ]),
        1 => {
            // around a power of ten
            let p = 10i128.pow(rng.below(20) as u32);
            let d = rng.range(-1, 1) as i128;
            let v = p + d;
            if rng.chance(1, 2) && v <= i64::MAX as i128 { -v } else { v }
        }
        2 | 3 => rng.range(-1000, 1000) as i128,
        _ => {
            let bits = 1 + rng.below(64);
            let m = rng.next_u64() >> (64 - bits);
            if rng.chance(1, 2) && (m as i128) <= (i64::MAX as i128) + 1 { -(m as i128) } else { m as i128 }
        }
    }
}

fn gen_float(rng: &mut Rng, dist: &mut Dist) -> f64 {
    dist.hit("float");
    loop {
        let x = match rng.below(6) {
            0 => *rng.pick(&[
                0.0,
                -0.0,
                1.0,
                -1.5,
                0.1,
                1e20,
                1e21,
                1e-7,
                1e15,
                1e16,
                f64::MAX,
                f64::MIN,
                f64::MIN_POSITIVE,
                5e-324,
                123456789012345680.0,
                18446744073709551616.0,
                9007199254740993.0,
                0.3,
                2.5e-5,
                1e300,
            ]),
            1 => (rng.range(-100000, 100000) as f64) / 100.0,
            2 => rng.range(-1_000_000, 1_000_000) as f64,
            _ => f64::from_bits(rng.next_u64()),
        };
        if x.is_finite() {
            return x;
        }
    }
}

fn gen_value(rng: &mut Rng, dist: &mut Dist, depth: usize, bad: bool) -> Sexp {
    let k = rng.below(if depth == 0 { 12 } else { 18 });
    match k {
        0 => {
            dist.hit("null");
            atom("null")
        }
        1 | 2 => node("i", vec![num(gen_int(rng, dist))]),
        3 | 4 => {
            let x = gen_float(rng, dist);
            let t = Number::from_f64(x).unwrap().to_string();
            node("f", vec![num(x.to_bits()), st(t)])
        }
        5..=8 => node("s", vec![st(gen_string(rng, dist))]),
        9 => {
            dist.hit("bool");
            node("b", vec![atom(if rng.chance(1, 2) { "true" } else { "false" })])
        }
        10 | 11 => {
            dist.hit("enum");
            let n = if bad && rng.chance(1, 2) {
                dist.hit("bad_enum_name");
                *rng.pick(&BAD_NAMES)
            } else {
                // true/false/null are names but not enum values
                *rng.pick(&NAMES[..5])
            };
            node("e", vec![st(n)])
        }
        12..=14 => {
            dist.hit("list");
            let n = [0, 1, 2, 3, 4][rng.below(5)];
            node("l", (0..n).map(|_| gen_value(rng, dist, depth - 1, bad)).collect())
        }
        _ => {
            dist.hit("object");
            let n = [0, 1, 2, 3, 4][rng.below(5)];
            let mut keys: Vec<&str> = vec![];
            for _ in 0..n {
                let k = if bad && rng.chance(1, 3) {
                    dist.hit("bad_key");
                    *rng.pick(&BAD_NAMES)
                } else {
                    *rng.pick(&NAMES)
                };
                if !keys.contains(&k) {
                    keys.push(k);
                }
            }
            node("o", keys.into_iter().map(|k| list(vec![st(k), gen_value(rng, dist, depth - 1, bad)])).collect())
        }
    }
}

fn gen_case(rng: &mut Rng, _i: usize, o: &Opts, dist: &mut Dist) -> Sexp {
    let bad = rng.chance(1, 10);
    if bad {
        dist.hit("kind_ill_formed_names");
    } else {
        dist.hit("kind_well_formed");
    }
    let maxd = if o.tier == "thorough" { 4 } else { 3 };
    let depth = rng.below(maxd + 1);
    let v = if rng.chance(1, 4) {
        // a bare string: the heart of the property
        dist.hit("top_string");
        node("s", vec![st(gen_string(rng, dist))])
    } else {
        gen_value(rng, dist, depth, bad)
    };
    node("val", vec![v])
}

// ------------------------------------------------------------------ runner

fn to_const(v: &Sexp) -> Option<ConstValue> {
    if v.as_atom() == Some("null") {
        return Some(ConstValue::Null);
    }
    let a = v.args();
    Some(match v.tag()? {
        "i" => {
            let n: i128 = a.first()?.as_atom()?.parse().ok()?;
            if n < 0 {
                ConstValue::Number(Number::from(i64::try_from(n).ok()?))
            } else {
                ConstValue::Number(Number::from(u64::try_from(n).ok()?))
            }
        }
        "f" => {
            let bits: u64 = a.first()?.as_atom()?.parse().ok()?;
            let n = Number::from_f64(f64::from_bits(bits))?;
            if n.to_string() != a.get(1)?.as_str()? {
                return None;
            }
            ConstValue::Number(n)
        }
        "s" => ConstValue::String(a.first()?.as_str()?.to_string()),
        "b" => ConstValue::Boolean(a.first()?.as_atom()? == "true"),
        "e" => ConstValue::Enum(Name::new(a.first()?.as_str()?)),
        "l" => ConstValue::List(a.iter().map(to_const).collect::<Option<Vec<_>>>()?),
        "o" => {
            let mut m = IndexMap::new();
            for f in a {
                let kv = f.as_list()?;
                m.insert(Name::new(kv.first()?.as_str()?), to_const(kv.get(1)?)?);
            }
            ConstValue::Object(m)
        }
        _ => return None,
    })
}

fn of_const(v: &ConstValue) -> Sexp {
    match v {
        ConstValue::Null => atom("null"),
        ConstValue::Number(n) => {
            if let Some(u) = n.as_u64() {
                node("i", vec![num(u)])
            } else if let Some(i) = n.as_i64() {
                node("i", vec![num(i)])
            } else {
                let x = n.as_f64().unwrap();
                node("f", vec![num(x.to_bits()), st(n.to_string())])
            }
        }
        ConstValue::String(s) => node("s", vec![st(s.as_str())]),
        ConstValue::Boolean(b) => node("b", vec![atom(if *b { "true" } else { "false" })]),
        ConstValue::Binary(b) => node("bin", b.iter().map(num).collect()),
        ConstValue::Enum(n) => node("e", vec![st(n.as_str())]),
        ConstValue::List(xs) => node("l", xs.iter().map(of_const).collect()),
        ConstValue::Object(m) => node("o", m.iter().map(|(k, v)| list(vec![st(k.as_str()), of_const(v)])).collect()),
    }
}

/// bit-exact comparison (Rust's `==` identifies 0.0 and -0.0; the canonical form does not)
fn same(a: &ConstValue, b: &ConstValue) -> bool {
    of_const(a) == of_const(b)
}

fn reparse(text: &str) -> Option<ConstValue> {
    let doc = format!("query($v: T = {text}) {{ f(a: {text}) }}");
    let doc = parse_query(&doc).ok()?;
    let op = match &doc.operations {
        DocumentOperations::Single(op) => op,
        DocumentOperations::Multiple(_) => return None,
    };
    if !doc.fragments.is_empty() || op.node.variable_definitions.len() != 1 || op.node.selection_set.node.items.len() != 1 {
        return None;
    }
    let vd = &op.node.variable_definitions[0].node;
    if !vd.directives.is_empty() || vd.name.node.as_str() != "v" {
        return None;
    }
    let dv = vd.default_value.as_ref()?.node.clone();
    let f = match &op.node.selection_set.node.items[0].node {
        Selection::Field(f) => &f.node,
        _ => return None,
    };
    if f.arguments.len() != 1 || !f.directives.is_empty() || !f.selection_set.node.items.is_empty() || f.alias.is_some() {
        return None;
    }
    let av = f.arguments[0].1.node.clone().into_const()?;
    if !same(&av, &dv) {
        return None;
    }
    Some(dv)
}

fn res(v: Option<ConstValue>) -> Sexp {
    match v {
        Some(v) => node("ok", vec![of_const(&v)]),
        None => node("err", vec![]),
    }
}

fn flag(b: bool) -> Sexp {
    atom(if b { "true" } else { "false" })
}

fn run(case: &Sexp, _dist: &mut Dist) -> Sexp {
    let Some(cv) = case.args().first().and_then(to_const) else {
        return node("badcase", vec![]);
    };
    let v: Value = cv.clone().into_value();
    let text = cv.to_string();
    let json = match serde_json::to_string(&cv) {
        Ok(j) => j,
        Err(_) => return node("json-error", vec![]),
    };
    let back: Option<ConstValue> = serde_json::from_str(&json).ok();
    // the non-const twin
    let f_disp = v.to_string() == text;
    let f_json = serde_json::to_string(&v).ok().as_deref() == Some(json.as_str());
    let f_back = match (serde_json::from_str::<Value>(&json).ok().and_then(|x| x.into_const()), &back) {
        (Some(a), Some(b)) => same(&a, b),
        (None, None) => true,
        _ => false,
    };
    // through a serde_json::Value tree (object keys get sorted there: compare with `==`)
    let f_tree = match (serde_json::to_value(&cv).ok().and_then(|t| serde_json::from_value::<ConstValue>(t).ok()), &back) {
        (Some(a), Some(b)) => a == *b,
        _ => false,
    };
    let f_into = match (cv.clone().into_json().ok().and_then(|t| ConstValue::from_json(t).ok()), &back) {
        (Some(a), Some(b)) => a == *b,
        _ => false,
    };
    node(
        "ok",
        vec![
            node("text", vec![st(text.as_str())]),
            node("reparse", vec![res(reparse(&text))]),
            node("json", vec![st(json.as_str())]),
            node("back", vec![res(back)]),
            node("flags", vec![flag(f_disp), flag(f_json), flag(f_back), flag(f_tree), flag(f_into)]),
        ],
    )
}

fn main() {
    main_loop(&mut gen_case, &mut run);
}
