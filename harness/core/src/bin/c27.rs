//! C27 — each subscription response holds exactly its own event's data and errors; a query or
//! mutation sent through the streaming entry point yields exactly one response.
//!
//! The family schema (family.rs: objects A,B,C, interfaces, unions, data-driven resolvers over a
//! `World`) is extended by a `Subscription` root whose fields return harness-driven streams.
//!
//! Case (stream `sub`):
//!   (case SCHEMA DOC OPNAME VARS WORLD TEXT (srcs (src KEY fail | (ev RVAL (gates ((PATH…) KEY L C K) …)) …) …)
//!         (scheds (acts (a I) | (s I) …) …) sub)
//!   one `src` per root field of the subscription in document order (KEY = response key): either the
//!   subscription resolver fails, or the scripted event values with, per event, the gates of the
//!   nested resolver occurrences (parent response path, response key, source position) ↦ number of
//!   polls the resolver stays Pending.  Actions: `(a I)` the next event of root field I arrives (its
//!   stream is woken); `(s I)` the task of root field I is woken once (one poll = one round of the
//!   event that is being resolved).  After every action `Schema::execute_stream` is polled until it is
//!   quiescent (Pending without having been woken).  Gates never wake themselves: only the woken
//!   root field advances, so the interleaving is exactly the action list.
//! Output: (out (run (r DATA (errs …)) … end|open (log …)) …) — one `run` per schedule: the responses in
//!   the order produced, whether the stream ended, the invocation log.
//! Case (stream `once`): (case SCHEMA DOC OPNAME VARS WORLD TEXT (srcs) (scheds) once) — a query or mutation;
//! Output: (once (stream RESP … end|open) (exec RESP)) with RESP = family::response_sexp, `exec` = `Schema::execute`
//!   on a fresh world.

use std::{
    collections::HashMap,
    future::Future,
    marker::PhantomData,
    pin::Pin,
    sync::{
        Arc, Mutex,
        atomic::{AtomicUsize, Ordering},
    },
    task::{Context as TCx, Poll, Wake, Waker},
};

use async_graphql::{Context, Result, Schema, Subscription};
use futures_util::stream::{BoxStream, Stream};

#[path = "../family.rs"]
mod family;

use agvh::*;
use family::*;

// ------------------------------------------------------------------ control block (request data)

struct EvScript {
    rv: RVal,
    gates: HashMap<GateKey, u32>,
}

#[derive(Default)]
struct FieldCtl {
    fail: bool,
    script: Vec<EvScript>,
    delivered: usize,
    taken: usize,
    src_waker: Option<Waker>,
    gate_wakers: Vec<Waker>,
    /// (probe) parent object id and gate key of every resolver occurrence seen per event
    seen: Vec<Vec<(u32, GateKey)>>,
}

#[derive(Default)]
pub struct Ctl {
    fields: Mutex<Vec<(String, FieldCtl)>>,
}

impl Ctl {
    fn from_sexp(srcs: &Sexp) -> Ctl {
        let mut fields = vec![];
        for s in srcs.args() {
            let a = s.args();
            let key = a[0].as_str().unwrap().to_string();
            let mut f = FieldCtl::default();
            for e in &a[1..] {
                if e.as_atom() == Some("fail") {
                    f.fail = true;
                    continue;
                }
                let ea = e.args();
                let rv = RVal::from_sexp(&ea[0]).expect("event value");
                let mut gates = HashMap::new();
                for g in ea[1].args() {
                    let l = g.as_list().unwrap();
                    gates.insert(
                        (path_from_sexp(&l[0]).unwrap(), l[1].as_str().unwrap().to_string(), (l[2].as_usize().unwrap(), l[3].as_usize().unwrap())),
                        l[4].as_usize().unwrap() as u32,
                    );
                }
                f.script.push(EvScript { rv, gates });
                f.seen.push(vec![]);
            }
            fields.push((key, f));
        }
        Ctl { fields: Mutex::new(fields) }
    }
}

// ------------------------------------------------------------------ harness-driven event source

pub struct SrcStream<T> {
    ctl: Arc<Ctl>,
    key: String,
    _p: PhantomData<fn() -> T>,
}

impl<T: FromRVal> Stream for SrcStream<T> {
    type Item = T;
    fn poll_next(self: Pin<&mut Self>, cx: &mut TCx<'_>) -> Poll<Option<T>> {
        let mut g = self.ctl.fields.lock().unwrap();
        let Some((_, f)) = g.iter_mut().find(|(k, _)| *k == self.key) else {
            return Poll::Ready(None);
        };
        // the previous event (if any) is finished: wakers of its cancelled gates are stale
        f.gate_wakers.clear();
        if f.taken < f.delivered {
            f.taken += 1;
            f.src_waker = None;
            let rv = f.script[f.taken - 1].rv.clone();
            Poll::Ready(Some(T::conv(&rv).ok().expect("scripted event fits the stream's item type")))
        } else if f.taken >= f.script.len() {
            Poll::Ready(None)
        } else {
            f.src_waker = Some(cx.waker().clone());
            Poll::Pending
        }
    }
}

fn source<T: FromRVal>(ctx: &Context<'_>) -> Result<SrcStream<T>> {
    let ctl = ctx.data_unchecked::<Arc<Ctl>>().clone();
    let key = ctx.field().alias().unwrap_or(ctx.field().name()).to_string();
    let fail = ctl.fields.lock().unwrap().iter().find(|(k, _)| *k == key).map(|(_, f)| f.fail).unwrap_or(false);
    if fail {
        return Err("boom-subscribe".into());
    }
    Ok(SrcStream { ctl, key, _p: PhantomData })
}

pub struct Sub;
#[Subscription]
impl Sub {
    async fn sa(&self, ctx: &Context<'_>) -> Result<SrcStream<Option<A>>> {
        source(ctx)
    }
    async fn sb(&self, ctx: &Context<'_>) -> Result<SrcStream<B>> {
        source(ctx)
    }
    async fn sc(&self, ctx: &Context<'_>) -> Result<SrcStream<Option<C>>> {
        source(ctx)
    }
    async fn sas(&self, ctx: &Context<'_>) -> Result<SrcStream<Option<Vec<Option<A>>>>> {
        source(ctx)
    }
    async fn si(&self, ctx: &Context<'_>) -> Result<SrcStream<Option<I>>> {
        source(ctx)
    }
    async fn sn(&self, ctx: &Context<'_>) -> Result<SrcStream<Option<i64>>> {
        source(ctx)
    }
}

type SubSchema = Schema<Query, Mutation, Sub>;

fn schema() -> SubSchema {
    thread_local! {
        static S: SubSchema = Schema::build(Query, Mutation, Sub).finish();
    }
    S.with(|s| s.clone())
}

// ------------------------------------------------------------------ gates (externally released, never self-waking)

struct HookGate {
    ctl: Arc<Ctl>,
    root: String,
    k: u32,
}
impl Future for HookGate {
    type Output = ();
    fn poll(mut self: Pin<&mut Self>, cx: &mut TCx<'_>) -> Poll<()> {
        if self.k == 0 {
            return Poll::Ready(());
        }
        self.k -= 1;
        let mut g = self.ctl.fields.lock().unwrap();
        if let Some((_, f)) = g.iter_mut().find(|(k, _)| *k == self.root) {
            f.gate_wakers.push(cx.waker().clone());
        }
        Poll::Pending
    }
}

fn make_hook(ctl: Arc<Ctl>, probing: bool) -> GateHook {
    Arc::new(move |id, key| {
        let root = match key.0.first() {
            Some(Seg::Key(k)) => k.clone(),
            _ => return Box::pin(std::future::ready(())),
        };
        let mut k = 0;
        {
            let mut g = ctl.fields.lock().unwrap();
            if let Some((_, f)) = g.iter_mut().find(|(k, _)| *k == root) {
                if f.taken > 0 {
                    let ev = f.taken - 1;
                    if probing {
                        if !f.seen[ev].iter().any(|x| x.1 == *key) {
                            f.seen[ev].push((id, key.clone()));
                        }
                    } else {
                        k = f.script[ev].gates.get(key).copied().unwrap_or(0);
                    }
                }
            }
        }
        Box::pin(HookGate { ctl: ctl.clone(), root, k })
    })
}

// ------------------------------------------------------------------ manual polling

struct CountWake(AtomicUsize);
impl Wake for CountWake {
    fn wake(self: Arc<Self>) {
        self.0.fetch_add(1, Ordering::SeqCst);
    }
    fn wake_by_ref(self: &Arc<Self>) {
        self.0.fetch_add(1, Ordering::SeqCst);
    }
}

struct Driver {
    stream: BoxStream<'static, async_graphql::Response>,
    cw: Arc<CountWake>,
    out: Vec<async_graphql::Response>,
    ended: bool,
}
impl Driver {
    fn new(stream: BoxStream<'static, async_graphql::Response>) -> Driver {
        Driver { stream, cw: Arc::new(CountWake(AtomicUsize::new(0))), out: vec![], ended: false }
    }
    /// poll until quiescent: Pending and nobody woke the stream during that poll
    fn drain(&mut self) {
        if self.ended {
            return;
        }
        let waker = Waker::from(self.cw.clone());
        let mut cx = TCx::from_waker(&waker);
        for _ in 0..100_000 {
            let before = self.cw.0.load(Ordering::SeqCst);
            match self.stream.as_mut().poll_next(&mut cx) {
                Poll::Ready(Some(r)) => self.out.push(r),
                Poll::Ready(None) => {
                    self.ended = true;
                    return;
                }
                Poll::Pending => {
                    if self.cw.0.load(Ordering::SeqCst) == before {
                        return;
                    }
                }
            }
        }
        panic!("stream does not become quiescent");
    }
}

fn request(case: &Sexp) -> async_graphql::Request {
    let a = case.args();
    let vars = vars_from_sexp(&a[3]);
    let text = a[5].as_str().unwrap();
    let mut req = async_graphql::Request::new(text);
    if let Some(n) = a[2].as_str() {
        req = req.operation_name(n);
    }
    let mut vs = async_graphql::Variables::default();
    for (k, v) in &vars {
        vs.insert(async_graphql::Name::new(k), v.to_avalue());
    }
    req.variables(vs)
}

#[derive(Clone, Copy, Debug, PartialEq)]
enum Act {
    Arr(usize),
    Step(usize),
}
fn acts_from_sexp(s: &Sexp) -> Vec<Act> {
    s.args()
        .iter()
        .map(|x| {
            let i = x.args()[0].as_usize().unwrap();
            match x.tag() {
                Some("a") => Act::Arr(i),
                _ => Act::Step(i),
            }
        })
        .collect()
}
fn acts_sexp(acts: &[Act]) -> Sexp {
    node(
        "acts",
        acts.iter()
            .map(|a| match a {
                Act::Arr(i) => node("a", vec![num(i)]),
                Act::Step(i) => node("s", vec![num(i)]),
            })
            .collect(),
    )
}

fn short_resp(resp: &async_graphql::Response, w: &World) -> Sexp {
    let full = response_sexp(resp, w);
    let a = full.args();
    node("r", vec![a[0].clone(), a[1].clone()])
}

/// one subscription run under one schedule; returns the printed run and the control block
fn run_sub(case: &Sexp, acts: &[Act], probing: bool) -> (Sexp, Arc<Ctl>, usize) {
    let a = case.args();
    let ctl = Arc::new(Ctl::from_sexp(&a[6]));
    let mut w = World::from_sexp(&a[4]).expect("world");
    w.gate_hook = Some(make_hook(ctl.clone(), probing));
    let w = Arc::new(w);
    let req = request(case).data(w.clone()).data(ctl.clone());
    let mut d = Driver::new(schema().execute_stream(req));
    d.drain();
    for act in acts {
        match act {
            Act::Arr(i) => {
                let wk = {
                    let mut g = ctl.fields.lock().unwrap();
                    match g.get_mut(*i) {
                        Some((_, f)) if f.delivered < f.script.len() => {
                            f.delivered += 1;
                            f.src_waker.take()
                        }
                        _ => None,
                    }
                };
                if let Some(wk) = wk {
                    wk.wake();
                }
            }
            Act::Step(i) => {
                let wks = {
                    let mut g = ctl.fields.lock().unwrap();
                    g.get_mut(*i).map(|(_, f)| std::mem::take(&mut f.gate_wakers)).unwrap_or_default()
                };
                for wk in wks {
                    wk.wake();
                }
            }
        }
        d.drain();
    }
    let mut items: Vec<Sexp> = d.out.iter().map(|r| short_resp(r, &w)).collect();
    let with_errors = d.out.iter().filter(|r| !r.errors.is_empty()).count();
    items.push(atom(if d.ended { "end" } else { "open" }));
    drop(d);
    let log = w.log.lock().unwrap();
    items.push(node("log", log.iter().map(|(id, f, k)| list(vec![num(id), st(f.clone()), st(k.clone())])).collect()));
    (node("run", items), ctl, with_errors)
}

fn run(case: &Sexp, dist: &mut Dist) -> Sexp {
    let a = case.args();
    match a[8].as_atom() {
        Some("once") => {
            let w = Arc::new(World::from_sexp(&a[4]).expect("world"));
            let mut d = Driver::new(schema().execute_stream(request(case).data(w.clone())));
            d.drain();
            let mut items: Vec<Sexp> = d.out.iter().map(|r| response_sexp(r, &w)).collect();
            items.push(atom(if d.ended { "end" } else { "open" }));
            let w2 = Arc::new(World::from_sexp(&a[4]).expect("world"));
            let resp = spin_on(schema().execute(request(case).data(w2.clone())));
            if !resp.errors.is_empty() {
                dist.hit("once_with_errors");
            }
            node("once", vec![node("stream", items), node("exec", vec![response_sexp(&resp, &w2)])])
        }
        _ => {
            let mut runs = vec![];
            for sc in a[7].args() {
                let acts = acts_from_sexp(sc);
                let (r, _, with_errors) = run_sub(case, &acts, false);
                dist.hit("schedules");
                if with_errors > 0 {
                    dist.hit("runs_with_error_responses");
                }
                runs.push(r);
            }
            node("out", runs)
        }
    }
}

// ------------------------------------------------------------------ generation

struct RootF {
    name: &'static str,
    base: &'static str,
    nullable: bool,
    list: bool,
}
const ROOTS: [RootF; 6] = [
    RootF { name: "sa", base: "A", nullable: true, list: false },
    RootF { name: "sb", base: "B", nullable: false, list: false },
    RootF { name: "sc", base: "C", nullable: true, list: false },
    RootF { name: "sas", base: "A", nullable: true, list: true },
    RootF { name: "si", base: "I", nullable: true, list: false },
    RootF { name: "sn", base: "Int", nullable: true, list: false },
];

fn obj_of(sd: &SchemaD, rng: &mut Rng, base: &str) -> RVal {
    let poss = sd.possible(base);
    let ty = rng.pick(&poss).clone();
    let id = *rng.pick(&POOL.iter().find(|p| p.0 == ty).unwrap().1);
    RVal::Obj(ty, id)
}

fn event_value(sd: &SchemaD, rng: &mut Rng, r: &RootF, dist: &mut Dist) -> RVal {
    if r.nullable && rng.chance(1, 8) {
        dist.hit("event_null");
        return RVal::Null;
    }
    if r.base == "Int" {
        return RVal::Leaf(GV::Int(rng.range(-3, 40)));
    }
    if r.list {
        let n = rng.below(3);
        return RVal::List((0..n).map(|_| if rng.chance(1, 6) { RVal::Null } else { obj_of(sd, rng, r.base) }).collect());
    }
    obj_of(sd, rng, r.base)
}

fn gate_sexp(k: &GateKey, n: u32) -> Sexp {
    list(vec![path_sexp(&k.0), st(k.1.clone()), num(k.2.0), num(k.2.1), num(n)])
}

struct SrcN {
    key: String,
    fail: bool,
    events: Vec<(RVal, Vec<(GateKey, u32)>)>,
}
fn srcs_sexp(srcs: &[SrcN]) -> Sexp {
    node(
        "srcs",
        srcs.iter()
            .map(|s| {
                let mut v = vec![st(s.key.clone())];
                if s.fail {
                    v.push(atom("fail"));
                }
                for (rv, gates) in &s.events {
                    v.push(node("ev", vec![rv.to_sexp(), node("gates", gates.iter().filter(|g| g.1 > 0).map(|(k, n)| gate_sexp(k, *n)).collect())]));
                }
                node("src", v)
            })
            .collect(),
    )
}

/// all orderings of a multiset of actions (counts per action), capped
fn multiset_perms(counts: &[(Act, usize)], cap: usize) -> Vec<Vec<Act>> {
    fn go(counts: &mut Vec<(Act, usize)>, cur: &mut Vec<Act>, left: usize, out: &mut Vec<Vec<Act>>, cap: usize) {
        if out.len() >= cap {
            return;
        }
        if left == 0 {
            out.push(cur.clone());
            return;
        }
        for i in 0..counts.len() {
            if counts[i].1 > 0 {
                counts[i].1 -= 1;
                cur.push(counts[i].0);
                go(counts, cur, left - 1, out, cap);
                cur.pop();
                counts[i].1 += 1;
            }
        }
    }
    let mut c = counts.to_vec();
    let total = c.iter().map(|x| x.1).sum();
    let mut out = vec![];
    go(&mut c, &mut vec![], total, &mut out, cap);
    out
}

fn sd_with<R>(f: impl FnOnce(&SchemaD) -> R) -> R {
    thread_local! {
        static SD: SchemaD = SchemaD::from_sdl(&schema().sdl());
    }
    SD.with(|sd| f(sd))
}

fn case_sexp(sd: &SchemaD, doc: &DocN, vars: &[(String, GV)], w: &World, text: &str, srcs: &[SrcN], scheds: Vec<Sexp>, kind: &str) -> Sexp {
    node(
        "case",
        vec![
            sd.to_sexp(),
            doc.to_sexp(),
            doc.ops[0].name.as_ref().map(|n| st(n.clone())).unwrap_or(atom("none")),
            vars_sexp(vars),
            w.to_sexp(),
            st(text),
            srcs_sexp(srcs),
            node("scheds", scheds),
            atom(kind),
        ],
    )
}

fn gen_once(sd: &SchemaD, rng: &mut Rng, dist: &mut Dist) -> Sexp {
    let op_ty = if rng.chance(1, 3) { "mutation" } else { "query" };
    dist.hit(&format!("once_{op_ty}"));
    let (mut doc, vars) = gen_request_b(sd, rng, dist, op_ty, true, 10, 3);
    let text = print_doc(&mut doc);
    let root = if op_ty == "mutation" { sd.mutation.clone().unwrap() } else { sd.query.clone() };
    let f = *rng.pick(&[0usize, 1, 3]);
    let w = WorldGen { sd, fail_16: f, nonfinite: false }.generate(rng, &root, dist);
    case_sexp(sd, &doc, &vars, &w, &text, &[], vec![], "once")
}

/// a third of the cases insist on the planted situation (capture, then suspension, with a second
/// root field): regenerate a few times until the document offers it
fn gen_sub(sd: &SchemaD, rng: &mut Rng, o: &Opts, dist: &mut Dist) -> Sexp {
    let want = rng.chance(1, 3);
    let mut last = None;
    for _ in 0..(if want { 6 } else { 1 }) {
        let mut d = Dist::default();
        let (case, planted) = gen_sub_inner(sd, rng, o, &mut d, want);
        last = Some((case, d));
        if !want || planted {
            break;
        }
    }
    let (case, d) = last.unwrap();
    for (k, n) in d.0.iter() {
        dist.add(k, *n);
    }
    case
}

fn gen_sub_inner(sd: &SchemaD, rng: &mut Rng, o: &Opts, dist: &mut Dist, want: bool) -> (Sexp, bool) {
    let thorough = o.tier == "thorough";
    let nf = match rng.below(20) {
        0..=3 if !want => 1,
        0..=14 => 2,
        _ => 3,
    };
    dist.hit(&format!("root_fields_{nf}"));
    let mut sels = vec![];
    let mut picked: Vec<&RootF> = vec![];
    let mut keys: Vec<String> = vec![];
    let mut frags = vec![];
    for j in 0..nf {
        let r = rng.pick(&ROOTS);
        let alias = if keys.iter().any(|k| k == r.name) || rng.chance(1, 4) { Some(format!("k{j}")) } else { None };
        let key = alias.clone().unwrap_or(r.name.to_string());
        let sub = if r.base == "Int" {
            vec![]
        } else {
            let mut g = DocGen { sd, rng: &mut *rng, dist: &mut *dist, frags: std::mem::take(&mut frags), vars: vec![], max_frags: 2, directives: false, budget: 0 };
            let mut ss = vec![];
            while ss.is_empty() {
                g.budget = 3 + g.rng.below(6);
                ss = g.selection_set(r.base, 3);
            }
            frags = std::mem::take(&mut g.frags);
            ss
        };
        sels.push(SelN::Field { alias, name: r.name.to_string(), args: vec![], dirs: vec![], sels: sub, pos: (0, 0) });
        picked.push(r);
        keys.push(key);
    }
    // the root loop of `collect_subscription_streams` looks at direct fields only: now and then a
    // root-level inline fragment (its fields get no stream)
    if rng.chance(1, 12) {
        dist.hit("root_inline_fragment");
        sels.push(SelN::Inline {
            cond: if rng.chance(1, 2) { sd.subscription.clone() } else { None },
            dirs: vec![],
            sels: vec![SelN::Field { alias: Some("kf".into()), name: "sn".into(), args: vec![], dirs: vec![], sels: vec![], pos: (0, 0) }],
            pos: (0, 0),
        });
    }
    let mut doc = DocN { ops: vec![OpN { ty: "subscription".into(), name: if rng.chance(1, 2) { Some("Op".into()) } else { None }, vars: vec![], sels }], frags };
    let text = print_doc(&mut doc);
    let fail_16 = *rng.pick(&[0usize, 3, 5, 5, 8]);
    let w = WorldGen { sd, fail_16, nonfinite: false }.generate(rng, &sd.query, dist);
    let max_ev = if thorough { 3 } else { 2 };
    let mut srcs: Vec<SrcN> = vec![];
    for (j, r) in picked.iter().enumerate() {
        if rng.chance(1, 14) {
            dist.hit("src_fail");
            srcs.push(SrcN { key: keys[j].clone(), fail: true, events: vec![] });
            continue;
        }
        let n = if rng.chance(1, 8) { 0 } else { 1 + rng.below(max_ev) };
        let events = (0..n).map(|_| (event_value(sd, rng, r, dist), vec![])).collect();
        srcs.push(SrcN { key: keys[j].clone(), fail: false, events });
    }
    let total_events: usize = srcs.iter().map(|s| s.events.len()).sum();
    dist.hit(&format!("events_{}", total_events.min(6)));
    // probe: which resolver occurrences run per event (all gates open, events one after the other)
    let mut probe_acts = vec![];
    for (i, s) in srcs.iter().enumerate() {
        for _ in 0..s.events.len() {
            probe_acts.push(Act::Arr(i));
        }
    }
    let probe = |w: &World, srcs: &[SrcN]| -> Vec<(usize, usize, u32, GateKey)> {
        let probe_case = case_sexp(sd, &doc, &[], w, &text, srcs, vec![], "sub");
        let (_, pctl, _) = run_sub(&probe_case, &probe_acts, true);
        let seen: Vec<Vec<Vec<(u32, GateKey)>>> = pctl.fields.lock().unwrap().iter().map(|(_, f)| f.seen.clone()).collect();
        seen.iter()
            .enumerate()
            .flat_map(|(i, evs)| evs.iter().enumerate().flat_map(move |(e, ks)| ks.iter().map(move |(id, k)| (i, e, *id, k.clone()))))
            .collect()
    };
    let mut w = w;
    let mut occs4 = probe(&w, &srcs);
    // plant the situation the property is about: a resolver fails BELOW a nullable position inside an
    // event (the error is captured into the request's list) while a resolver directly below the event
    // value is still pending (the event stays open after the capture)
    let mut planted: Option<(usize, usize, GateKey)> = None;
    if nf >= 2 && (want || rng.chance(1, 3)) {
        let deep: Vec<&(usize, usize, u32, GateKey)> = occs4.iter().filter(|o| o.3.0.len() >= 2).collect();
        if !deep.is_empty() {
            let d = (*rng.pick(&deep)).clone();
            let fname = d.3.1.split('_').next().unwrap().to_string();
            let mut es = w.entries.clone();
            for e in es.iter_mut() {
                if e.0 == (d.2, fname.clone()) {
                    e.1 = RVal::Fail("planted".into());
                }
            }
            w = World::new(es);
            occs4 = probe(&w, &srcs);
            // a sibling directly below the event value that is not an ancestor of the failing resolver
            let tops: Vec<&(usize, usize, u32, GateKey)> =
                occs4.iter().filter(|o| o.0 == d.0 && o.1 == d.1 && o.3.0.len() == 1 && Some(&Seg::Key(o.3.1.clone())) != d.3.0.get(1)).collect();
            if !tops.is_empty() {
                dist.hit("planted_capture_then_suspension");
                planted = Some((d.0, d.1, rng.pick(&tops).3.clone()));
            }
        }
    }
    let occs: Vec<(usize, usize, GateKey)> = occs4.iter().map(|o| (o.0, o.1, o.3.clone())).collect();
    let exhaustive = nf <= 2 && total_events <= 4 && total_events >= 1 && rng.chance(3, 5);
    let mut scheds: Vec<Vec<Act>> = vec![];
    if exhaustive {
        dist.hit("case_all_interleavings");
        // at most two gate polls in total: one gate with k <= 2, or two gates with k = 1
        let mut steps = vec![0usize; nf];
        if let Some((i, e, key)) = &planted {
            let k = 1 + rng.below(2) as u32;
            srcs[*i].events[*e].1.push((key.clone(), k));
            steps[*i] += k as usize;
        } else if !occs.is_empty() {
            let shape = rng.below(8);
            // gates directly below the event value keep the whole event open: prefer them
            let top: Vec<usize> = (0..occs.len()).filter(|x| occs[*x].2.0.len() == 1).collect();
            let mut pick = |rng: &mut Rng| if !top.is_empty() && rng.chance(2, 3) { *rng.pick(&top) } else { rng.below(occs.len()) };
            let picks: Vec<(usize, u32)> = match shape {
                0 | 1 | 2 => vec![(pick(rng), 1)],
                3 | 4 => vec![(pick(rng), 2)],
                5 | 6 => vec![(pick(rng), 1), (pick(rng), 1)],
                _ => vec![],
            };
            for (x, k) in picks {
                let (i, e, key) = occs[x].clone();
                if srcs[i].events[e].1.iter().any(|g| g.0 == key) {
                    continue;
                }
                srcs[i].events[e].1.push((key, k));
                steps[i] += k as usize;
            }
        }
        let mut counts = vec![];
        for (i, s) in srcs.iter().enumerate() {
            if !s.events.is_empty() {
                counts.push((Act::Arr(i), s.events.len()));
            }
            if steps[i] > 0 {
                counts.push((Act::Step(i), steps[i]));
            }
        }
        let cap = if thorough { 1300 } else { 200 };
        let mut all = multiset_perms(&counts, 20000);
        if all.len() > cap {
            dist.hit("interleavings_sampled");
            rng.shuffle(&mut all);
            all.truncate(cap);
        }
        scheds = all;
    } else {
        dist.hit("case_random_schedules");
        let dense = rng.chance(1, 2);
        let mut steps = vec![0usize; nf];
        if let Some((i, e, key)) = &planted {
            let k = 1 + rng.below(3) as u32;
            srcs[*i].events[*e].1.push((key.clone(), k));
            steps[*i] += k as usize;
        }
        for (i, e, key) in &occs {
            if srcs[*i].events[*e].1.iter().any(|g| g.0 == *key) {
                continue;
            }
            if rng.chance(if dense { 2 } else { 1 }, if key.0.len() == 1 { 3 } else { 5 }) {
                let k = 1 + rng.below(3) as u32;
                srcs[*i].events[*e].1.push((key.clone(), k));
                steps[*i] += k as usize;
            }
        }
        let mut tokens = vec![];
        for (i, s) in srcs.iter().enumerate() {
            for _ in 0..s.events.len() {
                tokens.push(Act::Arr(i));
            }
            for _ in 0..steps[i] + 1 {
                tokens.push(Act::Step(i));
            }
        }
        // field by field (each event resolved before the next arrives: what the existing tests do)
        let mut seq = vec![];
        for (i, s) in srcs.iter().enumerate() {
            for (_, gates) in &s.events {
                seq.push(Act::Arr(i));
                for _ in 0..gates.iter().map(|g| g.1 as usize).sum::<usize>() {
                    seq.push(Act::Step(i));
                }
            }
        }
        scheds.push(seq);
        // everything arrives first, then round robin
        let mut rr: Vec<Act> = tokens.iter().filter(|t| matches!(t, Act::Arr(_))).cloned().collect();
        let maxs = steps.iter().max().copied().unwrap_or(0) + 1;
        for _ in 0..maxs {
            for i in 0..nf {
                rr.push(Act::Step(i));
            }
        }
        scheds.push(rr);
        for _ in 0..(if thorough { 10 } else { 6 }) {
            let mut t = tokens.clone();
            rng.shuffle(&mut t);
            if rng.chance(1, 3) && !t.is_empty() {
                // cut short: the stream stays open
                let keep = rng.below(t.len() + 1);
                t.truncate(keep);
            }
            scheds.push(t);
        }
    }
    let gated: usize = srcs.iter().map(|s| s.events.iter().map(|e| e.1.len()).sum::<usize>()).sum();
    dist.hit(&format!("gated_resolvers_{}", gated.min(5)));
    dist.add("schedules_generated", scheds.len() as u64);
    (case_sexp(sd, &doc, &[], &w, &text, &srcs, scheds.iter().map(|s| acts_sexp(s)).collect(), "sub"), planted.is_some())
}

// ------------------------------------------------------------------ witness (corpus)

fn fld(alias: Option<&str>, name: &str, sels: Vec<SelN>) -> SelN {
    SelN::Field { alias: alias.map(|s| s.to_string()), name: name.into(), args: vec![], dirs: vec![], sels, pos: (0, 0) }
}

/// `subscription { sa { child { numReq } num } sb { id } }`: the event of `sa` captures the error of its
/// nullable `child` (numReq fails) in its first poll and is then suspended behind the gate of `num`;
/// the event of `sb` arrives and completes meanwhile: its response carries the error of `sa`'s event.
fn witness(sd: &SchemaD, i: usize) -> Sexp {
    let sels = if i % 2 == 0 {
        vec![fld(None, "sa", vec![fld(None, "child", vec![fld(None, "numReq", vec![])]), fld(None, "num", vec![])]), fld(None, "sb", vec![fld(None, "id", vec![])])]
    } else {
        // single root field: the same event alone
        vec![fld(None, "sa", vec![fld(None, "child", vec![fld(None, "numReq", vec![])]), fld(None, "num", vec![])])]
    };
    let mut doc = DocN { ops: vec![OpN { ty: "subscription".into(), name: None, vars: vec![], sels }], frags: vec![] };
    let text = print_doc(&mut doc);
    let num_pos = match &doc.ops[0].sels[0] {
        SelN::Field { sels, .. } => match &sels[1] {
            SelN::Field { pos, .. } => *pos,
            _ => unreachable!(),
        },
        _ => unreachable!(),
    };
    let w = World::new(vec![
        ((1, "child".to_string()), RVal::Obj("A".into(), 2)),
        ((1, "num".to_string()), RVal::Leaf(GV::Int(7))),
        ((2, "numReq".to_string()), RVal::Fail("boom".into())),
        ((4, "id".to_string()), RVal::Leaf(GV::Int(4))),
    ]);
    let gate: GateKey = (vec![Seg::Key("sa".into())], "num".into(), num_pos);
    let mut srcs = vec![SrcN { key: "sa".into(), fail: false, events: vec![(RVal::Obj("A".into(), 1), vec![(gate, 1)])] }];
    let scheds = if i % 2 == 0 {
        srcs.push(SrcN { key: "sb".into(), fail: false, events: vec![(RVal::Obj("B".into(), 4), vec![])] });
        vec![vec![Act::Arr(0), Act::Arr(1), Act::Step(0)], vec![Act::Arr(0), Act::Step(0), Act::Arr(1)], vec![Act::Arr(1), Act::Arr(0), Act::Step(0)]]
    } else {
        vec![vec![Act::Arr(0), Act::Step(0)]]
    };
    case_sexp(sd, &doc, &[], &w, &text, &srcs, scheds.iter().map(|s| acts_sexp(s)).collect(), "sub")
}

fn gen_case(rng: &mut Rng, i: usize, o: &Opts, dist: &mut Dist) -> Sexp {
    sd_with(|sd| match o.stream.as_str() {
        "witness" => witness(sd, i),
        "once" => gen_once(sd, rng, dist),
        _ => gen_sub(sd, rng, o, dist),
    })
}

fn main() {
    main_loop(&mut gen_case, &mut run);
}
