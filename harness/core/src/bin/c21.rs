//! C21 — secret arguments never appear in logged or traced query text.
//!
//! Case:   (c21 SCHEMA SECRETS DOC VARS)
//!   SCHEMA   `(schema Q M S (types…))`: the static schema below, read back from the registry the
//!            derive macros fill (`create_type_info`); input objects carry their fields as `fd`
//!   SECRETS  `(secrets (args (TYPE FIELD ARG)…) (inputs (TYPE FIELD)…))`: every `is_secret` flag
//!            found in that registry (so `#[graphql(secret)]` → registry is observed, not assumed)
//!   DOC      the document as a tree (shared wire format of Core/Types.lean; positions are 0 0)
//!   VARS     the request's variables
//! The harness prints DOC as GraphQL text and sends it with VARS through `Schema::execute` of a
//! schema carrying a tiny extension whose `parse_query` hook calls
//! `ExtensionContext::stringify_execute_doc` (exactly what `Logger` and `Tracing` do) and stops
//! the request.  It does so twice: for the case as written (run A) and for the case with every
//! sentinel `S<digits>E` renamed to `T<digits>EE` (run B, other value, other length).
//! Output: (out "A" "B") — the two logged strings (or `none` when parsing failed).
//!
//! Schema family: input objects nested to 4-5 levels, secret fields at every level, enclosing
//! input types of both kinds (declaring secret fields of their own: Deep, Inner, Cred, Tree, Mixed,
//! Pick; declaring none: Box3, Box2, LoginRequest, Chain, Either) in every alternation, lists and
//! lists of lists of them, oneof input objects, secret fields whose own type is an input object,
//! recursive input types; as arguments of root, nested-object, interface and subscription fields.
//! (A printer that looks for secret fields only in the input type at hand, not below it, is
//! noticed through LoginRequest / Box2 / Box3 / Chain / Either: corpus/C21/nested.case.)
//!
//! Sentinels: the generator puts a fresh `S…E` string at every position it regards as secret
//! (type-directed, GraphQL scoping rules) and `P…` strings elsewhere; the judge recomputes the
//! secret positions from SCHEMA/SECRETS with its own spec and does not rely on the letters.

use std::sync::{Arc, Mutex};

use agvh::*;
use async_graphql::extensions::{Extension, ExtensionContext, ExtensionFactory, NextParseQuery};
use async_graphql::parser::types::ExecutableDocument;
use async_graphql::registry::{MetaType, Registry};
use async_graphql::*;
use futures_util::stream::{self, Stream};

// ------------------------------------------------------------------ the static schema

#[derive(InputObject)]
struct Deep {
    tag: Option<String>,
    #[graphql(secret)]
    code: Option<String>,
    n: Option<i32>,
}

#[derive(InputObject)]
struct Inner {
    label: Option<String>,
    #[graphql(secret)]
    pin: Option<String>,
    deep: Option<Deep>,
    #[graphql(secret)]
    sealed: Option<Deep>,
    deeps: Option<Vec<Deep>>,
}

#[derive(InputObject)]
struct Cred {
    user: Option<String>,
    #[graphql(secret)]
    pass: Option<String>,
    #[graphql(secret)]
    keys: Option<Vec<String>>,
    inner: Option<Inner>,
    inners: Option<Vec<Inner>>,
    matrix: Option<Vec<Vec<Inner>>>,
    ok: Option<bool>,
}

// ---- nested families added for the "shallow secret check" gap: input types WITHOUT a secret
// field of their own (Box3, Box2, LoginRequest, Chain, Either) enclosing types WITH secret
// fields (Deep, Inner, Cred, Tree, Mixed, Pick) to depth 4-5, lists and lists of lists of
// them, oneof input objects, secret fields whose own type is a (secret-free) input object,
// recursive input types

/// secret-free; below it `Deep` (own secret) and the oneof `Pick`
#[derive(InputObject)]
struct Box3 {
    label: Option<String>,
    deep: Option<Deep>,
    deeps: Option<Vec<Deep>>,
    pick: Option<Pick>,
}

/// secret-free; below it a secret-free and a secret-carrying type, lists and a list of lists
#[derive(InputObject)]
struct Box2 {
    client: Option<String>,
    box3: Option<Box3>,
    inner: Option<Inner>,
    box3s: Option<Vec<Box3>>,
    grid: Option<Vec<Vec<Box3>>>,
}

/// secret-free top: `LoginRequest { clientId, credentials: Cred { user, pass(secret) … } … }`
#[derive(InputObject)]
struct LoginRequest {
    client_id: Option<String>,
    credentials: Option<Cred>,
    box2: Option<Box2>,
    boxes: Option<Vec<Box2>>,
    chain: Option<Chain>,
    either: Option<Either>,
}

/// own secrets next to secret-free children; secret fields whose type is a secret-free input
/// object (whole subtree redacted)
#[derive(InputObject)]
struct Mixed {
    name: Option<String>,
    #[graphql(secret)]
    otp: Option<String>,
    box2: Option<Box2>,
    #[graphql(secret)]
    sealed_box: Option<Box2>,
    #[graphql(secret)]
    sealed_boxes: Option<Vec<Box3>>,
    req: Option<LoginRequest>,
}

/// recursive, secret-free
#[derive(InputObject)]
struct Chain {
    name: Option<String>,
    next: Option<Box<Chain>>,
    fork: Option<Vec<Chain>>,
    leaf: Option<Deep>,
    tree: Option<Tree>,
}

/// recursive with own secrets; alternates with the secret-free `Chain`
#[derive(InputObject)]
struct Tree {
    label: Option<String>,
    #[graphql(secret)]
    key: Option<String>,
    child: Option<Box<Tree>>,
    children: Option<Vec<Tree>>,
    chain: Option<Box<Chain>>,
    #[graphql(secret)]
    vault: Option<Box<Tree>>,
}

/// oneof with secret variants
#[derive(OneofObject)]
enum Pick {
    Plain(String),
    #[graphql(secret)]
    Token(String),
    Deep(Deep),
    #[graphql(secret)]
    Sealed(Deep),
    Chain(Chain),
}

/// oneof without a secret variant of its own
#[derive(OneofObject)]
enum Either {
    Text(String),
    Deep(Deep),
    Box3(Box3),
}

#[derive(Interface)]
#[graphql(
    field(name = "id", ty = "i32"),
    field(
        name = "verify",
        ty = "bool",
        arg(name = "key", ty = "Option<String>", secret),
        arg(name = "plain", ty = "Option<String>"),
        arg(name = "cred", ty = "Option<Cred>"),
        arg(name = "req", ty = "Option<LoginRequest>")
    )
)]
enum Node {
    User(User),
    Session(Session),
}

#[derive(Union)]
enum Any {
    User(User),
    Session(Session),
}

struct User;
#[Object]
#[allow(unused_variables)]
impl User {
    async fn id(&self) -> i32 {
        1
    }
    async fn name(&self) -> String {
        "n".into()
    }
    async fn verify(&self, key: Option<String>, plain: Option<String>, cred: Option<Cred>, req: Option<LoginRequest>) -> bool {
        true
    }
    async fn auth(&self, #[graphql(secret)] password: Option<String>, cred: Option<Cred>, mode: Option<String>, box2: Option<Box2>) -> bool {
        true
    }
    async fn friends(&self, first: Option<i32>, #[graphql(secret)] tokens: Option<Vec<String>>) -> Vec<User> {
        vec![]
    }
    async fn session(&self) -> Session {
        Session
    }
}

struct Session;
#[Object]
#[allow(unused_variables)]
impl Session {
    async fn id(&self) -> i32 {
        2
    }
    async fn verify(&self, key: Option<String>, plain: Option<String>, cred: Option<Cred>, req: Option<LoginRequest>) -> bool {
        true
    }
    async fn refresh(&self, #[graphql(secret)] token: Option<String>, hint: Option<String>) -> Session {
        Session
    }
    async fn user(&self) -> User {
        User
    }
}

struct Query;
#[Object]
#[allow(unused_variables)]
impl Query {
    async fn login(
        &self,
        #[graphql(secret)] token: Option<String>,
        creds: Option<Vec<Cred>>,
        cred: Option<Cred>,
        note: Option<String>,
        #[graphql(secret)] vault: Option<Cred>,
    ) -> Session {
        Session
    }
    async fn signin(
        &self,
        req: Option<LoginRequest>,
        reqs: Option<Vec<LoginRequest>>,
        mixed: Option<Mixed>,
        #[graphql(secret)] sealed: Option<LoginRequest>,
        either: Option<Either>,
        pick: Option<Pick>,
    ) -> Session {
        Session
    }
    async fn walk(&self, chain: Option<Chain>, tree: Option<Tree>, trees: Option<Vec<Vec<Tree>>>, grid: Option<Vec<Vec<Box2>>>, box3: Option<Box3>) -> User {
        User
    }
    async fn me(&self) -> User {
        User
    }
    async fn node(&self, id: Option<String>, #[graphql(secret)] key: Option<String>) -> Node {
        Node::User(User)
    }
    async fn any(&self, hint: Option<String>) -> Any {
        Any::User(User)
    }
    async fn plain(&self, x: Option<i32>, s: Option<String>, l: Option<Vec<String>>) -> i32 {
        0
    }
}

struct Mutation;
#[Object]
#[allow(unused_variables)]
impl Mutation {
    async fn set_password(
        &self,
        #[graphql(secret)] new: Option<String>,
        #[graphql(secret)] old: Option<String>,
        user: Option<String>,
    ) -> bool {
        true
    }
    async fn update(&self, cred: Option<Cred>, creds: Option<Vec<Vec<Cred>>>, mixed: Option<Mixed>, reqs: Option<Vec<Vec<LoginRequest>>>) -> Session {
        Session
    }
}

struct Subscription;
#[Subscription]
#[allow(unused_variables)]
impl Subscription {
    async fn watch(&self, #[graphql(secret)] token: Option<String>, topic: Option<String>, cred: Option<Cred>, req: Option<LoginRequest>) -> impl Stream<Item = User> {
        stream::iter(vec![User])
    }
}

// ------------------------------------------------------------------ the extension

struct Capture(Arc<Mutex<Option<String>>>);
impl ExtensionFactory for Capture {
    fn create(&self) -> Arc<dyn Extension> {
        Arc::new(CaptureExt(self.0.clone()))
    }
}
struct CaptureExt(Arc<Mutex<Option<String>>>);
#[async_graphql::async_trait::async_trait]
impl Extension for CaptureExt {
    async fn parse_query(
        &self,
        ctx: &ExtensionContext<'_>,
        query: &str,
        variables: &Variables,
        next: NextParseQuery<'_>,
    ) -> ServerResult<ExecutableDocument> {
        let document = next.run(ctx, query, variables).await?;
        *self.0.lock().unwrap() = Some(ctx.stringify_execute_doc(&document, variables));
        Err(ServerError::new("c21: stop after logging", None))
    }
}

// ------------------------------------------------------------------ schema description from the registry

#[derive(Clone, Debug)]
enum TRef {
    Named(String),
    List(Box<TRef>),
    NonNull(Box<TRef>),
}
impl TRef {
    fn parse(s: &str) -> TRef {
        if let Some(r) = s.strip_suffix('!') {
            TRef::NonNull(Box::new(TRef::parse(r)))
        } else if s.starts_with('[') && s.ends_with(']') {
            TRef::List(Box::new(TRef::parse(&s[1..s.len() - 1])))
        } else {
            TRef::Named(s.to_string())
        }
    }
    fn to_sexp(&self) -> Sexp {
        match self {
            TRef::Named(n) => st(n.clone()),
            TRef::List(t) => node("list", vec![t.to_sexp()]),
            TRef::NonNull(t) => node("nn", vec![t.to_sexp()]),
        }
    }
    fn base(&self) -> &str {
        match self {
            TRef::Named(n) => n,
            TRef::List(t) | TRef::NonNull(t) => t.base(),
        }
    }
    fn nullable(&self) -> &TRef {
        match self {
            TRef::NonNull(t) => t,
            t => t,
        }
    }
    fn text(&self) -> String {
        match self {
            TRef::Named(n) => n.clone(),
            TRef::List(t) => format!("[{}]", t.text()),
            TRef::NonNull(t) => format!("{}!", t.text()),
        }
    }
}

#[derive(Clone, Debug)]
struct ArgD {
    name: String,
    ty: TRef,
    secret: bool,
}
#[derive(Clone, Debug)]
struct FieldD {
    name: String,
    ty: TRef,
    secret: bool, // input fields only
    args: Vec<ArgD>,
}
#[derive(Clone, Debug)]
struct TypeD {
    name: String,
    kind: &'static str,
    fields: Vec<FieldD>,
    members: Vec<String>,
    /// `@oneOf` input object (the wire format says `input` for both kinds)
    oneof: bool,
}
struct SchemaD {
    types: Vec<TypeD>,
    query: String,
    mutation: Option<String>,
    subscription: Option<String>,
}

impl SchemaD {
    fn from_registry() -> SchemaD {
        let mut reg = Registry::default();
        <Query as OutputType>::create_type_info(&mut reg);
        <Mutation as OutputType>::create_type_info(&mut reg);
        <Subscription as SubscriptionType>::create_type_info(&mut reg);
        let q = <Query as OutputType>::type_name().to_string();
        let m = <Mutation as OutputType>::type_name().to_string();
        let s = <Subscription as SubscriptionType>::type_name().to_string();
        let mut types = vec![];
        for (name, t) in &reg.types {
            if name.starts_with("__") {
                continue;
            }
            let out_fields = |fields: &indexmap::IndexMap<String, registry::MetaField>| {
                fields
                    .values()
                    .map(|f| FieldD {
                        name: f.name.clone(),
                        ty: TRef::parse(&f.ty),
                        secret: false,
                        args: f.args.values().map(|a| ArgD { name: a.name.clone(), ty: TRef::parse(&a.ty), secret: a.is_secret }).collect(),
                    })
                    .collect::<Vec<_>>()
            };
            let td = match t {
                MetaType::Scalar { .. } => TypeD { name: name.clone(), kind: "scalar", fields: vec![], members: vec![], oneof: false },
                MetaType::Enum { .. } => TypeD { name: name.clone(), kind: "enum", fields: vec![], members: vec![], oneof: false },
                MetaType::Object { fields, .. } => TypeD { name: name.clone(), kind: "object", fields: out_fields(fields), members: vec![], oneof: false },
                MetaType::Interface { fields, .. } => TypeD { name: name.clone(), kind: "interface", fields: out_fields(fields), members: vec![], oneof: false },
                MetaType::Union { possible_types, .. } => {
                    let mut ms: Vec<String> = possible_types.iter().cloned().collect();
                    ms.sort();
                    TypeD { name: name.clone(), kind: "union", fields: vec![], members: ms, oneof: false }
                }
                MetaType::InputObject { input_fields, oneof, .. } => TypeD {
                    name: name.clone(),
                    kind: "input",
                    fields: input_fields
                        .values()
                        .map(|f| FieldD { name: f.name.clone(), ty: TRef::parse(&f.ty), secret: f.is_secret, args: vec![] })
                        .collect(),
                    members: vec![],
                    oneof: *oneof,
                },
            };
            types.push(td);
        }
        SchemaD { types, query: q, mutation: Some(m), subscription: Some(s) }
    }
    fn find(&self, n: &str) -> Option<&TypeD> {
        self.types.iter().find(|t| t.name == n)
    }
    fn to_sexp(&self) -> Sexp {
        let opt = |o: &Option<String>| o.as_ref().map(|x| st(x.clone())).unwrap_or(atom("none"));
        node(
            "schema",
            vec![
                st(self.query.clone()),
                opt(&self.mutation),
                opt(&self.subscription),
                list(
                    self.types
                        .iter()
                        .map(|t| {
                            node(
                                "type",
                                vec![
                                    st(t.name.clone()),
                                    atom(t.kind),
                                    list(
                                        t.fields
                                            .iter()
                                            .map(|f| {
                                                node(
                                                    "fd",
                                                    vec![
                                                        st(f.name.clone()),
                                                        f.ty.to_sexp(),
                                                        list(f.args.iter().map(|a| node("arg", vec![st(a.name.clone()), a.ty.to_sexp(), atom("none")])).collect()),
                                                    ],
                                                )
                                            })
                                            .collect(),
                                    ),
                                    list(vec![]),
                                    list(t.members.iter().map(|m| st(m.clone())).collect()),
                                    list(vec![]),
                                ],
                            )
                        })
                        .collect(),
                ),
            ],
        )
    }
    fn secrets_sexp(&self) -> Sexp {
        let mut args = vec![];
        let mut inputs = vec![];
        for t in &self.types {
            for f in &t.fields {
                if f.secret {
                    inputs.push(list(vec![st(t.name.clone()), st(f.name.clone())]));
                }
                for a in &f.args {
                    if a.secret {
                        args.push(list(vec![st(t.name.clone()), st(f.name.clone()), st(a.name.clone())]));
                    }
                }
            }
        }
        node("secrets", vec![node("args", args), node("inputs", inputs)])
    }
}

thread_local! {
    static SD: SchemaD = SchemaD::from_registry();
}

// ------------------------------------------------------------------ generator

struct Gen<'a> {
    sd: &'a SchemaD,
    rng: &'a mut Rng,
    dist: &'a mut Dist,
    next_s: usize,
    next_p: usize,
    next_v: usize,
    /// variable definitions `(vardef NAME TY DEFAULT)` and supplied values
    vardefs: Vec<Sexp>,
    vars: Vec<Sexp>,
    frag_names: Vec<String>,
    /// > 0 while a constant (variable value, default value) is being generated
    in_const: usize,
    /// the value being generated belongs to an argument of a field that is not in scope: nothing
    /// is known about the position, nothing in it is secret
    untyped: bool,
    /// the input-object types enclosing the value being generated, outermost first: does the
    /// type declare a secret field of its own?
    encl: Vec<bool>,
    /// > 0 while the items of a list are being generated
    in_list: usize,
}

const PLAIN_TAILS: [&str; 6] = ["", "", "", " \"q\"", "\\b", "\u{e9}\u{4e16}"];

impl<'a> Gen<'a> {
    fn sentinel(&mut self, secret: bool) -> String {
        if secret && !self.untyped {
            self.next_s += 1;
            self.dist.hit("sentinel_secret");
            format!("S{:04}E", self.next_s)
        } else {
            self.next_p += 1;
            self.dist.hit("sentinel_plain");
            let tail = *self.rng.pick(&PLAIN_TAILS);
            format!("P{:04}{}", self.next_p, tail)
        }
    }

    /// a constant of type `ty`; `secret` = the position is (inside) a secret one
    fn konst(&mut self, ty: &TRef, secret: bool, depth: usize) -> Sexp {
        let ty = ty.nullable();
        if self.rng.chance(1, 14) {
            return atom("null");
        }
        match ty {
            TRef::List(inner) => {
                if self.rng.chance(1, 8) {
                    // list input coercion: a single item
                    return self.konst(inner, secret, depth);
                }
                let of_objects = self.sd.find(inner.base()).map(|t| t.kind == "input").unwrap_or(false);
                let n = if of_objects && depth >= 2 { self.rng.below(3) } else { self.rng.below(4) };
                self.dist.hit(if secret { "list_in_secret" } else { "list_plain" });
                self.in_list += 1;
                let items = (0..n).map(|_| self.konst(inner, secret, depth)).collect();
                self.in_list -= 1;
                node("list", items)
            }
            TRef::NonNull(_) => unreachable!(),
            TRef::Named(n) => match n.as_str() {
                "String" | "ID" => {
                    let s = self.sentinel(secret);
                    st(s)
                }
                "Int" => num(self.rng.range(-3, 900)),
                "Boolean" => atom(if self.rng.chance(1, 2) { "true" } else { "false" }),
                "Float" => node("f", vec![st("1.5")]),
                name => {
                    let sd = self.sd;
                    match sd.find(name) {
                        Some(t) if t.kind == "input" => {
                            let mut fs: Vec<&FieldD> = t.fields.iter().collect();
                            self.rng.shuffle(&mut fs);
                            if t.oneof {
                                self.dist.hit("oneof_object");
                                if self.rng.chance(4, 5) {
                                    // well-formed: exactly one member (a scalar one when no depth is left)
                                    let keep: Vec<&FieldD> =
                                        fs.iter().copied().filter(|f| depth > 0 || !sd.find(f.ty.base()).map(|t| t.kind == "input").unwrap_or(false)).take(1).collect();
                                    fs = keep;
                                }
                            }
                            let forced = t.oneof && fs.len() == 1;
                            let own_secret = t.fields.iter().any(|f| f.secret);
                            self.encl.push(own_secret);
                            let mut out = vec![];
                            for f in fs {
                                let composite = sd.find(f.ty.base()).map(|t| t.kind == "input").unwrap_or(false);
                                // the more levels remain, the fewer object-valued fields per object
                                let p = if depth == 0 { 4 } else if composite && depth >= 3 { 4 } else if composite { 3 } else { 2 };
                                if composite && depth == 0 {
                                    continue;
                                }
                                if forced || self.rng.chance(1, p) || (f.secret && self.rng.chance(1, if composite { 4 } else { 2 })) {
                                    let sec = secret || f.secret;
                                    if f.secret {
                                        self.dist.hit(if composite { "secret_input_field_object" } else { "secret_input_field" });
                                        if !secret && !self.untyped {
                                            // a secret field met outside any secret: at which depth, below which kinds of types
                                            let d = self.encl.len();
                                            self.dist.hit(&format!("secret_field_at_depth_{d}"));
                                            let anc = &self.encl[..d - 1];
                                            if anc.iter().any(|own| !*own) {
                                                self.dist.hit("secret_field_below_secretfree_type");
                                                self.dist.hit(&format!("secret_field_below_secretfree_type_depth_{d}"));
                                                if self.in_list > 0 {
                                                    self.dist.hit("secret_field_below_secretfree_type_in_list");
                                                }
                                                if self.in_const > 0 {
                                                    self.dist.hit("secret_field_below_secretfree_type_in_variable_or_default");
                                                }
                                            }
                                            if !anc.is_empty() && anc.iter().all(|own| !*own) {
                                                self.dist.hit("secret_field_below_only_secretfree_types");
                                            }
                                            if t.oneof {
                                                self.dist.hit("secret_oneof_member");
                                            }
                                        }
                                    }
                                    let v = if depth > 0 && self.in_const == 0 && self.rng.chance(1, 7) { self.variable(&f.ty, sec, depth - 1) } else { self.konst(&f.ty, sec, depth.saturating_sub(1)) };
                                    out.push(list(vec![st(f.name.clone()), v]));
                                }
                            }
                            if self.rng.chance(1, 12) {
                                // a key the input type does not have (printed as written unless inside a secret)
                                let s = self.sentinel(secret);
                                out.push(list(vec![st("extra"), st(s)]));
                                self.dist.hit("unknown_input_key");
                            }
                            self.encl.pop();
                            self.dist.hit(if secret { "object_in_secret" } else { "object_plain" });
                            self.dist.hit(&format!("object_nesting_{}", self.encl.len() + 1));
                            node("obj", out)
                        }
                        _ => {
                            let s = self.sentinel(secret);
                            st(s)
                        }
                    }
                }
            },
        }
    }

    /// a fresh variable of type `ty` used at this position (value supplied or not, default or not)
    fn variable(&mut self, ty: &TRef, secret: bool, depth: usize) -> Sexp {
        self.next_v += 1;
        let name = format!("v{}", self.next_v);
        self.in_const += 1;
        let default = if self.rng.chance(1, 3) {
            self.dist.hit(if secret { "var_default_secret" } else { "var_default_plain" });
            node("some", vec![self.konst(ty, secret, depth)])
        } else {
            atom("none")
        };
        self.vardefs.push(node("vardef", vec![st(name.clone()), ty.to_sexp(), default]));
        if self.rng.chance(5, 6) {
            let v = self.konst(ty, secret, depth);
            self.vars.push(list(vec![st(name.clone()), v]));
            self.dist.hit(if secret { "var_secret_supplied" } else { "var_plain_supplied" });
        } else {
            self.dist.hit("var_missing");
        }
        self.in_const -= 1;
        node("var", vec![st(name)])
    }

    fn value(&mut self, ty: &TRef, secret: bool) -> Sexp {
        // levels of input objects below the outermost one: 2 (as before), 3 or 4
        let depth = match self.rng.below(20) {
            0..=7 => 2,
            8..=14 => 3,
            _ => 4,
        };
        debug_assert!(self.encl.is_empty() && self.in_list == 0);
        if self.rng.chance(1, 5) { self.variable(ty, secret, depth) } else { self.konst(ty, secret, depth) }
    }

    fn composite_names(&self) -> Vec<String> {
        self.sd.types.iter().filter(|t| matches!(t.kind, "object" | "interface" | "union")).map(|t| t.name.clone()).collect()
    }

    fn dirs(&mut self) -> Sexp {
        if self.rng.chance(1, 12) {
            self.dist.hit("directive");
            list(vec![node("dir", vec![st("include"), list(vec![st("if"), atom("true")])])])
        } else {
            list(vec![])
        }
    }

    /// `parent`: the type whose fields are in scope according to GraphQL (None: unknown)
    fn sels(&mut self, parent: Option<&str>, depth: usize, under: &str) -> Vec<Sexp> {
        let n = if self.rng.chance(1, 4) { 1 + self.rng.below(3) } else { 1 + self.rng.below(2) };
        let mut out = vec![];
        for _ in 0..n {
            let r = self.rng.below(100);
            if r < 62 || depth == 0 {
                out.push(self.field(parent, depth, under));
            } else if r < 90 {
                let comps = self.composite_names();
                let (cond, next): (Option<String>, Option<String>) = match self.rng.below(10) {
                    0..=4 => {
                        self.dist.hit("inline_no_cond");
                        (None, parent.map(|s| s.to_string()))
                    }
                    5..=6 => match parent {
                        Some(p) => {
                            self.dist.hit("inline_cond_same");
                            (Some(p.to_string()), Some(p.to_string()))
                        }
                        None => (None, None),
                    },
                    7..=8 => {
                        let c = self.rng.pick(&comps).clone();
                        self.dist.hit("inline_cond_other");
                        (Some(c.clone()), Some(c))
                    }
                    _ => {
                        self.dist.hit("inline_cond_unknown");
                        let c = if self.rng.chance(1, 2) { "Nope" } else { "Cred" };
                        (Some(c.to_string()), if c == "Cred" { Some("Cred".to_string()) } else { None })
                    }
                };
                let u = if cond.is_none() { format!("{under}+nocond") } else { under.to_string() };
                let sub = self.sels(next.as_deref(), depth - 1, &u);
                let d = self.dirs();
                out.push(node("inline", vec![cond.map(st).unwrap_or(atom("none")), d, list(sub), list(vec![num(0), num(0)])]));
            } else if !self.frag_names.is_empty() {
                let f = self.rng.pick(&self.frag_names).clone();
                self.dist.hit("spread");
                out.push(node("spread", vec![st(f), list(vec![]), list(vec![num(0), num(0)])]));
            } else {
                out.push(self.field(parent, depth, under));
            }
        }
        out
    }

    fn field(&mut self, parent: Option<&str>, depth: usize, under: &str) -> Sexp {
        let sd = self.sd;
        let pt = parent.and_then(|p| sd.find(p));
        let known: Option<&FieldD> = match pt {
            Some(t) if matches!(t.kind, "object" | "interface") && !t.fields.is_empty() && !self.rng.chance(1, 15) => {
                // prefer fields with arguments
                let with_args: Vec<&FieldD> = t.fields.iter().filter(|f| !f.args.is_empty()).collect();
                if !with_args.is_empty() && self.rng.chance(3, 4) { Some(*self.rng.pick(&with_args)) } else { Some(self.rng.pick(&t.fields)) }
            }
            _ => None,
        };
        // out of scope: a field of some other type, written where it does not belong — nothing is
        // known about its arguments there, so nothing is secret
        let (fd, in_scope): (FieldD, bool) = match known {
            Some(f) => (f.clone(), true),
            None => {
                let objs: Vec<&TypeD> = sd.types.iter().filter(|t| t.kind == "object").collect();
                let t = *self.rng.pick(&objs);
                let f = self.rng.pick(&t.fields).clone();
                let here = pt.map(|p| matches!(p.kind, "object" | "interface") && p.fields.iter().any(|g| g.name == f.name)).unwrap_or(false);
                if here {
                    // the same name exists in scope after all: use the in-scope definition
                    let g = pt.unwrap().fields.iter().find(|g| g.name == f.name).unwrap().clone();
                    (g, true)
                } else {
                    self.dist.hit("field_out_of_scope");
                    (f, false)
                }
            }
        };
        let alias = if self.rng.chance(1, 5) {
            self.next_v += 1;
            st(format!("a{}", self.next_v))
        } else {
            atom("none")
        };
        let mut args = vec![];
        let mut ads: Vec<&ArgD> = fd.args.iter().collect();
        self.rng.shuffle(&mut ads);
        for a in ads {
            if self.rng.chance(1, 2) {
                let sec = in_scope && a.secret;
                if sec {
                    self.dist.hit(&format!("secret_arg_under_{under}"));
                }
                self.untyped = !in_scope;
                let v = self.value(&a.ty, sec);
                self.untyped = false;
                args.push(list(vec![st(a.name.clone()), v]));
            }
        }
        if self.rng.chance(1, 15) {
            let s = self.sentinel(false);
            args.push(list(vec![st("bogus"), st(s)]));
            self.dist.hit("unknown_arg");
        }
        let sub_parent: Option<String> = if in_scope { Some(fd.ty.base().to_string()) } else { None };
        let composite = sd.find(fd.ty.base()).map(|t| matches!(t.kind, "object" | "interface" | "union")).unwrap_or(false);
        let sub = if composite && depth > 0 && (in_scope || self.rng.chance(1, 3)) { self.sels(sub_parent.as_deref(), depth - 1, under) } else { vec![] };
        let d = self.dirs();
        node("field", vec![alias, st(fd.name.clone()), list(args), d, list(sub), list(vec![num(0), num(0)])])
    }
}

fn witness(i: usize) -> Option<(Sexp, Sexp)> {
    // hand-written documents of the three defects (DESIGN.md) and their combination
    let pos = || list(vec![num(0), num(0)]);
    let fld = |name: &str, args: Vec<Sexp>, sub: Vec<Sexp>| node("field", vec![atom("none"), st(name), list(args), list(vec![]), list(sub), pos()]);
    let arg = |k: &str, v: Sexp| list(vec![st(k), v]);
    let obj = |fs: Vec<(&str, Sexp)>| node("obj", fs.into_iter().map(|(k, v)| list(vec![st(k), v])).collect());
    let op = |name: Sexp, vars: Vec<Sexp>, sels: Vec<Sexp>| node("op", vec![atom("query"), name, list(vars), list(vec![]), list(sels)]);
    let doc = |ops: Vec<Sexp>, frags: Vec<Sexp>| node("doc", vec![list(ops), list(frags)]);
    let novars = node("vars", vec![]);
    match i {
        0 => Some((
            doc(vec![op(atom("none"), vec![], vec![node("inline", vec![atom("none"), list(vec![]), list(vec![fld("login", vec![arg("token", st("S0001E"))], vec![fld("id", vec![], vec![])])]), pos()])])], vec![]),
            novars,
        )),
        1 => Some((
            doc(vec![op(atom("none"), vec![], vec![fld("login", vec![arg("creds", node("list", vec![obj(vec![("user", st("P0001")), ("pass", st("S0001E"))])]))], vec![fld("id", vec![], vec![])])])], vec![]),
            novars,
        )),
        2 => Some((
            doc(
                vec![op(st("Q"), vec![node("vardef", vec![st("t"), st("String"), node("some", vec![st("S0001E")])])], vec![fld("login", vec![arg("token", node("var", vec![st("t")]))], vec![fld("id", vec![], vec![])])])],
                vec![],
            ),
            novars,
        )),
        3 => Some((
            doc(
                vec![op(
                    st("Q"),
                    vec![node("vardef", vec![st("t"), st("String"), node("some", vec![st("S0001E")])])],
                    vec![
                        node(
                            "inline",
                            vec![
                                atom("none"),
                                list(vec![]),
                                list(vec![fld(
                                    "login",
                                    vec![arg("token", st("S0002E")), arg("creds", node("list", vec![obj(vec![("user", st("P0001")), ("pass", st("S0003E"))])]))],
                                    vec![fld("id", vec![], vec![])],
                                )]),
                                pos(),
                            ],
                        ),
                        fld("login", vec![arg("token", node("var", vec![st("t")]))], vec![fld("id", vec![], vec![])]),
                        node("spread", vec![st("F"), list(vec![]), pos()]),
                    ],
                )],
                vec![node("frag", vec![st("F"), st("Query"), list(vec![]), list(vec![fld("node", vec![arg("key", st("S0004E")), arg("id", st("P0002"))], vec![fld("verify", vec![arg("key", st("S0005E"))], vec![])])])])],
            ),
            novars,
        )),
        _ => None,
    }
}

fn gen_case(rng: &mut Rng, i: usize, _o: &Opts, dist: &mut Dist) -> Sexp {
    SD.with(|sd| {
        if let Some((doc, vars)) = witness(i) {
            dist.hit("witness");
            return node("c21", vec![sd.to_sexp(), sd.secrets_sexp(), doc, vars]);
        }
        let mut g = Gen { sd, rng, dist, next_s: 0, next_p: 0, next_v: 0, vardefs: vec![], vars: vec![], frag_names: vec![], in_const: 0, untyped: false, encl: vec![], in_list: 0 };
        let nfrag = if g.rng.chance(1, 2) { 0 } else { 1 + g.rng.below(3) };
        g.frag_names = (0..nfrag).map(|k| format!("F{k}")).collect();
        g.dist.hit(&format!("fragments_{nfrag}"));
        let nops = match g.rng.below(10) {
            0..=6 => 1,
            7..=8 => 2,
            _ => 3,
        };
        g.dist.hit(&format!("operations_{nops}"));
        let mut frags = vec![];
        for k in 0..nfrag {
            let comps = g.composite_names();
            let (cond, parent): (String, Option<String>) = match g.rng.below(12) {
                0 => ("Nope".into(), None),
                1 => ("Cred".into(), Some("Cred".into())),
                _ => {
                    let c = g.rng.pick(&comps).clone();
                    (c.clone(), Some(c))
                }
            };
            // no spread cycles (the request is rejected before it is logged): Fk spreads only Fj, j > k
            g.frag_names = (k + 1..nfrag).map(|j| format!("F{j}")).collect();
            let sels = g.sels(parent.as_deref(), 2, "fragment");
            frags.push(node("frag", vec![st(format!("F{k}")), st(cond), list(vec![]), list(sels)]));
        }
        g.frag_names = (0..nfrag).map(|k| format!("F{k}")).collect();
        let mut ops = vec![];
        for k in 0..nops {
            let (ty, root): (&str, String) = match g.rng.below(10) {
                0..=6 => ("query", sd.query.clone()),
                7..=8 => ("mutation", sd.mutation.clone().unwrap()),
                _ => ("subscription", sd.subscription.clone().unwrap()),
            };
            g.dist.hit(&format!("op_{ty}"));
            let named = nops > 1 || g.rng.chance(2, 3);
            g.dist.hit(if named { "op_named" } else { "op_anonymous" });
            g.vardefs.clear();
            let d = 2 + g.rng.below(2);
            let sels = g.sels(Some(&root), d, "op");
            // variables used inside fragments are declared by the first operation
            let vardefs = std::mem::take(&mut g.vardefs);
            ops.push(node("op", vec![atom(ty), if named { st(format!("Q{k}")) } else { atom("none") }, list(vardefs), list(vec![]), list(sels)]));
        }
        let vars = std::mem::take(&mut g.vars);
        node("c21", vec![sd.to_sexp(), sd.secrets_sexp(), node("doc", vec![list(ops), list(frags)]), node("vars", vars)])
    })
}

// ------------------------------------------------------------------ printing a case as a request

fn value_text(v: &Sexp, out: &mut String) {
    match v {
        Sexp::Atom(a) => out.push_str(a),
        Sexp::Str(s) => out.push_str(&serde_json::to_string(s).unwrap()),
        Sexp::List(_) => match v.tag() {
            Some("var") => {
                out.push('$');
                out.push_str(v.args()[0].as_str().unwrap());
            }
            Some("f") | Some("e") => out.push_str(v.args()[0].as_str().unwrap()),
            Some("list") => {
                out.push('[');
                for (i, x) in v.args().iter().enumerate() {
                    if i > 0 {
                        out.push_str(", ");
                    }
                    value_text(x, out);
                }
                out.push(']');
            }
            Some("obj") => {
                out.push('{');
                for (i, x) in v.args().iter().enumerate() {
                    if i > 0 {
                        out.push_str(", ");
                    }
                    let l = x.as_list().unwrap();
                    out.push_str(l[0].as_str().unwrap());
                    out.push_str(": ");
                    value_text(&l[1], out);
                }
                out.push('}');
            }
            _ => panic!("bad value"),
        },
    }
}

fn args_text(args: &[Sexp], out: &mut String) {
    if args.is_empty() {
        return;
    }
    out.push('(');
    for (i, a) in args.iter().enumerate() {
        if i > 0 {
            out.push_str(", ");
        }
        let l = a.as_list().unwrap();
        out.push_str(l[0].as_str().unwrap());
        out.push_str(": ");
        value_text(&l[1], out);
    }
    out.push(')');
}

fn dirs_text(ds: &Sexp, out: &mut String) {
    for d in ds.as_list().unwrap() {
        out.push_str(" @");
        out.push_str(d.args()[0].as_str().unwrap());
        args_text(&d.args()[1..], out);
    }
}

fn sels_text(ss: &Sexp, out: &mut String) {
    out.push_str("{ ");
    for s in ss.as_list().unwrap() {
        let a = s.args();
        match s.tag() {
            Some("field") => {
                if let Some(al) = a[0].as_str() {
                    out.push_str(al);
                    out.push_str(": ");
                }
                out.push_str(a[1].as_str().unwrap());
                args_text(a[2].as_list().unwrap(), out);
                dirs_text(&a[3], out);
                if !a[4].as_list().unwrap().is_empty() {
                    out.push(' ');
                    sels_text(&a[4], out);
                }
            }
            Some("spread") => {
                out.push_str("...");
                out.push_str(a[0].as_str().unwrap());
                dirs_text(&a[1], out);
            }
            Some("inline") => {
                out.push_str("...");
                if let Some(c) = a[0].as_str() {
                    out.push_str(" on ");
                    out.push_str(c);
                }
                dirs_text(&a[1], out);
                out.push(' ');
                sels_text(&a[2], out);
            }
            _ => panic!("bad selection"),
        }
        out.push(' ');
    }
    out.push('}');
}

fn tref_of_sexp(s: &Sexp) -> TRef {
    match s {
        Sexp::Str(n) => TRef::Named(n.clone()),
        _ => match s.tag() {
            Some("list") => TRef::List(Box::new(tref_of_sexp(&s.args()[0]))),
            Some("nn") => TRef::NonNull(Box::new(tref_of_sexp(&s.args()[0]))),
            _ => panic!("bad type"),
        },
    }
}

fn doc_text(doc: &Sexp) -> String {
    let mut out = String::new();
    let a = doc.args();
    for op in a[0].as_list().unwrap() {
        let o = op.args();
        let ty = o[0].as_atom().unwrap();
        let vars = o[2].as_list().unwrap();
        if o[1].as_str().is_none() && vars.is_empty() && ty == "query" {
            // shorthand
        } else {
            out.push_str(ty);
            if let Some(n) = o[1].as_str() {
                out.push(' ');
                out.push_str(n);
            }
            if !vars.is_empty() {
                out.push('(');
                for (i, v) in vars.iter().enumerate() {
                    if i > 0 {
                        out.push_str(", ");
                    }
                    let d = v.args();
                    out.push('$');
                    out.push_str(d[0].as_str().unwrap());
                    out.push_str(": ");
                    out.push_str(&tref_of_sexp(&d[1]).text());
                    if d[2].tag() == Some("some") {
                        out.push_str(" = ");
                        value_text(&d[2].args()[0], &mut out);
                    }
                }
                out.push(')');
            }
            out.push(' ');
        }
        sels_text(&o[4], &mut out);
        out.push(' ');
    }
    for f in a[1].as_list().unwrap() {
        let d = f.args();
        out.push_str(&format!("fragment {} on {} ", d[0].as_str().unwrap(), d[1].as_str().unwrap()));
        sels_text(&d[3], &mut out);
        out.push(' ');
    }
    out
}

fn const_of_sexp(v: &Sexp) -> Value {
    match v {
        Sexp::Atom(a) => match a.as_str() {
            "null" => Value::Null,
            "true" => Value::Boolean(true),
            "false" => Value::Boolean(false),
            n => Value::Number(n.parse::<i64>().expect("int").into()),
        },
        Sexp::Str(s) => Value::String(s.clone()),
        Sexp::List(_) => match v.tag() {
            Some("f") => Value::Number(serde_json::Number::from_f64(v.args()[0].as_str().unwrap().parse().unwrap()).unwrap()),
            Some("e") => Value::Enum(Name::new(v.args()[0].as_str().unwrap())),
            Some("list") => Value::List(v.args().iter().map(const_of_sexp).collect()),
            Some("obj") => Value::Object(
                v.args()
                    .iter()
                    .map(|p| {
                        let l = p.as_list().unwrap();
                        (Name::new(l[0].as_str().unwrap()), const_of_sexp(&l[1]))
                    })
                    .collect(),
            ),
            _ => panic!("bad const"),
        },
    }
}

/// run B: every sentinel `S<digits>E` becomes `T<digits>EE`
fn rename(s: &Sexp) -> Sexp {
    match s {
        Sexp::Str(t) => {
            let b = t.as_bytes();
            if b.len() >= 3 && b[0] == b'S' && b[b.len() - 1] == b'E' && b[1..b.len() - 1].iter().all(|c| c.is_ascii_digit()) {
                Sexp::Str(format!("T{}EE", &t[1..t.len() - 1]))
            } else {
                s.clone()
            }
        }
        Sexp::List(xs) => Sexp::List(xs.iter().map(rename).collect()),
        a => a.clone(),
    }
}

fn log_of(doc: &Sexp, vars: &Sexp) -> Sexp {
    let store = Arc::new(Mutex::new(None));
    let schema = Schema::build(Query, Mutation, Subscription).extension(Capture(store.clone())).limit_recursive_depth(256).finish();
    let mut vs = Variables::default();
    for p in vars.args() {
        let l = p.as_list().unwrap();
        vs.insert(Name::new(l[0].as_str().unwrap()), const_of_sexp(&l[1]));
    }
    let text = doc_text(doc);
    if std::env::var("AGV_DEBUG").is_ok() {
        eprintln!("{text}");
        if let Err(e) = async_graphql::parser::parse_query(&text) {
            eprintln!("PARSE ERROR: {e}");
        }
    }
    let resp = spin_on(schema.execute(Request::new(text).variables(vs)));
    if std::env::var("AGV_DEBUG").is_ok() {
        eprintln!("ERRORS: {:?}", resp.errors.iter().map(|e| e.message.clone()).collect::<Vec<_>>());
    }
    let got = store.lock().unwrap().take();
    match got {
        Some(s) => st(s),
        None => atom("none"),
    }
}

/// the `#[graphql(secret)]` attributes written in the schema above, by hand: the registry must
/// carry exactly these flags (derive/src/{object,input_object,interface,subscription}.rs)
const EXPECTED_SECRETS: &str = r#"(secrets (args ("Mutation" "setPassword" "new") ("Mutation" "setPassword" "old") ("Node" "verify" "key") ("Query" "login" "token") ("Query" "login" "vault") ("Query" "signin" "sealed") ("Query" "node" "key") ("Session" "refresh" "token") ("Subscription" "watch" "token") ("User" "auth" "password") ("User" "friends" "tokens")) (inputs ("Cred" "pass") ("Cred" "keys") ("Deep" "code") ("Inner" "pin") ("Inner" "sealed") ("Mixed" "otp") ("Mixed" "sealedBox") ("Mixed" "sealedBoxes") ("Pick" "token") ("Pick" "sealed") ("Tree" "key") ("Tree" "vault")))"#;

fn run(case: &Sexp, dist: &mut Dist) -> Sexp {
    let a = case.args();
    let same = SD.with(|sd| a[0] == sd.to_sexp() && a[1] == sd.secrets_sexp());
    if !same {
        return node("bad-schema", vec![]);
    }
    if a[1].to_string() != EXPECTED_SECRETS {
        // a secret attribute did not reach the registry (or one appeared from nowhere)
        return node("secret-flags-differ", vec![]);
    }
    let out_a = log_of(&a[2], &a[3]);
    let out_b = log_of(&rename(&a[2]), &rename(&a[3]));
    if out_a == atom("none") {
        dist.hit("parse_failed");
    }
    node("out", vec![out_a, out_b])
}

fn main() {
    main_loop(&mut gen_case, &mut run);
}
