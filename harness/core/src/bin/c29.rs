//! C29 — DataLoader cache operations behave like the documented cache.
//!
//! Case:   (hist (cfg KIND CAP NKEYS MODE) OP…)
//!           KIND  nocache | hashmap | lru          CAP  capacity of the LRU cache (else 0)
//!           NKEYS keys are 0..NKEYS-1 (keys ≡ 3 mod 4 do not exist in the loader)
//!           MODE  imm   = max_batch_size(1): every load dispatches immediately
//!                 fetch = zero delay, default batch size: dispatch through the timer task
//!           OP    (load k…) load_many | (one k) load_one | (feed (k v)…) feed_many
//!                 (clear) | (clear1 k) clear_one | (enable b) enable_cache::<i32>
//!                 (enableall b) enable_all_cache | (cached) get_cached_values | (fail b) the
//!                 loader answers Err from now on / normally
//! Output: (outs OUT…) one per OP (sequential: each operation is awaited before the next)
//!           (u) | (vals ((k v)…)) | (loaded ((k v)…) (call k…) (ord k…)) | (failed (call k…))
//!           | (one v|none (call k…)) | (panic)
//!         call = keys the loader was called with during the operation (ascending, empty = not
//!         called); ord = the order in which the HashMap the loader returned enumerates its keys
//!         (the order `do_load` writes them into the cache; fed back to the model by the judge).
//! The loader's value for key k on its g-th call is 1000·k + g, so stale and fresh differ.

use std::{
    collections::HashMap,
    panic::{AssertUnwindSafe, catch_unwind},
    sync::{
        Arc, Mutex,
        atomic::{AtomicBool, AtomicU64, Ordering},
    },
    time::Duration,
};

use agvh::*;
use async_graphql::{
    dataloader::{CacheFactory, DataLoader, HashMapCache, Loader, LruCache},
    runtime::Timer,
};
use futures_util::{
    future::BoxFuture,
    task::{FutureObj, Spawn, SpawnError},
};

// ------------------------------------------------------------------ the loader behind it

#[derive(Default)]
struct Env {
    calls: AtomicU64,
    fail: AtomicBool,
    /// (keys of the call ascending, enumeration order of the answer)
    log: Mutex<Vec<(Vec<i32>, Option<Vec<i32>>)>>,
}

struct L(Arc<Env>);

impl Loader<i32> for L {
    type Value = u64;
    type Error = ();

    async fn load(&self, keys: &[i32]) -> Result<HashMap<i32, u64>, ()> {
        let g = self.0.calls.fetch_add(1, Ordering::SeqCst) + 1;
        let mut ks = keys.to_vec();
        ks.sort();
        if self.0.fail.load(Ordering::SeqCst) {
            self.0.log.lock().unwrap().push((ks, None));
            return Err(());
        }
        let map: HashMap<i32, u64> =
            keys.iter().filter(|k| k.rem_euclid(4) != 3).map(|k| (*k, (*k as u64) * 1000 + g)).collect();
        let order: Vec<i32> = map.keys().copied().collect();
        self.0.log.lock().unwrap().push((ks, Some(order)));
        Ok(map)
    }
}

struct HandleSpawner(tokio::runtime::Handle);

impl Spawn for HandleSpawner {
    fn spawn_obj(&self, future: FutureObj<'static, ()>) -> Result<(), SpawnError> {
        self.0.spawn(future);
        Ok(())
    }
}

/// a timer whose delay is one scheduler yield
struct YieldTimer;

impl Timer for YieldTimer {
    fn delay(&self, _d: Duration) -> BoxFuture<'static, ()> {
        Box::pin(tokio::task::yield_now())
    }
}

// ------------------------------------------------------------------ runner

fn kvs(m: &HashMap<i32, u64>, limit: Option<i32>) -> Sexp {
    let mut v: Vec<(i32, u64)> = m.iter().map(|(k, v)| (*k, *v)).collect();
    v.sort();
    list(
        v.into_iter()
            .filter(|(k, _)| limit.is_none_or(|n| *k >= 0 && *k < n))
            .map(|(k, v)| list(vec![num(k), num(v)]))
            .collect(),
    )
}

fn keys(tag: &str, ks: &[i32]) -> Sexp {
    node(tag, ks.iter().map(num).collect())
}

fn parse_bool(s: &Sexp) -> bool {
    s.as_atom() == Some("true")
}

fn run_ops<C: CacheFactory>(
    rt: &tokio::runtime::Runtime,
    dl: DataLoader<L, C>,
    env: &Arc<Env>,
    nkeys: i32,
    ops: &[Sexp],
    dist: &mut Dist,
) -> Sexp {
    let mut outs = vec![];
    for op in ops {
        env.log.lock().unwrap().clear();
        let a = op.args();
        let r = catch_unwind(AssertUnwindSafe(|| -> Sexp {
            // what the loader saw during this operation
            let seen = |env: &Env| -> (Vec<i32>, Vec<i32>, usize) {
                let log = env.log.lock().unwrap();
                match log.as_slice() {
                    [] => (vec![], vec![], 0),
                    [(ks, ord)] => (ks.clone(), ord.clone().unwrap_or_default(), 1),
                    more => (vec![], vec![], more.len()),
                }
            };
            match op.tag().unwrap() {
                "load" => {
                    let ks: Vec<i32> = a.iter().map(|x| x.as_i64().unwrap() as i32).collect();
                    let res = rt.block_on(dl.load_many(ks));
                    let (call, ord, n) = seen(env);
                    if n > 1 {
                        return node("multi", vec![num(n)]);
                    }
                    match res {
                        Ok(m) => node("loaded", vec![kvs(&m, None), keys("call", &call), keys("ord", &ord)]),
                        Err(()) => node("failed", vec![keys("call", &call)]),
                    }
                }
                "one" => {
                    let k = a[0].as_i64().unwrap() as i32;
                    let res = rt.block_on(dl.load_one(k));
                    let (call, _, n) = seen(env);
                    if n > 1 {
                        return node("multi", vec![num(n)]);
                    }
                    match res {
                        Ok(v) => node("one", vec![v.map(num).unwrap_or_else(|| atom("none")), keys("call", &call)]),
                        Err(()) => node("failed", vec![keys("call", &call)]),
                    }
                }
                "feed" => {
                    let ps: Vec<(i32, u64)> = a
                        .iter()
                        .map(|p| {
                            let p = p.as_list().unwrap();
                            (p[0].as_i64().unwrap() as i32, p[1].as_i64().unwrap() as u64)
                        })
                        .collect();
                    rt.block_on(dl.feed_many(ps));
                    node("u", vec![])
                }
                "clear" => {
                    dl.clear::<i32>();
                    node("u", vec![])
                }
                "clear1" => {
                    dl.clear_one(&(a[0].as_i64().unwrap() as i32));
                    node("u", vec![])
                }
                "enable" => {
                    rt.block_on(dl.enable_cache::<i32>(parse_bool(&a[0])));
                    node("u", vec![])
                }
                "enableall" => {
                    dl.enable_all_cache(parse_bool(&a[0]));
                    node("u", vec![])
                }
                "cached" => {
                    let m: HashMap<i32, u64> = rt.block_on(dl.get_cached_values::<i32>());
                    let extra = m.keys().filter(|k| **k < 0 || **k >= nkeys).count();
                    let mut v = vec![kvs(&m, Some(nkeys))];
                    if extra > 0 {
                        v.push(node("extra", vec![num(extra)]));
                    }
                    node("vals", v)
                }
                "fail" => {
                    env.fail.store(parse_bool(&a[0]), Ordering::SeqCst);
                    node("u", vec![])
                }
                other => panic!("unknown op {other}"),
            }
        }));
        match r {
            Ok(s) => {
                if s.tag() == Some("loaded") || s.tag() == Some("one") {
                    let called = s.args().iter().any(|x| x.tag() == Some("call") && !x.args().is_empty());
                    dist.hit(if called { "loads_calling_loader" } else { "loads_from_cache_only" });
                }
                outs.push(s)
            }
            Err(_) => {
                dist.hit("op_panics");
                outs.push(node("panic", vec![]))
            }
        }
    }
    node("outs", outs)
}

fn run(case: &Sexp, dist: &mut Dist) -> Sexp {
    let a = case.args();
    let cfg = a[0].args();
    let kind = cfg[0].as_atom().unwrap();
    let cap = cfg[1].as_usize().unwrap();
    let nkeys = cfg[2].as_i64().unwrap() as i32;
    let mode = cfg[3].as_atom().unwrap();
    let ops = &a[1..];
    let rt = tokio::runtime::Builder::new_current_thread().build().unwrap();
    let env = Arc::new(Env::default());
    let sp = HandleSpawner(rt.handle().clone());
    fn tune<C: CacheFactory>(dl: DataLoader<L, C>, mode: &str) -> DataLoader<L, C> {
        match mode {
            "imm" => dl.max_batch_size(1),
            _ => dl.delay(Duration::ZERO),
        }
    }
    match kind {
        "nocache" => {
            let dl = tune(DataLoader::new(L(env.clone()), sp, YieldTimer), mode);
            run_ops(&rt, dl, &env, nkeys, ops, dist)
        }
        "hashmap" => {
            let dl = tune(DataLoader::with_cache(L(env.clone()), sp, YieldTimer, HashMapCache::default()), mode);
            run_ops(&rt, dl, &env, nkeys, ops, dist)
        }
        "lru" => {
            let dl = tune(DataLoader::with_cache(L(env.clone()), sp, YieldTimer, LruCache::new(cap)), mode);
            run_ops(&rt, dl, &env, nkeys, ops, dist)
        }
        other => panic!("unknown cache kind {other}"),
    }
}

// ------------------------------------------------------------------ generator

fn gen_key(rng: &mut Rng, nkeys: i64) -> Sexp {
    num(rng.range(0, nkeys - 1))
}

fn gen_case(rng: &mut Rng, i: usize, o: &Opts, dist: &mut Dist) -> Sexp {
    let (kind, cap) = match rng.below(10) {
        0 => ("nocache", 0),
        1..=3 => ("hashmap", 0),
        _ => ("lru", rng.range(1, 3)),
    };
    dist.hit(&format!("kind_{kind}{}", if kind == "lru" { format!("_cap{cap}") } else { String::new() }));
    let nkeys = rng.range(3, 5);
    let mode = if rng.chance(1, 2) { "imm" } else { "fetch" };
    dist.hit(&format!("mode_{mode}"));
    let max_len = if o.tier == "thorough" { 400 } else { 40 };
    // lengths grow with the index so that the shortest failing case of a run is short
    let len = match i % 4 {
        0 => rng.range(1, 6),
        1 => rng.range(4, 16),
        _ => rng.range(8, max_len),
    } as usize;
    // adversarial portion: start with a per-type or global switch on the untouched loader
    let mut ops = vec![];
    if rng.chance(1, 6) {
        dist.hit("starts_with_switch");
        ops.push(node("enable", vec![atom(if rng.chance(1, 2) { "true" } else { "false" })]));
    }
    while ops.len() < len {
        let w = rng.below(100);
        let (name, op) = match w {
            0..=29 => ("one", node("one", vec![gen_key(rng, nkeys)])),
            30..=49 => {
                // 0..=4 keys, duplicates allowed
                let n = if rng.chance(1, 12) { 0 } else { rng.range(1, 4) };
                ("load", node("load", (0..n).map(|_| gen_key(rng, nkeys)).collect()))
            }
            50..=61 => {
                let n = rng.range(1, 3);
                (
                    "feed",
                    node(
                        "feed",
                        (0..n).map(|_| list(vec![gen_key(rng, nkeys), num(500000 + rng.range(0, 99))])).collect(),
                    ),
                )
            }
            62..=65 => ("clear", node("clear", vec![])),
            66..=73 => ("clear1", node("clear1", vec![gen_key(rng, nkeys)])),
            74..=81 => ("enable", node("enable", vec![atom(if rng.chance(3, 5) { "true" } else { "false" })])),
            82..=87 => ("enableall", node("enableall", vec![atom(if rng.chance(3, 5) { "true" } else { "false" })])),
            88..=95 => ("cached", node("cached", vec![])),
            _ => ("fail", node("fail", vec![atom(if rng.chance(1, 3) { "true" } else { "false" })])),
        };
        dist.hit(&format!("op_{name}"));
        ops.push(op);
    }
    dist.add("ops", ops.len() as u64);
    let mut v = vec![node("cfg", vec![atom(kind), num(cap), num(nkeys), atom(mode)])];
    v.extend(ops);
    node("hist", v)
}

fn main() {
    main_loop(&mut gen_case, &mut run);
}
