//! C17 — exported SDL is valid and describes exactly the schema.
//!
//! A case carries an abstract schema description and a list of export option sets:
//!
//! ```text
//! (sdl (optsets OPTS…) (dyn|static|static2|static3|static4|static5 (roots "Q" M) (T…) (ddefs DDEF…)))
//! OPTS := (opts sorted_fields sorted_arguments sorted_enum_items prefer_single_line include_specified_by
//!               federation compose_directive use_space_ident indent_width)
//! A    := (a DESC DEP INACC (TAG…) (DIR…))      DESC := - | "text"   DEP := - | (dep) | (dep "reason")
//! DIR  := ("name" ("arg" VALUE)…)
//! T    := (scalar "N" A URL) | (object "N" A EXT ("I"…) (F…)) | (interface "N" A EXT ("I"…) (F…))
//!       | (union "N" A ("M"…)) | (enum "N" A (("V" A)…)) | (input "N" A ONEOF (IV…))
//! F    := (f "n" A "type" (IV…))     IV := (iv "n" A "type" DEFAULT)    DEFAULT := - | VALUE
//! VALUE:= null | (i n) | (s "…") | (b true|false) | (e "N") | (l V…) | (o ("k" V)…)
//! DDEF := (ddef "name" DESC (IV…) REPEATABLE ("LOCATION"…) COMPOSABLE)
//! ```
//!
//! `dyn`: the schema is built from the description with `async_graphql::dynamic::*` (arbitrary
//! texts).  `static`: the fixed derive-built schema below is exported and the description in the
//! case (a constant of this file) is what the Lean side believes the derive macros registered.
//! `static3` / `static4`: a derive-built type skeleton (`mod fixed3`) whose custom directive
//! definitions (incl. the `composable` URL) and applications are taken from the case.
//! `static5`: the declaration zoo of `src/zoo.rs` (every derive macro × attribute × container); the
//! case carries the description written by hand next to the declarations, `iv` / `f` nodes of
//! container declarations end with the declared Rust type `(vec (option (leaf "Int")))`.
//! Output per option set: the SDL text, and the crate's own `parse_schema` verdict on it with the
//! document it yields in canonical form.

use agvh::{Dist, Opts, Rng, Sexp, atom, list, main_loop, node, st};
use async_graphql::{
    SDLExportOptions, Value,
    dynamic::{
        Directive, Enum, EnumItem, Field, FieldFuture, InputObject, InputValue, Interface, InterfaceField, Object, Scalar,
        Schema, TypeRef, Union,
    },
};
use async_graphql_parser::{
    parse_schema,
    types::{
        ConstDirective, FieldDefinition, InputValueDefinition, ServiceDocument, TypeKind, TypeSystemDefinition,
    },
};
use async_graphql_value::{ConstValue, Name};
use indexmap::IndexMap;

#[path = "../zoo.rs"]
mod zoo;

// ------------------------------------------------------------------ case → dynamic schema

fn b(x: &Sexp) -> bool {
    x.as_atom() == Some("true")
}

fn ty_ref(s: &str) -> TypeRef {
    if let Some(inner) = s.strip_suffix('!') {
        TypeRef::NonNull(Box::new(ty_ref(inner)))
    } else if let Some(inner) = s.strip_prefix('[').and_then(|x| x.strip_suffix(']')) {
        TypeRef::List(Box::new(ty_ref(inner)))
    } else {
        TypeRef::Named(s.to_string().into())
    }
}

fn value(x: &Sexp) -> Value {
    match x {
        Sexp::Atom(a) if a == "null" => Value::Null,
        _ => {
            let args = x.args();
            match x.tag().expect("value tag") {
                "i" => {
                    let t = args[0].as_atom().unwrap();
                    if let Ok(i) = t.parse::<i64>() {
                        Value::Number(i.into())
                    } else {
                        Value::Number(t.parse::<u64>().expect("int").into())
                    }
                }
                "s" => Value::String(args[0].as_str().unwrap().to_string()),
                "b" => Value::Boolean(b(&args[0])),
                "e" => Value::Enum(Name::new(args[0].as_str().unwrap())),
                "l" => Value::List(args.iter().map(value).collect()),
                "o" => {
                    let mut m = IndexMap::new();
                    for kv in args {
                        let kv = kv.as_list().unwrap();
                        m.insert(Name::new(kv[0].as_str().unwrap()), value(&kv[1]));
                    }
                    Value::Object(m)
                }
                t => panic!("bad value tag {t}"),
            }
        }
    }
}

struct Attrs {
    desc: Option<String>,
    dep: Option<Option<String>>,
    inacc: bool,
    tags: Vec<String>,
    dirs: Vec<Directive>,
}

fn attrs(x: &Sexp) -> Attrs {
    let a = x.args();
    let desc = a[0].as_str().map(str::to_string);
    let dep = match &a[1] {
        Sexp::Atom(_) => None,
        d => Some(d.args().first().map(|r| r.as_str().unwrap().to_string())),
    };
    let tags = a[3].as_list().unwrap().iter().map(|t| t.as_str().unwrap().to_string()).collect();
    let dirs = a[4]
        .as_list()
        .unwrap()
        .iter()
        .map(|d| {
            let d = d.as_list().unwrap();
            let mut dir = Directive::new(d[0].as_str().unwrap());
            for kv in &d[1..] {
                let kv = kv.as_list().unwrap();
                dir = dir.argument(kv[0].as_str().unwrap(), value(&kv[1]));
            }
            dir
        })
        .collect();
    Attrs { desc, dep, inacc: b(&a[2]), tags, dirs }
}

/// apply the common attributes through the builder methods every dynamic item has
macro_rules! apply_attrs {
    ($item:expr, $a:expr, dep) => {{
        let mut it = apply_attrs!($item, $a);
        if let Some(r) = &$a.dep {
            it = it.deprecation(r.as_deref());
        }
        it
    }};
    ($item:expr, $a:expr) => {{
        let mut it = $item;
        if let Some(d) = &$a.desc {
            it = it.description(d.clone());
        }
        if $a.inacc {
            it = it.inaccessible();
        }
        if !$a.tags.is_empty() {
            it = it.tags($a.tags.clone());
        }
        for d in &$a.dirs {
            it = it.directive(d.clone());
        }
        it
    }};
}

fn input_value(x: &Sexp) -> InputValue {
    let p = x.args();
    let a = attrs(&p[1]);
    let mut iv = apply_attrs!(InputValue::new(p[0].as_str().unwrap(), ty_ref(p[2].as_str().unwrap())), a, dep);
    if p[3].as_atom() != Some("-") {
        iv = iv.default_value(value(&p[3]));
    }
    iv
}

fn build_dyn(schema: &Sexp) -> Result<Schema, String> {
    let p = schema.args();
    let roots = p[0].args();
    let mut sb = Schema::build(roots[0].as_str().unwrap(), roots[1].as_str(), None);
    for t in p[1].as_list().unwrap() {
        let q = t.args();
        let name = q[0].as_str().unwrap();
        let a = attrs(&q[1]);
        match t.tag().unwrap() {
            "scalar" => {
                let mut s = apply_attrs!(Scalar::new(name), a);
                if let Some(u) = q[2].as_str() {
                    s = s.specified_by_url(u);
                }
                sb = sb.register(s);
            }
            "object" => {
                let mut o = apply_attrs!(Object::new(name), a);
                if b(&q[2]) {
                    o = o.extends();
                }
                for i in q[3].as_list().unwrap() {
                    o = o.implement(i.as_str().unwrap());
                }
                for f in q[4].as_list().unwrap() {
                    let fp = f.args();
                    let fa = attrs(&fp[1]);
                    let mut fld = apply_attrs!(
                        Field::new(fp[0].as_str().unwrap(), ty_ref(fp[2].as_str().unwrap()), |_| FieldFuture::Value(None)),
                        fa,
                        dep
                    );
                    for iv in fp[3].as_list().unwrap() {
                        fld = fld.argument(input_value(iv));
                    }
                    o = o.field(fld);
                }
                sb = sb.register(o);
            }
            "interface" => {
                let mut o = apply_attrs!(Interface::new(name), a);
                if b(&q[2]) {
                    o = o.extends();
                }
                for i in q[3].as_list().unwrap() {
                    o = o.implement(i.as_str().unwrap());
                }
                for f in q[4].as_list().unwrap() {
                    let fp = f.args();
                    let fa = attrs(&fp[1]);
                    let mut fld =
                        apply_attrs!(InterfaceField::new(fp[0].as_str().unwrap(), ty_ref(fp[2].as_str().unwrap())), fa, dep);
                    for iv in fp[3].as_list().unwrap() {
                        fld = fld.argument(input_value(iv));
                    }
                    o = o.field(fld);
                }
                sb = sb.register(o);
            }
            "union" => {
                let mut u = apply_attrs!(Union::new(name), a);
                for m in q[2].as_list().unwrap() {
                    u = u.possible_type(m.as_str().unwrap());
                }
                sb = sb.register(u);
            }
            "enum" => {
                let mut e = apply_attrs!(Enum::new(name), a);
                for v in q[2].as_list().unwrap() {
                    let v = v.as_list().unwrap();
                    let va = attrs(&v[1]);
                    e = e.item(apply_attrs!(EnumItem::new(v[0].as_str().unwrap()), va, dep));
                }
                sb = sb.register(e);
            }
            "input" => {
                let mut o = apply_attrs!(InputObject::new(name), a);
                if b(&q[2]) {
                    o = o.oneof();
                }
                for iv in q[3].as_list().unwrap() {
                    o = o.field(input_value(iv));
                }
                sb = sb.register(o);
            }
            k => panic!("bad type kind {k}"),
        }
    }
    sb.finish().map_err(|e| e.0)
}

// ------------------------------------------------------------------ the fixed derive-built schema

mod fixed {
    #![allow(non_snake_case, dead_code)]
    use async_graphql::*;

    #[TypeDirective(location = "FieldDefinition", location = "Object")]
    pub fn labelled(text: String, weight: Option<i32>) {}

    /// A colour
    #[derive(Enum, Copy, Clone, Eq, PartialEq)]
    pub enum Color {
        /// like blood
        Red,
        #[graphql(deprecation = "too green")]
        Green,
        #[graphql(deprecation)]
        Blue,
    }

    /// Input with defaults
    #[derive(InputObject)]
    pub struct Filter {
        /// how many
        #[graphql(default = 5)]
        pub limit: i32,
        #[graphql(default_with = "\"a\\\"b\\\\c\".to_string()")]
        pub text: String,
        #[graphql(default_with = "vec![1, 2]")]
        pub ids: Vec<i32>,
        pub color: Option<Color>,
    }

    #[derive(OneofObject)]
    pub enum Pick {
        ById(i32),
        /// by its name
        ByName(String),
    }

    /// A thing with a "quoted" word
    #[derive(SimpleObject)]
    #[graphql(directive = labelled::apply("on \"type\"".to_string(), Some(3)), tag = "team-a")]
    pub struct Thing {
        /// the id
        pub id: i32,
        #[graphql(deprecation = "use id")]
        pub old_id: String,
        #[graphql(directive = labelled::apply("on field".to_string(), None), tag = "internal")]
        pub label: Option<String>,
    }

    #[derive(SimpleObject)]
    pub struct Other {
        pub id: i32,
        pub flag: bool,
    }

    #[derive(Interface)]
    #[graphql(field(name = "id", ty = "&i32", desc = "the id"))]
    pub enum Node {
        Thing(Thing),
        Other(Other),
    }

    #[derive(Union)]
    pub enum Either {
        Thing(Thing),
        Other(Other),
    }

    pub struct Query;

    /// The root
    ///
    /// second paragraph
    #[Object]
    impl Query {
        /// finds things
        async fn things(
            &self,
            #[graphql(desc = "the filter")] filter: Option<Filter>,
            #[graphql(default = 10)] first: i32,
            #[graphql(default_with = "\"x y\".to_string()")] after: String,
        ) -> Vec<Thing> {
            vec![]
        }
        async fn pick(&self, by: Pick) -> Option<Either> {
            None
        }
        async fn node(&self, #[graphql(default_with = "Color::Red")] color: Color) -> Option<Node> {
            None
        }
    }

    pub struct Mutation;

    #[Object]
    impl Mutation {
        #[graphql(deprecation = "gone")]
        async fn touch(&self, id: i32) -> bool {
            true
        }
    }

    pub fn schema() -> Schema<Query, Mutation, EmptySubscription> {
        Schema::build(Query, Mutation, EmptySubscription).finish()
    }
}

/// a second derive-built schema carrying the witness of a listed defect on the static path:
/// an interface that implements an interface and has a directive
mod fixed2 {
    #![allow(non_snake_case, dead_code)]
    use async_graphql::*;

    #[TypeDirective(location = "Interface")]
    pub fn marked(note: String) {}

    #[derive(SimpleObject)]
    pub struct Leaf {
        pub id: i32,
        pub old: i32,
    }

    #[derive(Interface)]
    #[graphql(field(name = "id", ty = "&i32"), directive = marked::apply("m".to_string()))]
    pub enum Inner {
        Leaf(Leaf),
    }

    #[derive(Interface)]
    #[graphql(field(name = "id", ty = "&i32"))]
    pub enum Outer {
        Inner(Inner),
    }

    pub struct Query;

    #[Object]
    impl Query {
        async fn outer(&self) -> Option<Outer> {
            None
        }
    }

    pub fn schema() -> Schema<Query, EmptyMutation, EmptySubscription> {
        Schema::build(Query, EmptyMutation, EmptySubscription).finish()
    }
}

/// a third family of derive-built schemas: custom directive DEFINITIONS (name, description,
/// arguments with defaults, repeatable, locations, `composable` URL) taken from the case.  The
/// derive attribute `directive = X::apply(..)` needs a type `X: TypeDirective`; the seven slot
/// types below implement that public trait by hand (exactly what `#[TypeDirective]` expands to)
/// reading their definition from a thread-local set before `Schema::build`.  Two more directives
/// are defined through the macro itself: `linked` (plain composable URL) and, in variant B
/// (`static4`), `hostile_url` (a composable URL containing quotes and a backslash).
mod fixed3 {
    #![allow(non_snake_case, dead_code, non_camel_case_types)]
    use std::{borrow::Cow, cell::RefCell};

    use async_graphql::{
        indexmap::IndexMap,
        registry::{MetaDirective, MetaDirectiveInvocation, MetaInputValue, Registry, __DirectiveLocation, location_traits::*},
        *,
    };

    #[derive(Clone)]
    pub struct ArgCfg {
        pub name: String,
        pub ty: String,
        pub default: Option<Value>,
    }

    #[derive(Clone)]
    pub struct Slot {
        pub name: String,
        pub desc: Option<String>,
        pub args: Vec<ArgCfg>,
        pub repeatable: bool,
        pub locs: Vec<__DirectiveLocation>,
        pub composable: Option<String>,
        /// the arguments of the application at this slot
        pub app: Vec<(String, Value)>,
    }

    thread_local! {
        pub static SLOTS: RefCell<Vec<Slot>> = const { RefCell::new(Vec::new()) };
    }

    fn slot(i: usize) -> Slot {
        SLOTS.with(|s| s.borrow()[i].clone())
    }

    macro_rules! slot_directive {
        ($id:ident, $i:expr) => {
            pub struct $id;
            impl TypeDirective for $id {
                fn name(&self) -> Cow<'static, str> {
                    Cow::Owned(slot($i).name)
                }
                fn register(&self, registry: &mut Registry) {
                    let s = slot($i);
                    let mut args = IndexMap::new();
                    for a in &s.args {
                        let mut arg = MetaInputValue::new(a.name.clone(), a.ty.clone());
                        arg.default_value = a.default.as_ref().map(|v| v.to_string());
                        args.insert(a.name.clone(), arg);
                    }
                    registry.add_directive(MetaDirective {
                        name: s.name.clone(),
                        description: s.desc.clone(),
                        locations: s.locs.clone(),
                        args,
                        is_repeatable: s.repeatable,
                        visible: None,
                        composable: s.composable.clone(),
                    });
                }
            }
            impl Directive_At_FIELD_DEFINITION for $id {}
            impl Directive_At_OBJECT for $id {}
            impl Directive_At_INPUT_FIELD_DEFINITION for $id {}
            impl Directive_At_ARGUMENT_DEFINITION for $id {}
            impl Directive_At_INPUT_OBJECT for $id {}
            impl Directive_At_INTERFACE for $id {}
            impl Directive_At_ENUM for $id {}
            impl Directive_At_ENUM_VALUE for $id {}
            impl $id {
                pub fn apply() -> MetaDirectiveInvocation {
                    let s = slot($i);
                    MetaDirectiveInvocation { name: s.name, args: s.app.into_iter().collect() }
                }
            }
        };
    }

    slot_directive!(S0, 0);
    slot_directive!(S1, 1);
    slot_directive!(S2, 2);
    slot_directive!(S3, 3);
    slot_directive!(S4, 4);
    slot_directive!(S5, 5);
    slot_directive!(S6, 6);

    #[TypeDirective(location = "Object", composable = "https://custom.spec.dev/extension/v1.0")]
    pub fn linked() {}

    #[TypeDirective(location = "Object", location = "FieldDefinition", composable = "https://example.org/spec/\"v1\"\\n")]
    pub fn hostile_url(note: Option<String>) {}

    #[derive(Enum, Copy, Clone, Eq, PartialEq)]
    #[graphql(directive = S2::apply())]
    pub enum Kind {
        #[graphql(directive = S3::apply())]
        A,
        B,
    }

    #[derive(InputObject)]
    #[graphql(directive = S4::apply())]
    pub struct Inp {
        #[graphql(directive = S5::apply())]
        pub x: Option<i32>,
    }

    #[derive(SimpleObject)]
    #[graphql(directive = S0::apply())]
    pub struct Item {
        #[graphql(directive = S1::apply())]
        pub a: i32,
        pub k: Kind,
    }

    #[derive(SimpleObject)]
    #[graphql(directive = linked::apply())]
    pub struct Extra {
        pub id: i32,
    }

    #[derive(SimpleObject)]
    #[graphql(directive = hostile_url::apply(None))]
    pub struct Odd {
        pub id: i32,
    }

    pub struct QueryA;

    #[Object(name = "Query")]
    impl QueryA {
        async fn item(&self, #[graphql(directive = S6::apply())] inp: Option<Inp>) -> Option<Item> {
            None
        }
        async fn extra(&self) -> Option<Extra> {
            None
        }
    }

    pub struct QueryB;

    #[Object(name = "Query")]
    impl QueryB {
        async fn item(&self, #[graphql(directive = S6::apply())] inp: Option<Inp>) -> Option<Item> {
            None
        }
        async fn extra(&self) -> Option<Extra> {
            None
        }
        async fn odd(&self) -> Option<Odd> {
            None
        }
    }

    pub fn location(s: &str) -> __DirectiveLocation {
        use __DirectiveLocation::*;
        match s {
            "QUERY" => QUERY,
            "MUTATION" => MUTATION,
            "SUBSCRIPTION" => SUBSCRIPTION,
            "FIELD" => FIELD,
            "FRAGMENT_DEFINITION" => FRAGMENT_DEFINITION,
            "FRAGMENT_SPREAD" => FRAGMENT_SPREAD,
            "INLINE_FRAGMENT" => INLINE_FRAGMENT,
            "VARIABLE_DEFINITION" => VARIABLE_DEFINITION,
            "SCHEMA" => SCHEMA,
            "SCALAR" => SCALAR,
            "OBJECT" => OBJECT,
            "FIELD_DEFINITION" => FIELD_DEFINITION,
            "ARGUMENT_DEFINITION" => ARGUMENT_DEFINITION,
            "INTERFACE" => INTERFACE,
            "UNION" => UNION,
            "ENUM" => ENUM,
            "ENUM_VALUE" => ENUM_VALUE,
            "INPUT_OBJECT" => INPUT_OBJECT,
            "INPUT_FIELD_DEFINITION" => INPUT_FIELD_DEFINITION,
            l => panic!("bad location {l}"),
        }
    }

    pub fn export_a() -> Box<dyn Fn(SDLExportOptions) -> String> {
        let s = Schema::build(QueryA, EmptyMutation, EmptySubscription).finish();
        Box::new(move |o| s.sdl_with_options(o))
    }

    pub fn export_b() -> Box<dyn Fn(SDLExportOptions) -> String> {
        let s = Schema::build(QueryB, EmptyMutation, EmptySubscription).finish();
        Box::new(move |o| s.sdl_with_options(o))
    }
}

const LINKED_URL: &str = "https://custom.spec.dev/extension/v1.0";
const OTHER_URL: &str = "https://example.com/other/v2";
const HOSTILE_MACRO_URL: &str = "https://example.org/spec/\"v1\"\\n";
const LOCATIONS: &[&str] = &[
    "QUERY", "MUTATION", "SUBSCRIPTION", "FIELD", "FRAGMENT_DEFINITION", "FRAGMENT_SPREAD", "INLINE_FRAGMENT",
    "VARIABLE_DEFINITION", "SCHEMA", "SCALAR", "OBJECT", "FIELD_DEFINITION", "ARGUMENT_DEFINITION", "INTERFACE", "UNION",
    "ENUM", "ENUM_VALUE", "INPUT_OBJECT", "INPUT_FIELD_DEFINITION",
];

/// the seven places of `fixed3` that carry a slot directive: (type, member, argument)
const SLOT_SITES: &[(&str, Option<&str>, Option<&str>)] = &[
    ("Item", None, None),
    ("Item", Some("a"), None),
    ("Kind", None, None),
    ("Kind", Some("A"), None),
    ("Inp", None, None),
    ("Inp", Some("x"), None),
    ("Query", Some("item"), Some("inp")),
];

/// the first directive application written in the case at a slot site
fn site_app<'a>(types: &'a [Sexp], site: &(&str, Option<&str>, Option<&str>)) -> &'a Sexp {
    let t = types.iter().find(|t| t.args()[0].as_str() == Some(site.0)).expect("slot type");
    let q = t.args();
    let attrs_of = |a: &'a Sexp| -> &'a Sexp { &a.args()[4].as_list().unwrap()[0] };
    let Some(member) = site.1 else { return attrs_of(&q[1]) };
    let members = q.last().unwrap().as_list().unwrap();
    let m = members
        .iter()
        .find(|m| match m.tag() {
            Some("f") | Some("iv") => m.args()[0].as_str() == Some(member),
            _ => m.as_list().unwrap()[0].as_str() == Some(member),
        })
        .expect("slot member");
    match (m.tag(), site.2) {
        (Some("f"), Some(arg)) => {
            let iv = m.args()[3].as_list().unwrap().iter().find(|iv| iv.args()[0].as_str() == Some(arg)).expect("slot argument");
            attrs_of(&iv.args()[1])
        }
        (Some("f"), None) | (Some("iv"), _) => attrs_of(&m.args()[1]),
        _ => attrs_of(&m.as_list().unwrap()[1]),
    }
}

/// configure the slot directives of `fixed3` from the case: definition by name from `ddefs`,
/// application arguments from the slot's site
fn configure_slots(schema: &Sexp) {
    let p = schema.args();
    let types = p[1].as_list().unwrap();
    let ddefs = p[2].args();
    let slots = SLOT_SITES
        .iter()
        .map(|site| {
            let app = site_app(types, site).as_list().unwrap();
            let name = app[0].as_str().unwrap();
            let d = ddefs.iter().find(|d| d.args()[0].as_str() == Some(name)).expect("slot definition").args();
            fixed3::Slot {
                name: name.to_string(),
                desc: d[1].as_str().map(str::to_string),
                args: d[2]
                    .as_list()
                    .unwrap()
                    .iter()
                    .map(|iv| {
                        let q = iv.args();
                        fixed3::ArgCfg {
                            name: q[0].as_str().unwrap().to_string(),
                            ty: q[2].as_str().unwrap().to_string(),
                            default: if q[3].as_atom() == Some("-") { None } else { Some(value(&q[3])) },
                        }
                    })
                    .collect(),
                repeatable: b(&d[3]),
                locs: d[4].as_list().unwrap().iter().map(|l| fixed3::location(l.as_str().unwrap())).collect(),
                composable: d[5].as_str().map(str::to_string),
                app: app[1..]
                    .iter()
                    .map(|kv| {
                        let kv = kv.as_list().unwrap();
                        (kv[0].as_str().unwrap().to_string(), value(&kv[1]))
                    })
                    .collect(),
            }
        })
        .collect();
    fixed3::SLOTS.with(|s| *s.borrow_mut() = slots);
}

const FIXED2_DESC: &str =r#"(static2 (roots "Query" -) ((interface "Inner" (a - - false () (("marked" ("note" (s "m"))))) false ("Outer") ((f "id" (a - - false () ()) "Int!" ()))) (object "Leaf" (a - - false () ()) false ("Inner") ((f "id" (a - - false () ()) "Int!" ()) (f "old" (a - - false () ()) "Int!" ()))) (interface "Outer" (a - - false () ()) false () ((f "id" (a - - false () ()) "Int!" ()))) (object "Query" (a - - false () ()) false () ((f "outer" (a - - false () ()) "Outer" ())))) (ddefs (ddef "marked" - ((iv "note" (a - - false () ()) "String!" -)) false ("INTERFACE") -)))"#;

/// what the derive macros register for `fixed::schema()` (checked by the model tie on every run)
const FIXED_DESC: &str = r#"(static (roots "Query" "Mutation") ((enum "Color" (a "A colour" - false () ()) (("RED" (a "like blood" - false () ())) ("GREEN" (a - (dep "too green") false () ())) ("BLUE" (a - (dep) false () ())))) (union "Either" (a - - false () ()) ("Thing" "Other")) (input "Filter" (a "Input with defaults" - false () ()) false ((iv "limit" (a "how many" - false () ()) "Int!" (i 5)) (iv "text" (a - - false () ()) "String!" (s "a\"b\\c")) (iv "ids" (a - - false () ()) "[Int!]!" (l (i 1) (i 2))) (iv "color" (a - - false () ()) "Color" -))) (object "Mutation" (a - - false () ()) false () ((f "touch" (a - (dep "gone") false () ()) "Boolean!" ((iv "id" (a - - false () ()) "Int!" -))))) (interface "Node" (a - - false () ()) false () ((f "id" (a "the id" - false () ()) "Int!" ()))) (object "Other" (a - - false () ()) false ("Node") ((f "id" (a - - false () ()) "Int!" ()) (f "flag" (a - - false () ()) "Boolean!" ()))) (input "Pick" (a - - false () ()) true ((iv "byId" (a - - false () ()) "Int" -) (iv "byName" (a "by its name" - false () ()) "String" -))) (object "Query" (a "The root\n\nsecond paragraph" - false () ()) false () ((f "things" (a "finds things" - false () ()) "[Thing!]!" ((iv "filter" (a "the filter" - false () ()) "Filter" -) (iv "first" (a - - false () ()) "Int!" (i 10)) (iv "after" (a - - false () ()) "String!" (s "x y")))) (f "pick" (a - - false () ()) "Either" ((iv "by" (a - - false () ()) "Pick!" -))) (f "node" (a - - false () ()) "Node" ((iv "color" (a - - false () ()) "Color!" (e "RED")))))) (object "Thing" (a "A thing with a \"quoted\" word" - false ("team-a") (("labelled" ("text" (s "on \"type\"")) ("weight" (i 3))))) false ("Node") ((f "id" (a "the id" - false () ()) "Int!" ()) (f "oldId" (a - (dep "use id") false () ()) "String!" ()) (f "label" (a - - false ("internal") (("labelled" ("text" (s "on field"))))) "String" ())))) (ddefs (ddef "labelled" - ((iv "text" (a - - false () ()) "String!" -) (iv "weight" (a - - false () ()) "Int" -)) false ("FIELD_DEFINITION" "OBJECT") -)))"#;

// ------------------------------------------------------------------ the crate's parser → canonical document

fn cvalue(v: &ConstValue) -> Sexp {
    match v {
        ConstValue::Null => atom("null"),
        ConstValue::Number(n) => {
            if let Some(i) = n.as_i64() {
                node("i", vec![atom(i.to_string())])
            } else if let Some(u) = n.as_u64() {
                node("i", vec![atom(u.to_string())])
            } else {
                node("fl", vec![atom(n.as_f64().unwrap_or(f64::NAN).to_bits().to_string())])
            }
        }
        ConstValue::String(s) => node("s", vec![st(s.clone())]),
        ConstValue::Boolean(x) => node("b", vec![atom(x.to_string())]),
        ConstValue::Binary(_) => atom("binary"),
        ConstValue::Enum(n) => node("e", vec![st(n.to_string())]),
        ConstValue::List(xs) => node("l", xs.iter().map(cvalue).collect()),
        ConstValue::Object(m) => node("o", m.iter().map(|(k, v)| list(vec![st(k.to_string()), cvalue(v)])).collect()),
    }
}

fn desc(d: &Option<async_graphql_parser::Positioned<String>>) -> Sexp {
    match d {
        Some(s) => st(s.node.clone()),
        None => atom("-"),
    }
}

/// directive applications in canonical order: stable sort by name
fn dirs(ds: &[async_graphql_parser::Positioned<ConstDirective>]) -> Sexp {
    let mut ds: Vec<_> = ds.iter().collect();
    ds.sort_by(|a, b| a.node.name.node.as_str().cmp(b.node.name.node.as_str()));
    list(
        ds.iter()
            .map(|d| {
                let mut v = vec![st(d.node.name.node.to_string())];
                for (k, x) in &d.node.arguments {
                    v.push(list(vec![st(k.node.to_string()), cvalue(&x.node)]));
                }
                list(v)
            })
            .collect(),
    )
}

fn ivd(x: &InputValueDefinition) -> Sexp {
    node(
        "iv",
        vec![
            st(x.name.node.to_string()),
            desc(&x.description),
            st(x.ty.node.to_string()),
            match &x.default_value {
                Some(v) => cvalue(&v.node),
                None => atom("-"),
            },
            dirs(&x.directives),
        ],
    )
}

fn fld(x: &FieldDefinition) -> Sexp {
    node(
        "f",
        vec![
            st(x.name.node.to_string()),
            desc(&x.description),
            list(x.arguments.iter().map(|a| ivd(&a.node)).collect()),
            st(x.ty.node.to_string()),
            dirs(&x.directives),
        ],
    )
}

/// `FieldDefinition` → `FIELD_DEFINITION`
fn screaming(camel: &str) -> String {
    let mut o = String::new();
    for (i, c) in camel.chars().enumerate() {
        if c.is_ascii_uppercase() && i > 0 {
            o.push('_');
        }
        o.push(c.to_ascii_uppercase());
    }
    o
}

fn optname(n: &Option<async_graphql_parser::Positioned<Name>>) -> Sexp {
    match n {
        Some(n) => st(n.node.to_string()),
        None => atom("-"),
    }
}

fn doc(d: &ServiceDocument) -> Sexp {
    let mut out = vec![];
    for def in &d.definitions {
        out.push(match def {
            TypeSystemDefinition::Schema(s) => {
                let s = &s.node;
                node(
                    "schema",
                    vec![atom(s.extend.to_string()), dirs(&s.directives), optname(&s.query), optname(&s.mutation), optname(&s.subscription)],
                )
            }
            TypeSystemDefinition::Type(t) => {
                let t = &t.node;
                let names = |v: &[async_graphql_parser::Positioned<Name>]| list(v.iter().map(|n| st(n.node.to_string())).collect());
                let (kind, body) = match &t.kind {
                    TypeKind::Scalar => ("scalar", list(vec![])),
                    TypeKind::Object(o) => ("object", list(vec![names(&o.implements), list(o.fields.iter().map(|f| fld(&f.node)).collect())])),
                    TypeKind::Interface(o) => {
                        ("interface", list(vec![names(&o.implements), list(o.fields.iter().map(|f| fld(&f.node)).collect())]))
                    }
                    TypeKind::Union(u) => ("union", names(&u.members)),
                    TypeKind::Enum(e) => (
                        "enum",
                        list(
                            e.values
                                .iter()
                                .map(|v| list(vec![st(v.node.value.node.to_string()), desc(&v.node.description), dirs(&v.node.directives)]))
                                .collect(),
                        ),
                    ),
                    TypeKind::InputObject(o) => ("input", list(o.fields.iter().map(|f| ivd(&f.node)).collect())),
                };
                node(
                    "type",
                    vec![atom(kind), atom(t.extend.to_string()), st(t.name.node.to_string()), desc(&t.description), dirs(&t.directives), body],
                )
            }
            TypeSystemDefinition::Directive(d) => {
                let d = &d.node;
                node(
                    "directive",
                    vec![
                        st(d.name.node.to_string()),
                        desc(&d.description),
                        list(d.arguments.iter().map(|a| ivd(&a.node)).collect()),
                        atom(d.is_repeatable.to_string()),
                        list(d.locations.iter().map(|l| atom(screaming(&format!("{:?}", l.node)))).collect()),
                    ],
                )
            }
        });
    }
    node("doc", out)
}

// ------------------------------------------------------------------ run

fn options(o: &Sexp) -> SDLExportOptions {
    let a = o.args();
    let mut x = SDLExportOptions::new();
    if b(&a[0]) {
        x = x.sorted_fields();
    }
    if b(&a[1]) {
        x = x.sorted_arguments();
    }
    if b(&a[2]) {
        x = x.sorted_enum_items();
    }
    if b(&a[3]) {
        x = x.prefer_single_line_descriptions();
    }
    if b(&a[4]) {
        x = x.include_specified_by();
    }
    if b(&a[5]) {
        x = x.federation();
    }
    if b(&a[6]) {
        x = x.compose_directive();
    }
    if b(&a[7]) {
        x = x.use_space_ident();
    }
    let w = a[8].as_usize().unwrap();
    if w != 2 {
        x = x.indent_width(w as u8);
    }
    x
}

fn run(case: &Sexp, dist: &mut Dist) -> Sexp {
    let p = case.args();
    let optsets = p[0].args();
    let schema = &p[1];
    let export: Box<dyn Fn(SDLExportOptions) -> String> = match schema.tag().unwrap() {
        "dyn" => match build_dyn(schema) {
            Ok(s) => Box::new(move |o| s.sdl_with_options(o)),
            Err(e) => {
                dist.hit("build_errors");
                return node("builderr", vec![st(e)]);
            }
        },
        "static" => {
            let s = fixed::schema();
            Box::new(move |o| s.sdl_with_options(o))
        }
        "static2" => {
            let s = fixed2::schema();
            Box::new(move |o| s.sdl_with_options(o))
        }
        "static3" => {
            configure_slots(schema);
            fixed3::export_a()
        }
        "static4" => {
            configure_slots(schema);
            fixed3::export_b()
        }
        // the declaration zoo (src/zoo.rs): the case carries the description written by hand next
        // to the declarations
        "static5" => {
            let s = zoo::build_no_sub();
            Box::new(move |o| s.sdl_with_options(o))
        }
        k => panic!("bad schema kind {k}"),
    };
    let mut outs = vec![];
    for o in optsets {
        let sdl = export(options(o));
        let parsed = match parse_schema(&sdl) {
            Ok(d) => {
                dist.hit("crate_parse_ok");
                doc(&d)
            }
            Err(_) => {
                dist.hit("crate_parse_err");
                atom("err")
            }
        };
        outs.push(node("out", vec![node("sdl", vec![st(sdl)]), node("crate", vec![parsed])]));
    }
    node("outs", outs)
}

// ------------------------------------------------------------------ generator

const WORDS: &[&str] = &["alpha", "beta", "the quick fox", "x", "Hello, world", "a-b c_d", "1 + 2 = 3", "it's", "see #4", "{ }"];
const NASTY: &[&str] = &[
    "\"", "\\", "\n", "\"\"\"", "\\\"\"\"", " ", "  ", "\t", "\n\n", "\r", "\r\n", "\u{e9}", "\u{6f22}\u{5b57}", "\u{1f600}",
    "\u{1}", "\u{7f}", "\u{8}", "\u{c}", "\\u0041", "\\n", "\"\"", "say \"no\"", "#", "\u{feff}", "\u{2028}", "\\\\", "end\\",
];

/// share of adversarial texts in the schema being generated (0 for about half of the schemas, so
/// that whole documents free of any listed defect are well represented)
static NASTY_PCT: std::sync::atomic::AtomicUsize = std::sync::atomic::AtomicUsize::new(0);

fn text(rng: &mut Rng, dist: &mut Dist) -> String {
    let nasty = NASTY_PCT.load(std::sync::atomic::Ordering::Relaxed);
    let k = rng.below(100);
    if k < 90 - nasty {
        dist.hit("text_plain");
        rng.pick(WORDS).to_string()
    } else if k < 100 - nasty {
        // multi-line but harmless
        dist.hit("text_multiline_plain");
        format!("{}\n{}", rng.pick(WORDS), rng.pick(WORDS))
    } else {
        dist.hit("text_nasty");
        let n = 1 + rng.below(4);
        let mut s = String::new();
        for _ in 0..n {
            if rng.chance(1, 2) {
                s.push_str(*rng.pick(NASTY));
            } else {
                s.push_str(*rng.pick(WORDS));
            }
        }
        s
    }
}

fn gen_value(rng: &mut Rng, depth: usize, dist: &mut Dist) -> Sexp {
    let k = rng.below(if depth == 0 { 6 } else { 8 });
    match k {
        0 => atom("null"),
        1 => node(
            "i",
            vec![atom(
                match rng.below(4) {
                    0 => 0i64,
                    1 => rng.range(-20, 20),
                    2 => i64::MIN,
                    _ => rng.next_u64() as i64,
                }
                .to_string(),
            )],
        ),
        2 | 3 => node("s", vec![st(text(rng, dist))]),
        4 => node("b", vec![atom(rng.chance(1, 2).to_string())]),
        5 => node("e", vec![st(*rng.pick(&["RED", "A", "on", "_x1", "type"]))]),
        6 => node("l", (0..rng.below(3)).map(|_| gen_value(rng, depth - 1, dist)).collect()),
        _ => {
            let mut keys = vec!["a", "b", "key", "null", "on"];
            rng.shuffle(&mut keys);
            let n = rng.below(3);
            node("o", keys[..n].iter().map(|k| list(vec![st(*k), gen_value(rng, depth - 1, dist)])).collect())
        }
    }
}

fn gen_dirs(rng: &mut Rng, dist: &mut Dist) -> Sexp {
    let mut v = vec![];
    if rng.chance(1, 6) {
        dist.hit("directive_applications");
        for _ in 0..1 + rng.below(2) {
            let mut d = vec![st(*rng.pick(&["d", "meta", "auth"]))];
            let mut keys = vec!["a", "name", "if"];
            rng.shuffle(&mut keys);
            for k in &keys[..rng.below(3)] {
                d.push(list(vec![st(*k), gen_value(rng, 1, dist)]));
            }
            v.push(list(d));
        }
    }
    list(v)
}

/// `dep`: may carry a deprecation
fn gen_attrs(rng: &mut Rng, dep: bool, dist: &mut Dist) -> Sexp {
    let d = if rng.chance(2, 5) {
        dist.hit("descriptions");
        st(text(rng, dist))
    } else {
        atom("-")
    };
    let dp = if dep && rng.chance(1, 5) {
        if rng.chance(1, 4) {
            dist.hit("deprecated_no_reason");
            list(vec![atom("dep")])
        } else {
            dist.hit("deprecated_reason");
            node("dep", vec![st(text(rng, dist))])
        }
    } else {
        atom("-")
    };
    let mut tags = vec![];
    if rng.chance(1, 8) {
        dist.hit("tags");
        for _ in 0..1 + rng.below(2) {
            tags.push(st(text(rng, dist)));
        }
    }
    node("a", vec![d, dp, atom(rng.chance(1, 12).to_string()), list(tags), gen_dirs(rng, dist)])
}

fn wrap(rng: &mut Rng, n: &str) -> String {
    match rng.below(6) {
        0 | 1 => n.to_string(),
        2 => format!("{n}!"),
        3 => format!("[{n}]"),
        4 => format!("[{n}!]!"),
        _ => format!("[[{n}]!]"),
    }
}

fn names(prefix: &str, n: usize, rng: &mut Rng) -> Vec<String> {
    // names that sort differently from their creation order
    let mut v: Vec<String> = (0..n).map(|i| format!("{prefix}{}", ["b", "a", "C", "_d", "a2"][i])).collect();
    rng.shuffle(&mut v);
    v
}

fn gen_iv(rng: &mut Rng, name: &str, in_types: &[String], nullable_only: bool, dist: &mut Dist) -> Sexp {
    let base = rng.pick(in_types).clone();
    let ty = if nullable_only { base } else { wrap(rng, &base) };
    let dv = if !nullable_only && rng.chance(1, 3) {
        dist.hit("default_values");
        gen_value(rng, 2, dist)
    } else {
        atom("-")
    };
    node("iv", vec![st(name), gen_attrs(rng, !nullable_only, dist), st(ty), dv])
}

fn gen_field(rng: &mut Rng, name: &str, out_types: &[String], in_types: &[String], dist: &mut Dist) -> Sexp {
    let mut an = vec!["x", "b", "a", "zz", "_k"];
    rng.shuffle(&mut an);
    let nargs = [0, 0, 1, 2, 3][rng.below(5)];
    let args = an[..nargs].iter().map(|n| gen_iv(rng, n, in_types, false, dist)).collect();
    node("f", vec![st(name), gen_attrs(rng, true, dist), st({ let t: String = rng.pick(out_types).clone(); wrap(rng, &t) }), list(args)])
}

fn gen_fields(rng: &mut Rng, out_types: &[String], in_types: &[String], dist: &mut Dist) -> Vec<Sexp> {
    let mut fnm = vec!["id", "name", "b", "a", "Zed", "_u"];
    rng.shuffle(&mut fnm);
    // the names of the federation machinery's root fields, as ordinary fields
    if rng.chance(1, 25) {
        dist.hit("fields_named_like_federation_machinery");
        if rng.chance(1, 2) {
            fnm.insert(0, "_service");
            if rng.chance(1, 3) {
                fnm.insert(1, "_entities");
            }
        } else {
            fnm.insert(0, "_entities");
        }
    }
    let n = 1 + rng.below(3);
    fnm[..n].iter().map(|f| gen_field(rng, f, out_types, in_types, dist)).collect()
}

/// re-decorate an interface field for an implementer: same name, type and arguments (names,
/// types), fresh descriptions / deprecations / directives
fn refield(rng: &mut Rng, f: &Sexp, dist: &mut Dist) -> Sexp {
    let p = f.args();
    let args = p[3]
        .as_list()
        .unwrap()
        .iter()
        .map(|iv| {
            let q = iv.args();
            node("iv", vec![q[0].clone(), gen_attrs(rng, true, dist), q[2].clone(), q[3].clone()])
        })
        .collect();
    node("f", vec![p[0].clone(), gen_attrs(rng, true, dist), p[2].clone(), list(args)])
}

fn gen_schema(rng: &mut Rng, dist: &mut Dist) -> Sexp {
    let scalars = names("S", rng.below(3), rng);
    let enums = names("E", rng.below(3), rng);
    let inputs = names("I", rng.below(3), rng);
    let ifaces = names("N", rng.below(3), rng);
    let objects = names("O", rng.below(4), rng);
    let unions = if objects.is_empty() { vec![] } else { names("U", rng.below(2), rng) };
    // a user type named `Any` (the name of a scalar a federation export leaves out)
    let (mut scalars, mut enums, mut inputs, mut ifaces, mut objects, mut unions) = (scalars, enums, inputs, ifaces, objects, unions);
    if rng.chance(1, 8) {
        if !scalars.is_empty() && rng.chance(2, 3) {
            dist.hit("scalar_named_Any");
            scalars[0] = "Any".to_string();
        } else {
            let kinds: Vec<&mut Vec<String>> =
                vec![&mut enums, &mut inputs, &mut ifaces, &mut objects, &mut unions].into_iter().filter(|v| !v.is_empty()).collect();
            if !kinds.is_empty() {
                dist.hit("non_scalar_named_Any");
                let mut kinds = kinds;
                let k = rng.below(kinds.len());
                kinds[k][0] = "Any".to_string();
            }
        }
    }

    let mut leaf: Vec<String> = vec!["Int".into(), "String".into(), "Boolean".into(), "ID".into(), "Float".into()];
    leaf.extend(scalars.iter().cloned());
    leaf.extend(enums.iter().cloned());
    let mut out_types = leaf.clone();
    out_types.extend(ifaces.iter().cloned());
    out_types.extend(objects.iter().cloned());
    out_types.extend(unions.iter().cloned());

    let mut types = vec![];
    for s in &scalars {
        let url = if rng.chance(1, 3) {
            dist.hit("specified_by");
            st(if rng.chance(1, 3) { text(rng, dist) } else { "https://example.com/spec".to_string() })
        } else {
            atom("-")
        };
        types.push(node("scalar", vec![st(s.clone()), gen_attrs(rng, false, dist), url]));
    }
    for e in &enums {
        let mut vn = vec!["RED", "B", "a", "_X", "Zed"];
        rng.shuffle(&mut vn);
        let n = 1 + rng.below(3);
        let vals = vn[..n].iter().map(|v| list(vec![st(*v), gen_attrs(rng, true, dist)])).collect();
        types.push(node("enum", vec![st(e.clone()), gen_attrs(rng, false, dist), list(vals)]));
    }
    // input objects may only refer to earlier input objects (no cycles)
    let mut in_types = leaf.clone();
    for i in &inputs {
        let oneof = rng.chance(1, 4);
        if oneof {
            dist.hit("oneof_inputs");
        }
        let mut fnm = vec!["x", "b", "a", "Zed"];
        rng.shuffle(&mut fnm);
        let n = 1 + rng.below(3);
        let fs = fnm[..n].iter().map(|f| gen_iv(rng, f, &in_types, oneof, dist)).collect();
        types.push(node("input", vec![st(i.clone()), gen_attrs(rng, false, dist), atom(oneof.to_string()), list(fs)]));
        in_types.push(i.clone());
    }
    // interfaces: a later interface may implement earlier ones (and then repeats their fields)
    let mut iface_fields: Vec<(String, Vec<String>, Vec<Sexp>)> = vec![]; // name, transitive implements, fields
    for n in &ifaces {
        let mut fields = gen_fields(rng, &out_types, &in_types, dist);
        let mut impls: Vec<String> = vec![];
        if !iface_fields.is_empty() && rng.chance(1, 2) {
            let (pn, pimpls, pf) = rng.clone().pick(&iface_fields).clone();
            rng.next_u64();
            impls.push(pn);
            impls.extend(pimpls);
            let have: Vec<String> = pf.iter().map(|f| f.args()[0].as_str().unwrap().to_string()).collect();
            fields.retain(|f| !have.contains(&f.args()[0].as_str().unwrap().to_string()));
            for f in &pf {
                fields.push(refield(rng, f, dist));
            }
            dist.hit("interface_implements");
        }
        let a = gen_attrs(rng, false, dist);
        types.push(node(
            "interface",
            vec![st(n.clone()), a, atom(rng.chance(1, 6).to_string()), list(impls.iter().map(|x| st(x.clone())).collect()), list(fields.clone())],
        ));
        iface_fields.push((n.clone(), impls, fields));
    }
    let mut all_objects = objects.clone();
    all_objects.push("Query".into());
    let mutation = rng.chance(1, 3);
    if mutation {
        all_objects.push("Mut".into());
    }
    for o in &all_objects {
        let mut fields = gen_fields(rng, &out_types, &in_types, dist);
        let mut impls: Vec<String> = vec![];
        if !iface_fields.is_empty() && rng.chance(1, 2) {
            let (pn, pimpls, pf) = rng.clone().pick(&iface_fields).clone();
            rng.next_u64();
            impls.push(pn);
            impls.extend(pimpls);
            let have: Vec<String> = pf.iter().map(|f| f.args()[0].as_str().unwrap().to_string()).collect();
            fields.retain(|f| !have.contains(&f.args()[0].as_str().unwrap().to_string()));
            for f in &pf {
                fields.push(refield(rng, f, dist));
            }
            dist.hit("object_implements");
        }
        let a = gen_attrs(rng, false, dist);
        types.push(node(
            "object",
            vec![st(o.clone()), a, atom(rng.chance(1, 6).to_string()), list(impls.iter().map(|x| st(x.clone())).collect()), list(fields)],
        ));
    }
    for u in &unions {
        let mut ms = objects.clone();
        rng.shuffle(&mut ms);
        let n = 1 + rng.below(ms.len());
        types.push(node("union", vec![st(u.clone()), gen_attrs(rng, false, dist), list(ms[..n].iter().map(|m| st(m.clone())).collect())]));
    }
    rng.shuffle(&mut types);
    dist.add("types", types.len() as u64);
    node(
        "dyn",
        vec![
            node("roots", vec![st("Query"), if mutation { st("Mut") } else { atom("-") }]),
            list(types),
            node("ddefs", vec![]),
        ],
    )
}

/// a composable URL no exporter should write verbatim
fn hostile_url(rng: &mut Rng) -> String {
    let mut s = String::new();
    if rng.chance(1, 2) {
        s.push_str("https://e.org/");
    }
    let n = 1 + rng.below(3);
    let at = rng.below(n);
    for i in 0..n {
        if i == at || rng.chance(1, 2) {
            s.push_str(*rng.pick(NASTY));
        } else {
            s.push_str(*rng.pick(WORDS));
        }
    }
    s
}

/// the `fixed3` family: slot directive definitions and applications drawn here, the type skeleton
/// is the derive-built one.  `variant_b`: the root with the macro-defined `hostile_url` directive.
fn gen_fixed3(rng: &mut Rng, variant_b: bool, dist: &mut Dist) -> Sexp {
    // at most three distinct composable URLs per schema (the exporter groups them in a HashMap:
    // the judge tries every order of the groups)
    let second = if variant_b {
        HOSTILE_MACRO_URL.to_string()
    } else if rng.chance(2, 5) {
        dist.hit("compose_url_hostile_schemas");
        hostile_url(rng)
    } else {
        OTHER_URL.to_string()
    };
    let third = if !variant_b && rng.chance(1, 4) { Some(if rng.chance(1, 2) { hostile_url(rng) } else { "urn:x".to_string() }) } else { None };
    let mut pool = vec![LINKED_URL.to_string(), second];
    pool.extend(third);
    let mut names = vec!["cd", "meta", "auth", "zeta", "Link_2", "_x"];
    rng.shuffle(&mut names);
    let ndefs = 1 + rng.below(4);
    let a0 = || Sexp::parse("(a - - false () ())").unwrap();
    let mut ddefs = vec![];
    let mut argnames: Vec<Vec<&str>> = vec![];
    for name in &names[..ndefs] {
        let desc = if rng.chance(1, 3) { st(text(rng, dist)) } else { atom("-") };
        let mut an = vec!["a", "name", "if", "url"];
        rng.shuffle(&mut an);
        let nargs = [0, 1, 1, 2][rng.below(4)];
        let args: Vec<Sexp> = an[..nargs]
            .iter()
            .map(|n| {
                let ty = { let base = *rng.pick(&["String", "Int", "Boolean", "ID"]); wrap(rng, base) };
                let dv = if rng.chance(1, 3) { gen_value(rng, 1, dist) } else { atom("-") };
                node("iv", vec![st(*n), a0(), st(ty), dv])
            })
            .collect();
        argnames.push(an[..nargs].to_vec());
        let mut locs: Vec<&str> = LOCATIONS.to_vec();
        rng.shuffle(&mut locs);
        let nlocs = 1 + rng.below(4);
        let comp = if rng.chance(2, 5) {
            atom("-")
        } else {
            dist.hit("composable_definitions");
            st(rng.pick(&pool).clone())
        };
        ddefs.push(node(
            "ddef",
            vec![st(*name), desc, list(args), atom(rng.chance(1, 3).to_string()), list(locs[..nlocs].iter().map(|l| st(*l)).collect()), comp],
        ));
    }
    let app = |rng: &mut Rng, dist: &mut Dist| {
        let i = rng.below(ndefs);
        let mut v = vec![st(names[i])];
        for k in &argnames[i] {
            if rng.chance(1, 2) {
                v.push(list(vec![st(*k), gen_value(rng, 1, dist)]));
            }
        }
        list(vec![list(v)])
    };
    let at = |d: Sexp| node("a", vec![atom("-"), atom("-"), atom("false"), list(vec![]), d]);
    let apps: Vec<Sexp> = (0..SLOT_SITES.len()).map(|_| app(rng, dist)).collect();
    // a `TypeDirective` is registered when it is applied: only the applied definitions exist
    ddefs.retain(|d| apps.iter().any(|a| a.as_list().unwrap()[0].as_list().unwrap()[0].as_str() == d.args()[0].as_str()));
    dist.add("slot_directive_definitions", ddefs.len() as u64);
    let named = |n: &str| list(vec![list(vec![st(n)])]);
    let mut types = vec![
        node("enum", vec![st("Kind"), at(apps[2].clone()), list(vec![list(vec![st("A"), at(apps[3].clone())]), list(vec![st("B"), a0()])])]),
        node("input", vec![st("Inp"), at(apps[4].clone()), atom("false"), list(vec![node("iv", vec![st("x"), at(apps[5].clone()), st("Int"), atom("-")])])]),
        node(
            "object",
            vec![
                st("Item"),
                at(apps[0].clone()),
                atom("false"),
                list(vec![]),
                list(vec![
                    node("f", vec![st("a"), at(apps[1].clone()), st("Int!"), list(vec![])]),
                    node("f", vec![st("k"), a0(), st("Kind!"), list(vec![])]),
                ]),
            ],
        ),
        node(
            "object",
            vec![st("Extra"), at(named("linked")), atom("false"), list(vec![]), list(vec![node("f", vec![st("id"), a0(), st("Int!"), list(vec![])])])],
        ),
    ];
    let mut qfields = vec![
        node("f", vec![st("item"), a0(), st("Item"), list(vec![node("iv", vec![st("inp"), at(apps[6].clone()), st("Inp"), atom("-")])])]),
        node("f", vec![st("extra"), a0(), st("Extra"), list(vec![])]),
    ];
    ddefs.push(node("ddef", vec![st("linked"), atom("-"), list(vec![]), atom("false"), list(vec![st("OBJECT")]), st(LINKED_URL)]));
    if variant_b {
        types.push(node(
            "object",
            vec![st("Odd"), at(named("hostile_url")), atom("false"), list(vec![]), list(vec![node("f", vec![st("id"), a0(), st("Int!"), list(vec![])])])],
        ));
        qfields.push(node("f", vec![st("odd"), a0(), st("Odd"), list(vec![])]));
        ddefs.push(node(
            "ddef",
            vec![
                st("hostile_url"),
                atom("-"),
                list(vec![node("iv", vec![st("note"), a0(), st("String"), atom("-")])]),
                atom("false"),
                list(vec![st("OBJECT"), st("FIELD_DEFINITION")]),
                st(HOSTILE_MACRO_URL),
            ],
        ));
    }
    types.push(node("object", vec![st("Query"), a0(), atom("false"), list(vec![]), list(qfields)]));
    node(if variant_b { "static4" } else { "static3" }, vec![node("roots", vec![st("Query"), atom("-")]), list(types), node("ddefs", ddefs)])
}

fn gen_opts(rng: &mut Rng, dist: &mut Dist) -> Sexp {
    let mut v: Vec<Sexp> = (0..8).map(|_| atom(rng.chance(1, 2).to_string())).collect();
    v.push(atom([2usize, 2, 0, 1, 4, 7][rng.below(6)].to_string()));
    if v[5] == atom("true") && v[6] == atom("true") {
        dist.hit("opts_federation_compose");
    }
    if v[5] == atom("true") {
        dist.hit("opts_federation");
    }
    if v[3] == atom("true") {
        dist.hit("opts_single_line");
    }
    node("opts", v)
}

fn gen_case(rng: &mut Rng, i: usize, _o: &Opts, dist: &mut Dist) -> Sexp {
    let mut sets = vec![];
    if i % 16 == 0 {
        // the default options are what `Schema::sdl()` uses
        sets.push(Sexp::parse("(opts false false false false false false false false 2)").unwrap());
    }
    while sets.len() < 4 {
        sets.push(gen_opts(rng, dist));
    }
    let schema = if i % 25 == 13 {
        dist.hit("static_schema_declaration_zoo");
        zoo::wire::c17("static5", &zoo::declared(false))
    } else if i % 50 == 32 {
        dist.hit("static_schema_witnesses");
        Sexp::parse(FIXED2_DESC).expect("FIXED2_DESC")
    } else if i % 25 == 7 {
        dist.hit("static_schema");
        Sexp::parse(FIXED_DESC).expect("FIXED_DESC")
    } else if i % 10 == 4 || i % 20 == 11 {
        let variant_b = i % 20 == 11;
        dist.hit(if variant_b { "static_schema_directive_slots_b" } else { "static_schema_directive_slots" });
        let pct = [0, 0, 3, 10, 35][rng.below(5)];
        NASTY_PCT.store(pct, std::sync::atomic::Ordering::Relaxed);
        gen_fixed3(rng, variant_b, dist)
    } else {
        dist.hit("dynamic_schema");
        let pct = [0, 0, 0, 3, 10, 35][rng.below(6)];
        dist.hit(&format!("schemas_nasty_pct_{pct}"));
        NASTY_PCT.store(pct, std::sync::atomic::Ordering::Relaxed);
        gen_schema(rng, dist)
    };
    node("sdl", vec![node("optsets", sets), schema])
}

fn main() {
    main_loop(&mut gen_case, &mut run);
}
