//! C31 — persisted queries execute only the document registered under the hash.
//!
//! Case   (pq (store map | lru CAP | small CAP) (texts T…) (reqs R…))
//!   T = (t "query text" "sha256 hex of the text" (sig "S") | (noparse))
//!         S identifies the parsed document: the response keys of its fields joined by ","
//!         ("!name" for a field the schema does not have: such a document parses, is stored, and
//!         fails validation when executed)
//!   R = (r Q EXT FLAG…)      Q = index into the texts | e (empty query string)
//!         EXT = (none) | (pq VERSION "hash" [extra | list]) | (bad KIND)
//!               extra = an unknown member besides version/sha256Hash; list = the payload is the
//!               JSON array [VERSION, "hash"] (serde-derived structs decode from sequences)
//!         FLAG = pre   (the caller parsed the query ahead of time: `Request::parsed_query()`)
//!   One case is one history against ONE schema with the ApolloPersistedQueries extension over a
//!   fresh store: `map` = the harness' exact HashMap CacheStorage, `lru` = the crate's
//!   LruCacheStorage::new(CAP), `small` = a harness store that keeps only the CAP most recently
//!   used entries (LruCacheStorage rounds its capacity up and never evicts in short histories).  Requests are decoded from JSON like an HTTP body.
//! Output (outs (o OUTCOME STORE)…)   one per request
//!   OUTCOME = (exec "S") | (err notfound|mismatch|invalid|parse) | (err version V) | (err other "msg")
//!   STORE   = (st X…)  map store only: for every text, in order, what the store holds under its
//!             hash ("S" or -);  (st) for lru

use std::{
    collections::HashMap,
    sync::{Arc, Mutex},
};

use agvh::*;
use async_graphql::{
    EmptyMutation, EmptySubscription, Object, Request, Schema, async_trait,
    extensions::apollo_persisted_queries::{ApolloPersistedQueries, CacheStorage, LruCacheStorage},
    parser::types::{DocumentOperations, ExecutableDocument, Selection},
};
use sha2::{Digest, Sha256};

struct Query;

#[Object]
impl Query {
    async fn v(&self) -> i32 {
        1
    }
}

#[derive(Clone, Default)]
struct MapStore(Arc<Mutex<HashMap<String, ExecutableDocument>>>);

#[async_trait::async_trait]
impl CacheStorage for MapStore {
    async fn get(&self, key: String) -> Option<ExecutableDocument> {
        self.0.lock().unwrap().get(&key).cloned()
    }
    async fn set(&self, key: String, query: ExecutableDocument) {
        self.0.lock().unwrap().insert(key, query);
    }
}

/// a bounded store that really forgets: keeps the CAP most recently set/got entries
#[derive(Clone)]
struct SmallStore(Arc<Mutex<Vec<(String, ExecutableDocument)>>>, usize);

#[async_trait::async_trait]
impl CacheStorage for SmallStore {
    async fn get(&self, key: String) -> Option<ExecutableDocument> {
        let mut v = self.0.lock().unwrap();
        let i = v.iter().position(|(k, _)| *k == key)?;
        let e = v.remove(i);
        v.insert(0, e);
        Some(v[0].1.clone())
    }
    async fn set(&self, key: String, query: ExecutableDocument) {
        let mut v = self.0.lock().unwrap();
        v.retain(|(k, _)| *k != key);
        v.insert(0, (key, query));
        v.truncate(self.1);
    }
}

fn sha_hex(text: &str) -> String {
    format!("{:x}", Sha256::digest(text.as_bytes()))
}

fn doc_sig(doc: &ExecutableDocument) -> String {
    let mut keys = vec![];
    let mut ops = vec![];
    match &doc.operations {
        DocumentOperations::Single(op) => ops.push(op),
        DocumentOperations::Multiple(m) => ops.extend(m.values()),
    }
    for op in ops {
        for sel in &op.node.selection_set.node.items {
            if let Selection::Field(f) = &sel.node {
                let name = f.node.name.node.as_str();
                if name == "v" {
                    keys.push(f.node.response_key().node.to_string());
                } else {
                    keys.push(format!("!{name}"));
                }
            }
        }
    }
    keys.join(",")
}

fn classify(resp: &async_graphql::Response) -> Sexp {
    if resp.errors.is_empty() {
        let keys: Vec<String> = match &resp.data {
            async_graphql::Value::Object(m) => m.keys().map(|k| k.to_string()).collect(),
            _ => vec!["?".into()],
        };
        return node("exec", vec![st(keys.join(","))]);
    }
    let msg = resp.errors[0].message.as_str();
    const VPRE: &str = "Only the \"PersistedQuery\" extension of version \"1\" is supported, and the current version is \"";
    if msg == "PersistedQueryNotFound" {
        node("err", vec![atom("notfound")])
    } else if msg == "provided sha does not match query" {
        node("err", vec![atom("mismatch")])
    } else if msg == "Invalid \"PersistedQuery\" extension configuration." {
        node("err", vec![atom("invalid")])
    } else if let Some(rest) = msg.strip_prefix(VPRE) {
        match rest.strip_suffix("\".").and_then(|v| v.parse::<i64>().ok()) {
            Some(v) => node("err", vec![atom("version"), num(v)]),
            None => node("err", vec![atom("other"), st(msg)]),
        }
    } else if let Some(rest) = msg.strip_prefix("Unknown field \"") {
        let name = rest.split('"').next().unwrap_or("");
        node("exec", vec![st(format!("!{name}"))])
    } else if msg.contains(" --> ") {
        node("err", vec![atom("parse")])
    } else {
        node("err", vec![atom("other"), st(msg)])
    }
}

fn ext_json(ext: &Sexp) -> Option<serde_json::Value> {
    use serde_json::json;
    match ext.tag() {
        Some("none") => None,
        Some("pq") => {
            let a = ext.args();
            let v = a[0].as_i64().expect("version");
            let h = a[1].as_str().expect("hash");
            let mut m = json!({"version": v, "sha256Hash": h});
            match a.get(2).and_then(|x| x.as_atom()) {
                Some("extra") => m["unknownMember"] = json!([1, {"x": null}]),
                // serde-derived structs also decode from a sequence, positionally
                Some("list") => m = json!([v, h]),
                Some(f) => panic!("bad pq flag {f}"),
                None => {}
            }
            Some(m)
        }
        Some("bad") => Some(match ext.args()[0].as_atom().expect("kind") {
            "noversion" => json!({"sha256Hash": "abc"}),
            "nohash" => json!({"version": 1}),
            "strversion" => json!({"version": "1", "sha256Hash": "abc"}),
            "floatversion" => json!({"version": 1.5, "sha256Hash": "abc"}),
            "bigversion" => json!({"version": 2147483648i64, "sha256Hash": "abc"}),
            "nullversion" => json!({"version": null, "sha256Hash": "abc"}),
            "hashnum" => json!({"version": 1, "sha256Hash": 5}),
            "hashnull" => json!({"version": 1, "sha256Hash": null}),
            "nullpayload" => json!(null),
            "strpayload" => json!("persisted"),
            "listshort" => json!([1]),
            "listswapped" => json!(["abc", 1]),
            "listlong" => json!([1, "abc", true]),
            "boolpayload" => json!(true),
            k => panic!("bad kind {k}"),
        }),
        _ => panic!("bad ext"),
    }
}

fn run(case: &Sexp, dist: &mut Dist) -> Sexp {
    assert_eq!(case.tag(), Some("pq"), "bad case");
    let a = case.args();
    let store_kind = a[0].args()[0].as_atom().expect("store kind").to_string();
    let texts: Vec<(String, String)> = a[1]
        .args()
        .iter()
        .map(|t| {
            let text = t.args()[0].as_str().expect("text").to_string();
            let sha = t.args()[1].as_str().expect("sha").to_string();
            // a case line must not lie about the hash or the parse of a text
            assert_eq!(sha, sha_hex(&text), "bad case: wrong sha256 in texts table");
            let parsed = async_graphql::parser::parse_query(&text).ok().map(|d| doc_sig(&d));
            let claimed = match t.args()[2].tag() {
                Some("sig") => Some(t.args()[2].args()[0].as_str().expect("sig").to_string()),
                _ => None,
            };
            assert_eq!(parsed, claimed, "bad case: wrong signature in texts table");
            (text, sha)
        })
        .collect();
    let map = MapStore::default();
    let builder = Schema::build(Query, EmptyMutation, EmptySubscription);
    let schema = if store_kind == "map" {
        builder.extension(ApolloPersistedQueries::new(map.clone())).finish()
    } else if store_kind == "small" {
        let cap = a[0].args()[1].as_usize().expect("cap");
        builder.extension(ApolloPersistedQueries::new(SmallStore(Default::default(), cap))).finish()
    } else {
        assert_eq!(store_kind, "lru", "bad store kind");
        let cap = a[0].args()[1].as_usize().expect("cap");
        builder.extension(ApolloPersistedQueries::new(LruCacheStorage::new(cap))).finish()
    };
    let mut outs = vec![];
    let mut registered = std::collections::HashSet::new();
    for r in a[2].args() {
        let ra = r.args();
        let query = match ra[0].as_atom() {
            Some("e") => String::new(),
            _ => texts[ra[0].as_usize().expect("text index")].0.clone(),
        };
        let mut body = serde_json::json!({ "query": query });
        if let Some(e) = ext_json(&ra[1]) {
            body["extensions"] = serde_json::json!({ "persistedQuery": e });
        }
        let mut request: Request = serde_json::from_value(body).expect("request JSON");
        if ra[2..].iter().any(|f| f.as_atom() == Some("pre")) {
            let _ = request.parsed_query();
        }
        let resp = spin_on(schema.execute(request));
        let outcome = classify(&resp);
        dist.hit(&format!(
            "out_{}",
            match outcome.tag() {
                Some("exec") => "exec".to_string(),
                _ => outcome.args()[0].as_atom().unwrap_or("?").to_string(),
            }
        ));
        // distribution only: how often a store misses a hash it was given earlier
        if ra[1].tag() == Some("pq") && ra[1].args()[0].as_i64() == Some(1) {
            let h = ra[1].args()[1].as_str().unwrap_or("").to_string();
            if !query.is_empty() && outcome.tag() == Some("exec") {
                registered.insert(h);
            } else if query.is_empty() && registered.contains(&h) {
                if outcome.tag() == Some("exec") {
                    dist.hit(&format!("{store_kind}_hit_after_register"));
                } else {
                    dist.hit(&format!("{store_kind}_miss_after_register"));
                    registered.remove(&h);
                }
            }
        }
        let store = if store_kind == "map" {
            let m = map.0.lock().unwrap();
            texts.iter().map(|(_, sha)| m.get(sha).map(|d| st(doc_sig(d))).unwrap_or(atom("-"))).collect()
        } else {
            vec![]
        };
        outs.push(node("o", vec![outcome, node("st", store)]));
    }
    node("outs", outs)
}

// ------------------------------------------------------------------ generator

const BAD: [&str; 14] = [
    "noversion",
    "nohash",
    "strversion",
    "floatversion",
    "bigversion",
    "nullversion",
    "hashnum",
    "hashnull",
    "nullpayload",
    "strpayload",
    "listshort",
    "listswapped",
    "listlong",
    "boolpayload",
];

fn gen_text(rng: &mut Rng, uniq: &mut usize, dist: &mut Dist) -> String {
    *uniq += 1;
    let n = *uniq;
    match rng.below(12) {
        0 | 1 => format!("{{ a{n}: v }}"),
        2 => format!("{{a{n}:v}}"),
        3 => format!("query {{ a{n}: v b{n}: v }}"),
        4 => format!("query Q{n} {{ a{n}: v }}"),
        5 => format!("{{ a{n}: v }} # c{n}"),
        6 => format!("\n{{\n  a{n}: v\n}}\n"),
        7 => format!(" {{ a{}: v }}", rng.range(1, 3)), // same document as another text may have, different text
        8 => {
            dist.hit("text_invalid_field");
            format!("{{ nope{n} }}")
        }
        9 => {
            dist.hit("text_noparse");
            format!("{{ a{n}: v")
        }
        10 => {
            dist.hit("text_noparse");
            (*rng.pick(&["{", " ", "query", "}{"])).to_string() + &" ".repeat(n)
        }
        _ => format!("{{ a{n}: v x{n}: v }}"),
    }
}

fn gen_case(rng: &mut Rng, i: usize, o: &Opts, dist: &mut Dist) -> Sexp {
    let store = if rng.chance(2, 5) {
        dist.hit("store_map");
        node("store", vec![atom("map")])
    } else if rng.chance(1, 3) {
        dist.hit("store_small");
        node("store", vec![atom("small"), num(rng.range(1, 2))])
    } else {
        dist.hit("store_lru");
        node("store", vec![atom("lru"), num(rng.range(1, 2))])
    };
    let nt = rng.range(2, 6) as usize;
    let mut uniq = 0;
    let mut texts: Vec<String> = vec![];
    while texts.len() < nt {
        let t = gen_text(rng, &mut uniq, dist);
        if !texts.contains(&t) {
            texts.push(t);
        }
    }
    let shas: Vec<String> = texts.iter().map(|t| sha_hex(t)).collect();
    let tnodes: Vec<Sexp> = texts
        .iter()
        .zip(&shas)
        .map(|(t, h)| {
            let sig = match async_graphql::parser::parse_query(t) {
                Ok(d) => node("sig", vec![st(doc_sig(&d))]),
                Err(_) => node("noparse", vec![]),
            };
            node("t", vec![st(t.clone()), st(h.clone()), sig])
        })
        .collect();
    let max_len = if o.tier == "thorough" { 40 } else { 14 };
    let len = match i % 3 {
        0 => rng.range(1, 4),
        1 => rng.range(3, 8),
        _ => rng.range(6, max_len),
    };
    let junk = ["", "abc", "ABCDEF", "0", "e3b0c44298fc1c149afbf4c8996fb92427ae41e4649b934ca495991b7852b855"];
    let versions = [0i64, 2, -1, 2147483647, -2147483648, 10];
    let mut reqs = vec![];
    let mut registered: Vec<usize> = vec![];
    for _ in 0..len {
        let t = rng.below(nt);
        // look-ups prefer hashes that were registered before
        let lt = if !registered.is_empty() && rng.chance(3, 4) { *rng.pick(&registered) } else { rng.below(nt) };
        let w = rng.below(100);
        let (kind, q, ext): (&str, Sexp, Sexp) = match w {
            0..=31 => {
                registered.push(t);
                let mut a = vec![num(1), st(shas[t].clone())];
                match rng.below(12) {
                    0 => a.push(atom("extra")),
                    1 => {
                        dist.hit("payload_as_list");
                        a.push(atom("list"))
                    }
                    _ => {}
                }
                ("register", num(t), node("pq", a))
            }
            32..=59 => {
                let mut a = vec![num(1), st(shas[lt].clone())];
                if rng.chance(1, 12) {
                    dist.hit("payload_as_list");
                    a.push(atom("list"));
                }
                ("lookup", atom("e"), node("pq", a))
            }
            60..=66 => {
                let other = (t + 1 + rng.below(nt - 1)) % nt;
                ("mismatch_other", num(t), node("pq", vec![num(1), st(shas[other].clone())]))
            }
            67..=69 => ("mismatch_upper", num(t), node("pq", vec![num(1), st(shas[t].to_uppercase())])),
            70..=72 => ("mismatch_junk", num(t), node("pq", vec![num(1), st(*rng.pick(&junk))])),
            73..=77 => ("version_register", num(t), node("pq", vec![num(*rng.pick(&versions)), st(shas[t].clone())])),
            78..=81 => ("version_lookup", atom("e"), node("pq", vec![num(*rng.pick(&versions)), st(shas[lt].clone())])),
            82..=86 => ("bad_register", num(t), node("bad", vec![atom(*rng.pick(&BAD))])),
            87..=89 => ("bad_lookup", atom("e"), node("bad", vec![atom(*rng.pick(&BAD))])),
            90..=93 => ("plain", num(t), node("none", vec![])),
            94 => ("plain_empty", atom("e"), node("none", vec![])),
            95..=96 => ("lookup_junk", atom("e"), node("pq", vec![num(1), st(*rng.pick(&junk))])),
            _ => ("lookup_upper", atom("e"), node("pq", vec![num(1), st(shas[lt].to_uppercase())])),
        };
        dist.hit(&format!("req_{kind}"));
        let mut r = vec![q, ext];
        if rng.chance(1, 6) {
            dist.hit("flag_pre");
            r.push(atom("pre"));
        }
        reqs.push(node("r", r));
    }
    dist.add("requests", reqs.len() as u64);
    node("pq", vec![store, node("texts", tnodes), node("reqs", reqs)])
}

fn main() {
    main_loop(&mut gen_case, &mut run);
}
