//! C30 — extensions are transparent and run their hooks in lifecycle order (static family).
//!
//! Case:   (case KIND MODE NEXT SCHEMA DOC OPNAME VARS WORLD TEXT)
//!   KIND    valid | unknown-field | abstract-field | no-subsel | unknown-directive | syntax | unknown-op
//!           (what the generator did to a valid request; `syntax` = TEXT does not parse,
//!           unknown-field / abstract-field / no-subsel / unknown-directive = rejected by strict validation only)
//!   MODE    strict | fast  (ValidationMode);  NEXT  number of recording pass-through extensions
//!   SCHEMA … TEXT as in C03 (TEXT is what is executed; DOC is the same document as a tree)
//! Output: (out (plain RESP X) (ext RESP X) (trace EV…))
//!   plain = the run with no extension, ext = the run with NEXT extensions (same schema otherwise)
//!   RESP  = family::response_sexp (data, sorted errors, resolver invocation log)
//!   X     = (x (cc PUBLIC MAXAGE) (exts N) (hdrs N) (kinds K…))  cache policy, size of the
//!           response's extensions map, number of http headers, sorted error-message classes
//!   EV    = (e HOOK IDX) / (x HOOK IDX) for request, prepare, parse, validation, execute;
//!           (e resolve IDX (PATH…) PARENT RETURN) / (x resolve IDX (PATH…))

use std::sync::{Arc, Mutex};

#[path = "../family.rs"]
mod family;

use agvh::*;
use async_graphql::{
    Request, Response, ServerError, ServerResult, ValidationMode, ValidationResult, Value as AValue, Variables,
    extensions::{
        Extension, ExtensionContext, ExtensionFactory, NextExecute, NextParseQuery, NextPrepareRequest, NextRequest,
        NextResolve, NextValidation, ResolveInfo,
    },
    parser::types::ExecutableDocument,
};
use family::*;

// ------------------------------------------------------------------ the recording pass-through extension

type Trace = Arc<Mutex<Vec<Sexp>>>;

struct RecFactory {
    idx: usize,
    trace: Trace,
}
struct Rec {
    idx: usize,
    trace: Trace,
}
impl ExtensionFactory for RecFactory {
    fn create(&self) -> Arc<dyn Extension> {
        Arc::new(Rec { idx: self.idx, trace: self.trace.clone() })
    }
}
impl Rec {
    fn ev(&self, enter: bool, hook: &str, extra: Vec<Sexp>) {
        let mut v = vec![atom(hook), num(self.idx)];
        v.extend(extra);
        self.trace.lock().unwrap().push(node(if enter { "e" } else { "x" }, v));
    }
}

fn path_sexp(info: &ResolveInfo<'_>) -> Sexp {
    let mut segs = vec![];
    let mut cur = Some(info.path_node);
    while let Some(n) = cur {
        segs.push(match n.segment {
            async_graphql::QueryPathSegment::Index(i) => num(i),
            async_graphql::QueryPathSegment::Name(s) => st(s.to_string()),
        });
        cur = n.parent;
    }
    segs.reverse();
    list(segs)
}

#[async_graphql::async_trait::async_trait]
impl Extension for Rec {
    async fn request(&self, ctx: &ExtensionContext<'_>, next: NextRequest<'_>) -> Response {
        self.ev(true, "request", vec![]);
        let r = next.run(ctx).await;
        self.ev(false, "request", vec![]);
        r
    }
    async fn prepare_request(&self, ctx: &ExtensionContext<'_>, request: Request, next: NextPrepareRequest<'_>) -> ServerResult<Request> {
        self.ev(true, "prepare", vec![]);
        let r = next.run(ctx, request).await;
        self.ev(false, "prepare", vec![]);
        r
    }
    async fn parse_query(&self, ctx: &ExtensionContext<'_>, query: &str, variables: &Variables, next: NextParseQuery<'_>) -> ServerResult<ExecutableDocument> {
        self.ev(true, "parse", vec![]);
        let r = next.run(ctx, query, variables).await;
        self.ev(false, "parse", vec![]);
        r
    }
    async fn validation(&self, ctx: &ExtensionContext<'_>, next: NextValidation<'_>) -> Result<ValidationResult, Vec<ServerError>> {
        self.ev(true, "validation", vec![]);
        let r = next.run(ctx).await;
        self.ev(false, "validation", vec![]);
        r
    }
    async fn execute(&self, ctx: &ExtensionContext<'_>, operation_name: Option<&str>, next: NextExecute<'_>) -> Response {
        self.ev(true, "execute", vec![]);
        let r = next.run(ctx, operation_name).await;
        self.ev(false, "execute", vec![]);
        r
    }
    async fn resolve(&self, ctx: &ExtensionContext<'_>, info: ResolveInfo<'_>, next: NextResolve<'_>) -> ServerResult<Option<AValue>> {
        let p = path_sexp(&info);
        self.ev(true, "resolve", vec![p.clone(), st(info.parent_type.to_string()), st(info.return_type.to_string())]);
        let r = next.run(ctx, info).await;
        self.ev(false, "resolve", vec![p]);
        r
    }
}

// ------------------------------------------------------------------ generator

/// inserts `f` at a random place of a random selection set reachable from `sels`
fn insert_somewhere(rng: &mut Rng, sels: &mut Vec<SelN>, f: SelN) {
    let candidates: Vec<usize> = sels
        .iter()
        .enumerate()
        .filter(|(_, s)| match s {
            SelN::Field { sels, .. } => !sels.is_empty(),
            SelN::Inline { .. } => true,
            SelN::Spread { .. } => false,
        })
        .map(|(i, _)| i)
        .collect();
    if candidates.is_empty() || rng.chance(1, 2) {
        let at = rng.below(sels.len() + 1);
        sels.insert(at, f);
        return;
    }
    let i = *rng.pick(&candidates);
    match &mut sels[i] {
        SelN::Field { sels, .. } | SelN::Inline { sels, .. } => insert_somewhere(rng, sels, f),
        SelN::Spread { .. } => unreachable!(),
    }
}

fn insert_somewhere_root(rng: &mut Rng, sels: &mut Vec<SelN>, f: SelN) {
    let at = rng.below(sels.len() + 1);
    sels.insert(at, f);
}

fn plain_field(name: &str, sels: Vec<SelN>) -> SelN {
    SelN::Field { alias: None, name: name.into(), args: vec![], dirs: vec![], sels, pos: (0, 0) }
}

fn gen_case(rng: &mut Rng, _i: usize, _o: &Opts, dist: &mut Dist) -> Sexp {
    thread_local! {
        static SD: SchemaD = SchemaD::from_sdl(&build_schema().sdl());
    }
    SD.with(|sd| {
        let op_ty = if rng.chance(1, 4) { "mutation" } else { "query" };
        let fail_16 = *rng.pick(&[0, 1, 3]);
        let (mut doc, vars) = gen_request(sd, rng, dist, op_ty, true);
        let kind = match rng.below(20) {
            0..=8 => "valid",
            9..=12 => "unknown-field",
            13..=14 => "abstract-field",
            15..=16 => "no-subsel",
            17 => "unknown-directive",
            18 => "syntax",
            _ => "unknown-op",
        };
        let mut op_name = doc.ops[0].name.clone();
        let kind = match kind {
            "unknown-field" => {
                let with_dir = rng.chance(1, 4);
                let f = SelN::Field {
                    alias: if rng.chance(1, 4) { Some("al".into()) } else { None },
                    name: "nope".into(),
                    args: vec![],
                    dirs: if with_dir && rng.chance(1, 2) {
                        // @skip/@include are stripped from the fields that stay
                        dist.hit("unknown_field_with_include");
                        vec![DirN { name: "include".into(), args: vec![("if".into(), DV::Const(GV::Bool(true)))] }]
                    } else if with_dir {
                        // any other directive makes the field take the extension branch even without extensions
                        dist.hit("unknown_field_with_unknown_directive");
                        vec![DirN { name: "foo".into(), args: vec![] }]
                    } else {
                        vec![]
                    },
                    sels: vec![],
                    pos: (0, 0),
                };
                if !doc.frags.is_empty() && rng.chance(1, 4) {
                    let k = rng.below(doc.frags.len());
                    insert_somewhere(rng, &mut doc.frags[k].sels, f);
                } else {
                    insert_somewhere(rng, &mut doc.ops[0].sels, f);
                }
                kind
            }
            "abstract-field" if op_ty == "query" => {
                // a field that exists on the runtime objects but not on the abstract static type
                let f = match rng.below(4) {
                    0 => plain_field("i", vec![plain_field("num", vec![])]),
                    1 => plain_field("is", vec![plain_field("num", vec![]), plain_field("id", vec![])]),
                    2 => plain_field("jay", vec![plain_field("name", vec![])]),
                    _ => plain_field("un", vec![plain_field("id", vec![])]),
                };
                let at = rng.below(doc.ops[0].sels.len() + 1);
                doc.ops[0].sels.insert(at, f);
                kind
            }
            "no-subsel" => {
                let f = if op_ty == "query" { plain_field(*rng.pick(&["a", "b", "c", "aReq"]), vec![]) } else { plain_field("a", vec![]) };
                let f = match f {
                    SelN::Field { name, args, dirs, sels, pos, .. } => SelN::Field { alias: Some("bare".into()), name, args, dirs, sels, pos },
                    x => x,
                };
                let at = rng.below(doc.ops[0].sels.len() + 1);
                doc.ops[0].sels.insert(at, f);
                kind
            }
            "unknown-op" => {
                op_name = Some("Nope".into());
                kind
            }
            "unknown-directive" => {
                let name = if op_ty == "query" { *rng.pick(&["num", "tag", "strs", "uns"]) } else { "num" };
                let sels = if name == "uns" { vec![plain_field("__typename", vec![])] } else { vec![] };
                let f = SelN::Field {
                    alias: Some("dir".into()),
                    name: name.into(),
                    args: vec![],
                    dirs: vec![DirN { name: "foo".into(), args: vec![] }],
                    sels,
                    pos: (0, 0),
                };
                insert_somewhere_root(rng, &mut doc.ops[0].sels, f);
                kind
            }
            "syntax" => kind,
            _ => "valid",
        };
        let mut text = print_doc(&mut doc);
        if kind == "syntax" {
            text = match rng.below(4) {
                0 => format!("{}", text.trim_end().strip_suffix('}').unwrap()),
                1 => format!("@ {text}"),
                2 => text.replacen("{ ", "{ : ", 1),
                _ => format!("{text} }}"),
            };
        }
        dist.hit(&format!("kind_{kind}"));
        let mode = if rng.chance(1, 2) { "strict" } else { "fast" };
        let n_ext = rng.below(4);
        dist.hit(&format!("mode_{mode}"));
        dist.hit(&format!("stack_{n_ext}"));
        let wg = WorldGen { sd, fail_16, nonfinite: false };
        let root = if doc.ops[0].ty == "mutation" { sd.mutation.clone().unwrap() } else { sd.query.clone() };
        let w = wg.generate(rng, &root, dist);
        node(
            "case",
            vec![
                atom(kind),
                atom(mode),
                num(n_ext),
                sd.to_sexp(),
                doc.to_sexp(),
                op_name.map(st).unwrap_or(atom("none")),
                vars_sexp(&vars),
                w.to_sexp(),
                st(text),
            ],
        )
    })
}

// ------------------------------------------------------------------ runner

fn kind_of(msg: &str) -> &'static str {
    if msg.starts_with("boom-") {
        "boom"
    } else if msg.starts_with("Cannot query field") {
        "cannot-query"
    } else if msg.starts_with("Unknown operation named") {
        "unknown-op"
    } else if msg.contains("-->") {
        "parse"
    } else if msg.starts_with("Unknown field") {
        "v-unknown-field"
    } else if msg.starts_with("Unknown directive") {
        "v-unknown-directive"
    } else if msg.contains("must have a selection of subfields") {
        "v-subsel"
    } else {
        "other"
    }
}

fn extra_sexp(resp: &Response) -> Sexp {
    let mut kinds: Vec<&str> = resp.errors.iter().map(|e| kind_of(&e.message)).collect();
    kinds.sort();
    node(
        "x",
        vec![
            node("cc", vec![atom(if resp.cache_control.public { "public" } else { "private" }), num(resp.cache_control.max_age)]),
            node("exts", vec![num(resp.extensions.len())]),
            node("hdrs", vec![num(resp.http_headers.len())]),
            node("kinds", kinds.into_iter().map(atom).collect()),
        ],
    )
}

fn run_once(a: &[Sexp], n_ext: usize, trace: &Trace) -> (Sexp, Sexp) {
    let mode = if a[1].as_atom() == Some("fast") { ValidationMode::Fast } else { ValidationMode::Strict };
    let vars = vars_from_sexp(&a[6]);
    let w = Arc::new(World::from_sexp(&a[7]).expect("world"));
    let text = a[8].as_str().unwrap();
    let mut b = async_graphql::Schema::build(Query, Mutation, async_graphql::EmptySubscription).validation_mode(mode);
    for idx in 0..n_ext {
        b = b.extension(RecFactory { idx, trace: trace.clone() });
    }
    let schema = b.finish();
    let mut req = Request::new(text).data(w.clone());
    if let Some(n) = a[5].as_str() {
        req = req.operation_name(n);
    }
    let mut vs = Variables::default();
    for (k, v) in &vars {
        vs.insert(async_graphql::Name::new(k), v.to_avalue());
    }
    req = req.variables(vs);
    let resp = spin_on(schema.execute(req));
    if std::env::var("AGV_DEBUG").is_ok() {
        eprintln!("{:?}", resp.errors.iter().map(|e| e.message.clone()).collect::<Vec<_>>());
    }
    (response_sexp(&resp, &w), extra_sexp(&resp))
}

fn run(case: &Sexp, dist: &mut Dist) -> Sexp {
    let a = case.args();
    let n_ext = a[2].as_usize().unwrap();
    let none: Trace = Arc::new(Mutex::new(vec![]));
    let (r0, x0) = run_once(a, 0, &none);
    let trace: Trace = Arc::new(Mutex::new(vec![]));
    let (r1, x1) = run_once(a, n_ext, &trace);
    if r0 != r1 || x0 != x1 {
        dist.hit("response_differs_with_extensions");
    }
    let evs = std::mem::take(&mut *trace.lock().unwrap());
    dist.add("trace_events", evs.len() as u64);
    node("out", vec![node("plain", vec![r0, x0]), node("ext", vec![r1, x1]), node("trace", evs)])
}

fn main() {
    main_loop(&mut gen_case, &mut run);
}
