//! C30 — extensions are transparent and run their hooks in lifecycle order (static family).
//!
//! Case:   (case KIND MODE NEXT SCHEMA DOC OPNAME VARS WORLD TEXT)
//!   KIND    valid | unknown-field | abstract-field | no-subsel | unknown-directive | syntax | unknown-op
//!           (what the generator did to a valid request; `syntax` = TEXT does not parse,
//!           unknown-field / abstract-field / no-subsel / unknown-directive = rejected by strict validation only)
//!   MODE    strict | fast  (ValidationMode);  NEXT  number of recording pass-through extensions
//!   SCHEMA … TEXT as in C03 (TEXT is what is executed; DOC is the same document as a tree)
//! Output: (out (plain RESP X) (ext RESP X) (trace EV…))
//!   plain = the run with no extension, ext = the run with NEXT extensions (same schema otherwise)
//!   RESP  = family::response_sexp (data, sorted errors, resolver invocation log)
//!   X     = (x (cc PUBLIC MAXAGE) (exts N) (hdrs N) (kinds K…))  cache policy, size of the
//!           response's extensions map, number of http headers, sorted error-message classes
//!   EV    = (e HOOK IDX) / (x HOOK IDX) for request, subscribe, prepare, validation, execute;
//!           (e parse IDX "query text handed to the hook") / (x parse IDX);
//!           (e resolve IDX (PATH…) PARENT RETURN) / (x resolve IDX (PATH…))
//!
//! Stream `forms` — the REQUEST FORM as a dimension (static family + subscription root `Sub`, and the
//! object-only part of the family assembled as a `dynamic::Schema`):
//! Case:   (fcase BACKEND MODE NEXT API WDATA SCHEMA RW (reqs REQ…))
//!   BACKEND static | dynamic;  API execute | batch | stream (batch: static only);
//!   WDATA   req | schema  (the world is attached to the request / to the schema);
//!   REQ     (req FORM INTRO SRC PRE OPNAME VARS WORLD)
//!     FORM  plain | inspected (`Request::parsed_query()` called before executing, result kept) |
//!           preparsed (`Request::set_parsed_query` with the document parsed from PRE's text)
//!     INTRO intro | nointro (`Request::disable_introspection`)
//!     SRC   (src KIND DOC TEXT) = `request.query` (KIND as in the main stream);  PRE = none | SRC
//!   RW      none | (rw K ACT…): extension K rewrites the request in its `prepare_request` hook before
//!           delegating: (text SRC) replaces `request.query`, (parsed SRC) injects a parsed document,
//!           (flipvars) negates every Boolean variable, (op NAME|none) sets the operation name.
//!           The extension-free reference run applies the same rewriting by hand.
//! Output: (out (pq ok|err|none …) (plain (r RESP X)…) (ext (r RESP X)…) (trace EV…))
//!   pq = what `parsed_query()` returned per request; one `(r …)` per response (batch: per request,
//!   stream: per item of the stream)

use std::sync::{Arc, Mutex};

#[path = "../family.rs"]
mod family;

use agvh::*;
use async_graphql::dynamic::{self as dy, FieldFuture, FieldValue, ResolverContext};
use async_graphql::{
    BatchRequest, BatchResponse, Context, Request, Response, ServerError, ServerResult, ValidationMode, ValidationResult,
    Value as AValue, Variables,
    extensions::{
        Extension, ExtensionContext, ExtensionFactory, NextExecute, NextParseQuery, NextPrepareRequest, NextRequest,
        NextResolve, NextSubscribe, NextValidation, ResolveInfo,
    },
    parser::types::ExecutableDocument,
};
use family::*;

// ------------------------------------------------------------------ the recording pass-through extension

type Trace = Arc<Mutex<Vec<Sexp>>>;

/// what a rewriting `prepare_request` hook does to the request
#[derive(Clone, Debug)]
enum RwAct {
    Text(String),
    Parsed(String),
    FlipVars,
    Op(Option<String>),
}

fn apply_rw(acts: &[RwAct], mut req: Request) -> Request {
    for a in acts {
        match a {
            RwAct::Text(t) => req.query = t.clone(),
            RwAct::Parsed(t) => req.set_parsed_query(async_graphql::parser::parse_query(t).expect("injected document parses")),
            RwAct::FlipVars => {
                for (_, v) in req.variables.iter_mut() {
                    if let AValue::Boolean(b) = v {
                        *b = !*b;
                    }
                }
            }
            RwAct::Op(n) => req.operation_name = n.clone(),
        }
    }
    req
}

struct RecFactory {
    idx: usize,
    trace: Trace,
    rw: Option<Arc<Vec<RwAct>>>,
}
struct Rec {
    idx: usize,
    trace: Trace,
    rw: Option<Arc<Vec<RwAct>>>,
}
impl ExtensionFactory for RecFactory {
    fn create(&self) -> Arc<dyn Extension> {
        Arc::new(Rec { idx: self.idx, trace: self.trace.clone(), rw: self.rw.clone() })
    }
}
impl Rec {
    fn ev(&self, enter: bool, hook: &str, extra: Vec<Sexp>) {
        let mut v = vec![atom(hook), num(self.idx)];
        v.extend(extra);
        self.trace.lock().unwrap().push(node(if enter { "e" } else { "x" }, v));
    }
}

fn path_sexp(info: &ResolveInfo<'_>) -> Sexp {
    let mut segs = vec![];
    let mut cur = Some(info.path_node);
    while let Some(n) = cur {
        segs.push(match n.segment {
            async_graphql::QueryPathSegment::Index(i) => num(i),
            async_graphql::QueryPathSegment::Name(s) => st(s.to_string()),
        });
        cur = n.parent;
    }
    segs.reverse();
    list(segs)
}

#[async_graphql::async_trait::async_trait]
impl Extension for Rec {
    async fn request(&self, ctx: &ExtensionContext<'_>, next: NextRequest<'_>) -> Response {
        self.ev(true, "request", vec![]);
        let r = next.run(ctx).await;
        self.ev(false, "request", vec![]);
        r
    }
    fn subscribe<'s>(
        &self,
        ctx: &ExtensionContext<'_>,
        stream: futures_util::stream::BoxStream<'s, Response>,
        next: NextSubscribe<'_>,
    ) -> futures_util::stream::BoxStream<'s, Response> {
        self.ev(true, "subscribe", vec![]);
        let r = next.run(ctx, stream);
        self.ev(false, "subscribe", vec![]);
        r
    }
    async fn prepare_request(&self, ctx: &ExtensionContext<'_>, request: Request, next: NextPrepareRequest<'_>) -> ServerResult<Request> {
        self.ev(true, "prepare", vec![]);
        let request = match &self.rw {
            Some(acts) => apply_rw(acts, request),
            None => request,
        };
        let r = next.run(ctx, request).await;
        self.ev(false, "prepare", vec![]);
        r
    }
    async fn parse_query(&self, ctx: &ExtensionContext<'_>, query: &str, variables: &Variables, next: NextParseQuery<'_>) -> ServerResult<ExecutableDocument> {
        self.ev(true, "parse", vec![st(query.to_string())]);
        let r = next.run(ctx, query, variables).await;
        self.ev(false, "parse", vec![]);
        r
    }
    async fn validation(&self, ctx: &ExtensionContext<'_>, next: NextValidation<'_>) -> Result<ValidationResult, Vec<ServerError>> {
        self.ev(true, "validation", vec![]);
        let r = next.run(ctx).await;
        self.ev(false, "validation", vec![]);
        r
    }
    async fn execute(&self, ctx: &ExtensionContext<'_>, operation_name: Option<&str>, next: NextExecute<'_>) -> Response {
        self.ev(true, "execute", vec![]);
        let r = next.run(ctx, operation_name).await;
        self.ev(false, "execute", vec![]);
        r
    }
    async fn resolve(&self, ctx: &ExtensionContext<'_>, info: ResolveInfo<'_>, next: NextResolve<'_>) -> ServerResult<Option<AValue>> {
        let p = path_sexp(&info);
        self.ev(true, "resolve", vec![p.clone(), st(info.parent_type.to_string()), st(info.return_type.to_string())]);
        let r = next.run(ctx, info).await;
        self.ev(false, "resolve", vec![p]);
        r
    }
}

// ------------------------------------------------------------------ generator

/// inserts `f` at a random place of a random selection set reachable from `sels`
fn insert_somewhere(rng: &mut Rng, sels: &mut Vec<SelN>, f: SelN) {
    let candidates: Vec<usize> = sels
        .iter()
        .enumerate()
        .filter(|(_, s)| match s {
            SelN::Field { sels, .. } => !sels.is_empty(),
            SelN::Inline { .. } => true,
            SelN::Spread { .. } => false,
        })
        .map(|(i, _)| i)
        .collect();
    if candidates.is_empty() || rng.chance(1, 2) {
        let at = rng.below(sels.len() + 1);
        sels.insert(at, f);
        return;
    }
    let i = *rng.pick(&candidates);
    match &mut sels[i] {
        SelN::Field { sels, .. } | SelN::Inline { sels, .. } => insert_somewhere(rng, sels, f),
        SelN::Spread { .. } => unreachable!(),
    }
}

fn insert_somewhere_root(rng: &mut Rng, sels: &mut Vec<SelN>, f: SelN) {
    let at = rng.below(sels.len() + 1);
    sels.insert(at, f);
}

fn plain_field(name: &str, sels: Vec<SelN>) -> SelN {
    SelN::Field { alias: None, name: name.into(), args: vec![], dirs: vec![], sels, pos: (0, 0) }
}

fn roll_kind(rng: &mut Rng) -> &'static str {
    match rng.below(20) {
        0..=8 => "valid",
        9..=12 => "unknown-field",
        13..=14 => "abstract-field",
        15..=16 => "no-subsel",
        17 => "unknown-directive",
        18 => "syntax",
        _ => "unknown-op",
    }
}

/// makes the valid document `doc` invalid in the way `kind` names (when that applies to it);
/// returns the kind that was realised and the operation name to send
fn mutate_doc(rng: &mut Rng, dist: &mut Dist, doc: &mut DocN, op_ty: &str, kind: &'static str) -> (&'static str, Option<String>) {
    let mut op_name = doc.ops[0].name.clone();
    let kind = match kind {
        "unknown-field" => {
            let with_dir = rng.chance(1, 4);
            let f = SelN::Field {
                alias: if rng.chance(1, 4) { Some("al".into()) } else { None },
                name: "nope".into(),
                args: vec![],
                dirs: if with_dir && rng.chance(1, 2) {
                    // @skip/@include are stripped from the fields that stay
                    dist.hit("unknown_field_with_include");
                    vec![DirN { name: "include".into(), args: vec![("if".into(), DV::Const(GV::Bool(true)))] }]
                } else if with_dir {
                    // any other directive makes the field take the extension branch even without extensions
                    dist.hit("unknown_field_with_unknown_directive");
                    vec![DirN { name: "foo".into(), args: vec![] }]
                } else {
                    vec![]
                },
                sels: vec![],
                pos: (0, 0),
            };
            if !doc.frags.is_empty() && rng.chance(1, 4) {
                let k = rng.below(doc.frags.len());
                insert_somewhere(rng, &mut doc.frags[k].sels, f);
            } else {
                insert_somewhere(rng, &mut doc.ops[0].sels, f);
            }
            kind
        }
        "abstract-field" if op_ty == "query" => {
            // a field that exists on the runtime objects but not on the abstract static type
            let f = match rng.below(4) {
                0 => plain_field("i", vec![plain_field("num", vec![])]),
                1 => plain_field("is", vec![plain_field("num", vec![]), plain_field("id", vec![])]),
                2 => plain_field("jay", vec![plain_field("name", vec![])]),
                _ => plain_field("un", vec![plain_field("id", vec![])]),
            };
            let at = rng.below(doc.ops[0].sels.len() + 1);
            doc.ops[0].sels.insert(at, f);
            kind
        }
        "no-subsel" => {
            let f = if op_ty == "query" { plain_field(*rng.pick(&["a", "b", "c", "aReq"]), vec![]) } else { plain_field("a", vec![]) };
            let f = match f {
                SelN::Field { name, args, dirs, sels, pos, .. } => SelN::Field { alias: Some("bare".into()), name, args, dirs, sels, pos },
                x => x,
            };
            let at = rng.below(doc.ops[0].sels.len() + 1);
            doc.ops[0].sels.insert(at, f);
            kind
        }
        "unknown-op" => {
            op_name = Some("Nope".into());
            kind
        }
        "unknown-directive" => {
            let name = if op_ty == "query" { *rng.pick(&["num", "tag", "strs", "uns"]) } else { "num" };
            let sels = if name == "uns" { vec![plain_field("__typename", vec![])] } else { vec![] };
            let f = SelN::Field {
                alias: Some("dir".into()),
                name: name.into(),
                args: vec![],
                dirs: vec![DirN { name: "foo".into(), args: vec![] }],
                sels,
                pos: (0, 0),
            };
            insert_somewhere_root(rng, &mut doc.ops[0].sels, f);
            kind
        }
        "syntax" => kind,
        _ => "valid",
    };
    (kind, op_name)
}

/// the text that is sent: the printed document, garbled when `kind` is `syntax`
fn print_src(rng: &mut Rng, doc: &mut DocN, kind: &str) -> String {
    let mut text = print_doc(doc);
    if kind == "syntax" {
        text = match rng.below(4) {
            0 => format!("{}", text.trim_end().strip_suffix('}').unwrap()),
            1 => format!("@ {text}"),
            2 => text.replacen("{ ", "{ : ", 1),
            _ => format!("{text} }}"),
        };
    }
    text
}

fn gen_case(rng: &mut Rng, i: usize, o: &Opts, dist: &mut Dist) -> Sexp {
    if o.stream == "forms" {
        return gen_fcase(rng, i, o, dist);
    }
    thread_local! {
        static SD: SchemaD = SchemaD::from_sdl(&build_schema().sdl());
    }
    SD.with(|sd| {
        let op_ty = if rng.chance(1, 4) { "mutation" } else { "query" };
        let fail_16 = *rng.pick(&[0, 1, 3]);
        let (mut doc, vars) = gen_request(sd, rng, dist, op_ty, true);
        let kind = roll_kind(rng);
        let (kind, op_name) = mutate_doc(rng, dist, &mut doc, op_ty, kind);
        let text = print_src(rng, &mut doc, kind);
        dist.hit(&format!("kind_{kind}"));
        let mode = if rng.chance(1, 2) { "strict" } else { "fast" };
        let n_ext = rng.below(4);
        dist.hit(&format!("mode_{mode}"));
        dist.hit(&format!("stack_{n_ext}"));
        let wg = WorldGen { sd, fail_16, nonfinite: false };
        let root = if doc.ops[0].ty == "mutation" { sd.mutation.clone().unwrap() } else { sd.query.clone() };
        let w = wg.generate(rng, &root, dist);
        node(
            "case",
            vec![
                atom(kind),
                atom(mode),
                num(n_ext),
                sd.to_sexp(),
                doc.to_sexp(),
                op_name.map(st).unwrap_or(atom("none")),
                vars_sexp(&vars),
                w.to_sexp(),
                st(text),
            ],
        )
    })
}

// ------------------------------------------------------------------ runner

fn kind_of(msg: &str) -> &'static str {
    if msg.starts_with("boom-") {
        "boom"
    } else if msg.starts_with("Cannot query field") {
        "cannot-query"
    } else if msg.starts_with("Unknown operation named") {
        "unknown-op"
    } else if msg.contains("-->") {
        "parse"
    } else if msg.starts_with("Unknown field") {
        "v-unknown-field"
    } else if msg.starts_with("Unknown directive") {
        "v-unknown-directive"
    } else if msg.contains("must have a selection of subfields") {
        "v-subsel"
    } else {
        "other"
    }
}

fn extra_sexp(resp: &Response) -> Sexp {
    let mut kinds: Vec<&str> = resp.errors.iter().map(|e| kind_of(&e.message)).collect();
    kinds.sort();
    node(
        "x",
        vec![
            node("cc", vec![atom(if resp.cache_control.public { "public" } else { "private" }), num(resp.cache_control.max_age)]),
            node("exts", vec![num(resp.extensions.len())]),
            node("hdrs", vec![num(resp.http_headers.len())]),
            node("kinds", kinds.into_iter().map(atom).collect()),
        ],
    )
}

fn run_once(a: &[Sexp], n_ext: usize, trace: &Trace) -> (Sexp, Sexp) {
    let mode = if a[1].as_atom() == Some("fast") { ValidationMode::Fast } else { ValidationMode::Strict };
    let vars = vars_from_sexp(&a[6]);
    let w = Arc::new(World::from_sexp(&a[7]).expect("world"));
    let text = a[8].as_str().unwrap();
    let mut b = async_graphql::Schema::build(Query, Mutation, async_graphql::EmptySubscription).validation_mode(mode);
    for idx in 0..n_ext {
        b = b.extension(RecFactory { idx, trace: trace.clone(), rw: None });
    }
    let schema = b.finish();
    let mut req = Request::new(text).data(w.clone());
    if let Some(n) = a[5].as_str() {
        req = req.operation_name(n);
    }
    let mut vs = Variables::default();
    for (k, v) in &vars {
        vs.insert(async_graphql::Name::new(k), v.to_avalue());
    }
    req = req.variables(vs);
    let resp = spin_on(schema.execute(req));
    if std::env::var("AGV_DEBUG").is_ok() {
        eprintln!("{:?}", resp.errors.iter().map(|e| e.message.clone()).collect::<Vec<_>>());
    }
    (response_sexp(&resp, &w), extra_sexp(&resp))
}

// ------------------------------------------------------------------ stream `forms`: schemas

/// subscription root added to the family: the world holds at `(0, field)` the LIST of the values
/// the field's stream yields; every event logs one resolver invocation before it is resolved
pub struct Sub;

fn sub_events<T: FromRVal + Send + 'static>(ctx: &Context<'_>) -> impl futures_util::Stream<Item = T> + Send + 'static {
    use futures_util::StreamExt;
    let w = world(ctx).clone();
    let f = ctx.field().name().to_string();
    let key = ctx.field().alias().unwrap_or(ctx.field().name()).to_string();
    let evs: Vec<T> = w.index.get(&(0, f.clone())).and_then(|rv| Vec::<T>::conv(rv).ok()).unwrap_or_default();
    futures_util::stream::iter(evs).map(move |e| {
        w.log.lock().unwrap().push((0, f.clone(), key.clone()));
        e
    })
}

#[async_graphql::Subscription]
impl Sub {
    async fn ticks(&self, ctx: &Context<'_>) -> impl futures_util::Stream<Item = i64> {
        sub_events::<i64>(ctx)
    }
    async fn maybe_tick(&self, ctx: &Context<'_>) -> impl futures_util::Stream<Item = Option<i64>> {
        sub_events::<Option<i64>>(ctx)
    }
    async fn objs(&self, ctx: &Context<'_>) -> impl futures_util::Stream<Item = A> {
        sub_events::<A>(ctx)
    }
    async fn rows(&self, ctx: &Context<'_>) -> impl futures_util::Stream<Item = Vec<String>> {
        sub_events::<Vec<String>>(ctx)
    }
}

type StaticSchema = async_graphql::Schema<Query, Mutation, Sub>;

/// the family without its interfaces and unions (and the fields that return them): the part on
/// which the static and the dynamic executor report the same `ResolveInfo`
fn restrict(sd: &SchemaD) -> SchemaD {
    let abs: Vec<String> = sd.types.iter().filter(|t| t.kind == "interface" || t.kind == "union").map(|t| t.name.clone()).collect();
    let types = sd
        .types
        .iter()
        .filter(|t| !abs.contains(&t.name))
        .map(|t| {
            let mut t = t.clone();
            t.fields.retain(|f| !abs.contains(&f.ty.base().to_string()));
            t.implements.clear();
            t
        })
        .collect();
    SchemaD { query: sd.query.clone(), mutation: sd.mutation.clone(), subscription: sd.subscription.clone(), types }
}

/// the description the world generator works with: a subscription field holds the list of its events
fn with_event_lists(sd: &SchemaD) -> SchemaD {
    let mut sd = sd.clone();
    if let Some(sn) = sd.subscription.clone() {
        for t in sd.types.iter_mut().filter(|t| t.name == sn) {
            for f in t.fields.iter_mut() {
                f.ty = TRef::NonNull(Box::new(TRef::List(Box::new(f.ty.clone()))));
            }
        }
    }
    sd
}

fn strs(s: &Sexp) -> Vec<String> {
    s.as_list().unwrap().iter().map(|x| x.as_str().unwrap().to_string()).collect()
}

fn schema_from_sexp(s: &Sexp) -> SchemaD {
    let a = s.args();
    let opt = |x: &Sexp| x.as_str().map(|v| v.to_string());
    let types = a[3]
        .as_list()
        .unwrap()
        .iter()
        .map(|t| {
            let t = t.args();
            TypeD {
                name: t[0].as_str().unwrap().to_string(),
                kind: t[1].as_atom().unwrap().to_string(),
                fields: t[2]
                    .as_list()
                    .unwrap()
                    .iter()
                    .map(|f| {
                        let f = f.args();
                        FieldD {
                            name: f[0].as_str().unwrap().to_string(),
                            ty: TRef::from_sexp(&f[1]).unwrap(),
                            args: f[2]
                                .as_list()
                                .unwrap()
                                .iter()
                                .map(|x| {
                                    let x = x.args();
                                    ArgD {
                                        name: x[0].as_str().unwrap().to_string(),
                                        ty: TRef::from_sexp(&x[1]).unwrap(),
                                        default: if x[2].tag() == Some("some") { GV::from_sexp(&x[2].args()[0]) } else { None },
                                    }
                                })
                                .collect(),
                        }
                    })
                    .collect(),
                implements: strs(&t[3]),
                members: strs(&t[4]),
                values: strs(&t[5]),
            }
        })
        .collect();
    SchemaD { query: a[0].as_str().unwrap().to_string(), mutation: opt(&a[1]), subscription: opt(&a[2]), types }
}

fn dref(t: &TRef) -> dy::TypeRef {
    match t {
        TRef::Named(n) => dy::TypeRef::Named(n.clone().into()),
        TRef::List(i) => dy::TypeRef::List(Box::new(dref(i))),
        TRef::NonNull(i) => dy::TypeRef::NonNull(Box::new(dref(i))),
    }
}

fn conv_item(rv: &RVal) -> async_graphql::Result<FieldValue<'static>> {
    Ok(conv(rv)?.unwrap_or(FieldValue::NULL))
}

fn conv(rv: &RVal) -> async_graphql::Result<Option<FieldValue<'static>>> {
    Ok(match rv {
        RVal::Null => None,
        RVal::Leaf(g) => Some(FieldValue::value(g.to_avalue())),
        RVal::Obj(_, id) => Some(FieldValue::owned_any(*id)),
        RVal::List(xs) => Some(FieldValue::list(xs.iter().map(conv_item).collect::<async_graphql::Result<Vec<_>>>()?)),
        RVal::Fail(m) => return Err(m.clone().into()),
        RVal::Arg(_) => return Err("nested arg".into()),
    })
}

/// the description assembled as a real `dynamic::Schema` with data-driven resolvers (as in c02.rs;
/// object types only) and a subscription root whose fields stream the events held by the world
fn build_dynamic(sd: &SchemaD) -> dy::SchemaBuilder {
    let mut b = dy::Schema::build(&sd.query, sd.mutation.as_deref(), sd.subscription.as_deref());
    for t in &sd.types {
        match t.kind.as_str() {
            "object" if Some(&t.name) == sd.subscription.as_ref() => {
                let mut sub = dy::Subscription::new(t.name.clone());
                for f in &t.fields {
                    let fname = f.name.clone();
                    sub = sub.field(dy::SubscriptionField::new(f.name.clone(), dref(&f.ty), move |ctx: ResolverContext<'_>| {
                        let fname = fname.clone();
                        dy::SubscriptionFieldFuture::new(async move {
                            use futures_util::StreamExt;
                            let w = ctx.ctx.data_unchecked::<Arc<World>>().clone();
                            let key = ctx.ctx.field().alias().unwrap_or(ctx.ctx.field().name()).to_string();
                            let evs: Vec<RVal> = match w.index.get(&(0, fname.clone())) {
                                Some(RVal::List(xs)) => xs.clone(),
                                _ => vec![],
                            };
                            Ok(futures_util::stream::iter(evs).map(move |rv| {
                                w.log.lock().unwrap().push((0, fname.clone(), key.clone()));
                                conv_item(&rv)
                            }))
                        })
                    }));
                }
                b = b.register(sub);
            }
            "object" => {
                let mut o = dy::Object::new(t.name.clone());
                for f in &t.fields {
                    let fname = f.name.clone();
                    let mut fld = dy::Field::new(f.name.clone(), dref(&f.ty), move |ctx: ResolverContext<'_>| {
                        let fname = fname.clone();
                        FieldFuture::new(async move {
                            let w = ctx.ctx.data_unchecked::<Arc<World>>().clone();
                            let id = ctx.parent_value.downcast_ref::<u32>().copied().unwrap_or(0);
                            match w.get(ctx.ctx, id, &fname) {
                                RVal::Arg(a) => Ok(ctx.args.get(&a).map(|v| FieldValue::value(v.as_value().clone()))),
                                rv => conv(&rv),
                            }
                        })
                    });
                    for a in &f.args {
                        let mut iv = dy::InputValue::new(a.name.clone(), dref(&a.ty));
                        if let Some(d) = &a.default {
                            iv = iv.default_value(d.to_avalue());
                        }
                        fld = fld.argument(iv);
                    }
                    o = o.field(fld);
                }
                b = b.register(o);
            }
            "enum" => {
                let mut e = dy::Enum::new(t.name.clone());
                for v in &t.values {
                    e = e.item(v.clone());
                }
                b = b.register(e);
            }
            _ => {}
        }
    }
    b
}

// ------------------------------------------------------------------ stream `forms`: generator

struct Src {
    kind: &'static str,
    doc: DocN,
    vars: Vec<(String, GV)>,
    op_name: Option<String>,
    text: String,
}

impl Src {
    fn to_sexp(&self) -> Sexp {
        node("src", vec![atom(self.kind), self.doc.to_sexp(), st(self.text.clone())])
    }
}

/// a request source over `sd`; `small`: an alternative document (no variables, few selections)
fn gen_src(rng: &mut Rng, dist: &mut Dist, sd: &SchemaD, op_ty: &str, small: bool, allow: &dyn Fn(&str) -> bool) -> Src {
    let (mut doc, vars) = if small { gen_request_b(sd, rng, dist, op_ty, false, 4, 2) } else { gen_request(sd, rng, dist, op_ty, true) };
    let kind = roll_kind(rng);
    let kind = if allow(kind) { kind } else { "valid" };
    let (kind, op_name) = mutate_doc(rng, dist, &mut doc, op_ty, kind);
    let text = print_src(rng, &mut doc, kind);
    Src { kind, doc, vars, op_name, text }
}

/// `subscription { f { … } }` on one field of the subscription root
fn gen_sub_src(rng: &mut Rng, dist: &mut Dist, sd: &SchemaD) -> Src {
    let st_name = sd.subscription.clone().unwrap();
    let t = sd.find(&st_name).unwrap().clone();
    let f = rng.pick(&t.fields).clone();
    let (sels, frags) = if sd.is_composite(f.ty.base()) {
        let mut g = DocGen { sd, rng: &mut *rng, dist: &mut *dist, frags: vec![], vars: vec![], max_frags: 2, directives: false, budget: 6 };
        let mut ss = vec![];
        while ss.is_empty() {
            g.budget = 6;
            ss = g.selection_set(f.ty.base(), 2);
        }
        (ss, std::mem::take(&mut g.frags))
    } else {
        (vec![], vec![])
    };
    let alias = if rng.chance(1, 4) { Some("ev".to_string()) } else { None };
    let name = if rng.chance(1, 2) { Some("Op".to_string()) } else { None };
    let root = SelN::Field { alias, name: f.name.clone(), args: vec![], dirs: vec![], sels, pos: (0, 0) };
    let mut doc = DocN { ops: vec![OpN { ty: "subscription".into(), name, vars: vec![], sels: vec![root] }], frags };
    let kind = match rng.below(10) {
        0 => "syntax",
        1 => "unknown-op",
        _ => "valid",
    };
    let mut op_name = doc.ops[0].name.clone();
    if kind == "unknown-op" {
        op_name = Some("Nope".into());
    }
    let text = print_src(rng, &mut doc, kind);
    dist.hit(&format!("sub_field_{}", f.name));
    Src { kind, doc, vars: vec![], op_name, text }
}

fn gen_fcase(rng: &mut Rng, _i: usize, _o: &Opts, dist: &mut Dist) -> Sexp {
    thread_local! {
        static SDS: (SchemaD, SchemaD) = {
            let full = SchemaD::from_sdl(&async_graphql::Schema::build(Query, Mutation, Sub).finish().sdl());
            let small = restrict(&full);
            (full, small)
        };
    }
    SDS.with(|(full, small)| {
        let dynamic = rng.chance(2, 5);
        let sd = if dynamic { small } else { full };
        let backend = if dynamic { "dynamic" } else { "static" };
        let mode = if rng.chance(1, 2) { "strict" } else { "fast" };
        let n_ext = rng.below(4);
        let api = match rng.below(10) {
            0..=3 => "execute",
            4..=6 if !dynamic => "batch",
            4..=6 => "execute",
            _ => "stream",
        };
        // the dynamic executor is not this model's: keep to documents that never reach a place where
        // the two executors differ (unknown fields under Fast, interfaces/unions, failing resolvers)
        let allow = move |k: &str| {
            if dynamic {
                matches!(k, "valid" | "syntax" | "unknown-op") || (mode == "strict" && matches!(k, "unknown-field" | "no-subsel"))
            } else {
                true
            }
        };
        let n_req = if api == "batch" { 1 + rng.below(3) } else { 1 };
        let wdata = if n_req == 1 && rng.chance(1, 4) { "schema" } else { "req" };
        let fail_16 = if dynamic { 0 } else { *rng.pick(&[0, 0, 1, 3]) };
        let sd_w = with_event_lists(sd);
        let mut reqs = vec![];
        for _ in 0..n_req {
            let sub = api == "stream" && rng.chance(3, 5);
            let op_ty = if sub {
                "subscription"
            } else if rng.chance(1, 4) {
                "mutation"
            } else {
                "query"
            };
            let main = if sub { gen_sub_src(rng, dist, sd) } else { gen_src(rng, dist, sd, op_ty, false, &allow) };
            dist.hit(&format!("kind_{}", main.kind));
            dist.hit(&format!("op_{op_ty}"));
            // the request form
            let form = match rng.below(8) {
                0 | 1 => "plain",
                2 | 3 => "inspected",
                _ if main.kind == "syntax" => "inspected",
                4 | 5 => "preparsed-same",
                _ => "preparsed-other-text",
            };
            dist.hit(&format!("form_{form}"));
            let (form_atom, text_src, pre): (&str, Sexp, Sexp) = match form {
                "plain" => ("plain", main.to_sexp(), atom("none")),
                "inspected" => ("inspected", main.to_sexp(), atom("none")),
                "preparsed-same" => ("preparsed", main.to_sexp(), main.to_sexp()),
                _ => {
                    // `request.query` is something else: empty, garbage, or another document
                    let other = match rng.below(3) {
                        0 => Src { kind: "syntax", doc: DocN { ops: vec![], frags: vec![] }, vars: vec![], op_name: None, text: String::new() },
                        1 => Src { kind: "syntax", doc: DocN { ops: vec![], frags: vec![] }, vars: vec![], op_name: None, text: "persisted:abc".into() },
                        _ => gen_src(rng, dist, sd, if sub { "query" } else { op_ty }, true, &allow),
                    };
                    ("preparsed", other.to_sexp(), main.to_sexp())
                }
            };
            // a prepare hook may swap in a document on another root: the world answers for all roots
            // (they share the identity 0; equal field names have equal types in the family)
            let wg = WorldGen { sd: &sd_w, fail_16, nonfinite: false };
            let mut es = wg.generate(rng, &sd.query, dist).entries;
            for root in [sd.mutation.clone().unwrap(), sd.subscription.clone().unwrap()] {
                for (k, v) in wg.generate(rng, &root, dist).entries {
                    if k.0 == 0 && !es.iter().any(|(k2, _)| *k2 == k) {
                        es.push((k, v));
                    }
                }
            }
            let sub_fields: Vec<String> = sd.find(sd.subscription.as_ref().unwrap()).unwrap().fields.iter().map(|f| f.name.clone()).collect();
            fn no_nulls_in_lists(v: &RVal) -> RVal {
                match v {
                    RVal::List(xs) => RVal::List(xs.iter().filter(|x| !matches!(x, RVal::Null)).map(no_nulls_in_lists).collect()),
                    x => x.clone(),
                }
            }
            let es: Vec<_> = es
                .into_iter()
                .map(|(k, v)| {
                    // the stream itself never fails: its events do (or not)
                    let v = if k.0 == 0 && sub_fields.contains(&k.1) && !matches!(v, RVal::List(_)) { RVal::List(vec![]) } else { v };
                    // a null ITEM is read differently by the dynamic executor (C02/C03's subject)
                    let v = if dynamic { no_nulls_in_lists(&v) } else { v };
                    (k, v)
                })
                .collect();
            let w = World::new(es);
            let intro = if rng.chance(1, 4) { "nointro" } else { "intro" };
            dist.hit(&format!("flag_{intro}"));
            reqs.push(node(
                "req",
                vec![
                    atom(form_atom),
                    atom(intro),
                    text_src,
                    pre,
                    main.op_name.clone().map(st).unwrap_or(atom("none")),
                    vars_sexp(&main.vars),
                    w.to_sexp(),
                ],
            ));
        }
        // a rewriting prepare hook in one of the stacked extensions
        let rw = if n_ext > 0 && rng.chance(2, 5) {
            let k = rng.below(n_ext);
            let mut acts = vec![];
            let op_ty = if rng.chance(1, 4) { "mutation" } else { "query" };
            if rng.chance(1, 2) {
                let s = gen_src(rng, dist, sd, op_ty, true, &allow);
                dist.hit("rw_text");
                acts.push(node("text", vec![s.to_sexp()]));
            }
            if rng.chance(1, 3) {
                let s = gen_src(rng, dist, sd, op_ty, true, &|k: &str| k != "syntax" && allow(k));
                dist.hit("rw_parsed");
                acts.push(node("parsed", vec![s.to_sexp()]));
            }
            if rng.chance(1, 3) {
                dist.hit("rw_flipvars");
                acts.push(node("flipvars", vec![]));
            }
            if acts.is_empty() || rng.chance(1, 4) {
                dist.hit("rw_op");
                acts.push(node("op", vec![match rng.below(3) {
                    0 => atom("none"),
                    1 => st("Op"),
                    _ => st("Nope"),
                }]));
            }
            let mut v = vec![num(k)];
            v.extend(acts);
            node("rw", v)
        } else {
            atom("none")
        };
        dist.hit(&format!("backend_{backend}"));
        dist.hit(&format!("api_{api}"));
        dist.hit(&format!("mode_{mode}"));
        dist.hit(&format!("stack_{n_ext}"));
        dist.hit(&format!("wdata_{wdata}"));
        node("fcase", vec![atom(backend), atom(mode), num(n_ext), atom(api), atom(wdata), sd.to_sexp(), rw, node("reqs", reqs)])
    })
}

// ------------------------------------------------------------------ stream `forms`: runner

fn rw_from_sexp(s: &Sexp) -> Option<(usize, Vec<RwAct>)> {
    if s.tag() != Some("rw") {
        return None;
    }
    let a = s.args();
    let k = a[0].as_usize().unwrap();
    let acts = a[1..]
        .iter()
        .map(|x| match x.tag().unwrap() {
            "text" => RwAct::Text(x.args()[0].args()[2].as_str().unwrap().to_string()),
            "parsed" => RwAct::Parsed(x.args()[0].args()[2].as_str().unwrap().to_string()),
            "flipvars" => RwAct::FlipVars,
            "op" => RwAct::Op(x.args()[0].as_str().map(|v| v.to_string())),
            t => panic!("unknown rewrite action {t}"),
        })
        .collect();
    Some((k, acts))
}

enum AnySchema {
    Static(StaticSchema),
    Dynamic(dy::Schema),
}

fn resp_sexp(resp: &Response, w: &World) -> Sexp {
    let r = node("r", vec![response_sexp(resp, w), extra_sexp(resp)]);
    w.log.lock().unwrap().clear();
    r
}

/// one run of the case with `n_ext` extensions; returns (parsed_query() outcomes, responses)
fn run_forms_once(a: &[Sexp], n_ext: usize, trace: &Trace) -> (Vec<Sexp>, Vec<Sexp>) {
    use futures_util::StreamExt;
    let dynamic = a[0].as_atom() == Some("dynamic");
    let mode = if a[1].as_atom() == Some("fast") { ValidationMode::Fast } else { ValidationMode::Strict };
    let api = a[3].as_atom().unwrap();
    let schema_data = a[4].as_atom() == Some("schema");
    let rw = rw_from_sexp(&a[6]);
    let reqs = a[7].args();
    // requests
    let mut worlds: Vec<Arc<World>> = vec![];
    let mut requests = vec![];
    let mut pqs = vec![];
    for r in reqs {
        let r = r.args();
        let w = Arc::new(World::from_sexp(&r[6]).expect("world"));
        let text = r[2].args()[2].as_str().unwrap();
        let mut req = Request::new(text);
        if !schema_data {
            req = req.data(w.clone());
        }
        if let Some(n) = r[4].as_str() {
            req = req.operation_name(n);
        }
        let mut vs = Variables::default();
        for (k, v) in &vars_from_sexp(&r[5]) {
            vs.insert(async_graphql::Name::new(k), v.to_avalue());
        }
        req = req.variables(vs);
        if r[1].as_atom() == Some("nointro") {
            req = req.disable_introspection();
        }
        match r[0].as_atom().unwrap() {
            "inspected" => pqs.push(atom(if req.parsed_query().is_ok() { "ok" } else { "err" })),
            "preparsed" => {
                let ptext = r[3].args()[2].as_str().unwrap();
                req.set_parsed_query(async_graphql::parser::parse_query(ptext).expect("pre-parsed document parses"));
                pqs.push(atom("none"));
            }
            _ => pqs.push(atom("none")),
        }
        // the reference run has no extension that could rewrite the request: do it by hand
        if n_ext == 0 {
            if let Some((_, acts)) = &rw {
                req = apply_rw(acts, req);
            }
        }
        worlds.push(w);
        requests.push(req);
    }
    let ext = |idx: usize| RecFactory {
        idx,
        trace: trace.clone(),
        rw: rw.as_ref().filter(|(k, _)| *k == idx).map(|(_, acts)| Arc::new(acts.clone())),
    };
    let schema = if dynamic {
        let sd = schema_from_sexp(&a[5]);
        let mut b = build_dynamic(&sd).validation_mode(mode);
        if schema_data {
            b = b.data(worlds[0].clone());
        }
        for idx in 0..n_ext {
            b = b.extension(ext(idx));
        }
        AnySchema::Dynamic(b.finish().expect("dynamic schema"))
    } else {
        let mut b = async_graphql::Schema::build(Query, Mutation, Sub).validation_mode(mode);
        if schema_data {
            b = b.data(worlds[0].clone());
        }
        for idx in 0..n_ext {
            b = b.extension(ext(idx));
        }
        AnySchema::Static(b.finish())
    };
    let mut out = vec![];
    match api {
        "execute" => {
            let req = requests.pop().unwrap();
            let resp = match &schema {
                AnySchema::Static(s) => spin_on(s.execute(req)),
                AnySchema::Dynamic(s) => spin_on(s.execute(req)),
            };
            out.push(resp_sexp(&resp, &worlds[0]));
        }
        "batch" => {
            let AnySchema::Static(s) = &schema else { panic!("batch on a dynamic schema") };
            let br = if requests.len() == 1 { BatchRequest::Single(requests.pop().unwrap()) } else { BatchRequest::Batch(requests) };
            match spin_on(s.execute_batch(br)) {
                BatchResponse::Single(r) => out.push(resp_sexp(&r, &worlds[0])),
                BatchResponse::Batch(rs) => {
                    for (r, w) in rs.iter().zip(&worlds) {
                        out.push(resp_sexp(r, w));
                    }
                }
            }
        }
        _ => {
            let req = requests.pop().unwrap();
            let mut st = match &schema {
                AnySchema::Static(s) => s.execute_stream(req),
                AnySchema::Dynamic(s) => s.execute_stream(req),
            };
            let mut n = 0;
            while let Some(resp) = spin_on(st.next()) {
                out.push(resp_sexp(&resp, &worlds[0]));
                n += 1;
                assert!(n < 64, "stream does not end");
            }
        }
    }
    (pqs, out)
}

fn run_forms(case: &Sexp, dist: &mut Dist) -> Sexp {
    let a = case.args();
    let n_ext = a[2].as_usize().unwrap();
    let none: Trace = Arc::new(Mutex::new(vec![]));
    let (pq0, r0) = run_forms_once(a, 0, &none);
    let trace: Trace = Arc::new(Mutex::new(vec![]));
    let (pq1, r1) = run_forms_once(a, n_ext, &trace);
    assert!(pq0 == pq1, "parsed_query() is not deterministic");
    if r0 != r1 {
        dist.hit("response_differs_with_extensions");
    }
    let evs = std::mem::take(&mut *trace.lock().unwrap());
    dist.add("trace_events", evs.len() as u64);
    dist.add("responses", r1.len() as u64);
    node("out", vec![node("pq", pq1), node("plain", r0), node("ext", r1), node("trace", evs)])
}

fn run(case: &Sexp, dist: &mut Dist) -> Sexp {
    if case.tag() == Some("fcase") {
        return run_forms(case, dist);
    }
    let a = case.args();
    let n_ext = a[2].as_usize().unwrap();
    let none: Trace = Arc::new(Mutex::new(vec![]));
    let (r0, x0) = run_once(a, 0, &none);
    let trace: Trace = Arc::new(Mutex::new(vec![]));
    let (r1, x1) = run_once(a, n_ext, &trace);
    if r0 != r1 || x0 != x1 {
        dist.hit("response_differs_with_extensions");
    }
    let evs = std::mem::take(&mut *trace.lock().unwrap());
    dist.add("trace_events", evs.len() as u64);
    node("out", vec![node("plain", vec![r0, x0]), node("ext", vec![r1, x1]), node("trace", evs)])
}

fn main() {
    main_loop(&mut gen_case, &mut run);
}
