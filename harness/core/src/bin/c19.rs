//! C19 — introspection modes gate schema metadata and user resolvers.
//!
//! Case
//!   (c FLAVOUR SMODE RMODE OP VIA (KIND …))
//!     FLAVOUR static | dynamic          which schema implementation
//!     SMODE   enabled | only | disabled schema-level introspection mode (builder)
//!     RMODE   enabled | only | disabled request-level introspection mode
//!     OP      query | mutation | subscription
//!     VIA     exec | batch | stream     Schema::execute / execute_batch(Single) / execute_stream
//!     KIND    schema | type | service | entities | typename | ordinary   (root fields, in order)
//!             or (on KIND) / (in KIND): the same field wrapped in a root-level inline fragment
//!             `... on <RootType> { … }` / `... { … }`
//!   The document is a function of OP and the kind list (see `document`): the i-th root field has
//!   the alias `f<i>`, ordinary fields and entity representations carry `i`, so every resolver
//!   invocation in the log is attributed to one root field.
//! Output
//!   (rejected N)                     validation refused the document; N resolver invocations
//!   (unsupported N)                  "Subscriptions are not supported on this transport."
//!   (failed CLASS N)                 execution error for the whole response (data null)
//!   (ok (CLASS RUN) … (errors E …) (stray N))     one pair per root field:
//!        CLASS  meta | null | value | entity | (typename "T") | absent | (odd …)
//!        RUN    run | norun | (runs k)   was the user resolver belonging to that field invoked
//!        errors classes of the error responses (they carry no path), sorted
//!        stray  log entries not attributable to a field of the expected kind

use std::sync::{Arc, Mutex};

use agvh::*;
use async_graphql::{
    BatchRequest, Context, EmptyMutation, ID, Object, Request, Response, Schema, Subscription, Value, dynamic,
};
use futures_util::{Stream, StreamExt, stream};

const MODES: [&str; 3] = ["enabled", "only", "disabled"];
const FLAVOURS: [&str; 2] = ["static", "dynamic"];
const OPS: [&str; 3] = ["query", "mutation", "subscription"];
const VIAS: [&str; 3] = ["exec", "batch", "stream"];
const KINDS: [&str; 6] = ["schema", "type", "service", "entities", "typename", "ordinary"];

// ------------------------------------------------------------------ invocation log

#[derive(Clone, Default)]
struct Log(Arc<Mutex<Vec<(char, i64)>>>);

impl Log {
    fn hit(&self, who: char, n: i64) {
        self.0.lock().unwrap().push((who, n));
    }
}

fn log_of(ctx: &Context<'_>) -> Log {
    ctx.data::<Log>().expect("request data: Log").clone()
}

// ------------------------------------------------------------------ static schema

struct User {
    id: ID,
}
#[Object]
impl User {
    async fn id(&self) -> &ID {
        &self.id
    }
}

struct Query;
#[Object]
impl Query {
    async fn value(&self, ctx: &Context<'_>, n: i32) -> i32 {
        log_of(ctx).hit('q', n as i64);
        n
    }
    #[graphql(entity)]
    async fn find_user_by_id(&self, ctx: &Context<'_>, id: ID) -> User {
        log_of(ctx).hit('e', id.parse::<i64>().unwrap_or(-1));
        User { id }
    }
}

struct Mutation;
#[Object]
impl Mutation {
    async fn do_it(&self, ctx: &Context<'_>, n: i32) -> i32 {
        log_of(ctx).hit('m', n as i64);
        n
    }
}

struct Sub;
#[Subscription(name = "Subscription")]
impl Sub {
    async fn ticks(&self, ctx: &Context<'_>, n: i32) -> impl Stream<Item = i32> {
        log_of(ctx).hit('s', n as i64);
        stream::once(async move { n })
    }
}

fn static_schema(smode: &str) -> Schema<Query, Mutation, Sub> {
    let b = Schema::build(Query, Mutation, Sub).enable_federation();
    match smode {
        "enabled" => b,
        "only" => b.introspection_only(),
        "disabled" => b.disable_introspection(),
        m => panic!("mode {m}"),
    }
    .finish()
}

// ------------------------------------------------------------------ dynamic schema

fn dynamic_schema(smode: &str) -> dynamic::Schema {
    use dynamic::*;
    let int_nn = || TypeRef::named_nn(TypeRef::INT);
    let user = Object::new("User")
        .field(Field::new("id", TypeRef::named_nn(TypeRef::ID), |ctx| {
            FieldFuture::new(async move {
                let id = ctx.parent_value.try_downcast_ref::<String>()?;
                Ok(Some(Value::from(id.clone())))
            })
        }))
        .key("id");
    let query = Object::new("Query").field(
        Field::new("value", int_nn(), |ctx| {
            FieldFuture::new(async move {
                let n = ctx.args.try_get("n")?.i64()?;
                log_of(&ctx).hit('q', n);
                Ok(Some(Value::from(n)))
            })
        })
        .argument(InputValue::new("n", int_nn())),
    );
    let mutation = Object::new("Mutation").field(
        Field::new("doIt", int_nn(), |ctx| {
            FieldFuture::new(async move {
                let n = ctx.args.try_get("n")?.i64()?;
                log_of(&ctx).hit('m', n);
                Ok(Some(Value::from(n)))
            })
        })
        .argument(InputValue::new("n", int_nn())),
    );
    let subscription = Subscription::new("Subscription").field(
        SubscriptionField::new("ticks", int_nn(), |ctx| {
            SubscriptionFieldFuture::new(async move {
                let n = ctx.args.try_get("n")?.i64()?;
                log_of(&ctx).hit('s', n);
                Ok(stream::once(async move { Ok(Value::from(n)) }))
            })
        })
        .argument(InputValue::new("n", int_nn())),
    );
    let b = Schema::build("Query", Some("Mutation"), Some("Subscription"))
        .register(user)
        .register(query)
        .register(mutation)
        .register(subscription)
        .enable_federation()
        .entity_resolver(|ctx| {
            FieldFuture::new(async move {
                let reps = ctx.args.try_get("representations")?.list()?;
                let mut values = Vec::new();
                for item in reps.iter() {
                    let item = item.object()?;
                    let id = item.try_get("id")?.string()?.to_string();
                    log_of(&ctx).hit('e', id.parse::<i64>().unwrap_or(-1));
                    values.push(FieldValue::owned_any(id).with_type("User"));
                }
                Ok(Some(FieldValue::list(values)))
            })
        });
    match smode {
        "enabled" => b,
        "only" => b.introspection_only(),
        "disabled" => b.disable_introspection(),
        m => panic!("mode {m}"),
    }
    .finish()
    .expect("dynamic schema")
}

// ------------------------------------------------------------------ document

/// a root selection: the field kind and how it is wrapped ("" | "on" | "in")
#[derive(Clone)]
struct Sel {
    wrap: String,
    kind: String,
}

fn parse_sels(x: &Sexp) -> Vec<Sel> {
    x.as_list()
        .expect("selection list")
        .iter()
        .map(|k| match k.as_atom() {
            Some(a) => Sel { wrap: String::new(), kind: a.to_string() },
            None => Sel {
                wrap: k.tag().expect("wrapper").to_string(),
                kind: k.args()[0].as_atom().expect("kind").to_string(),
            },
        })
        .collect()
}

fn document(op: &str, sels: &[Sel]) -> String {
    let root = match op {
        "query" => "Query",
        "mutation" => "Mutation",
        _ => "Subscription",
    };
    let mut s = String::new();
    s.push_str(op);
    s.push_str(" {");
    for (i, sel) in sels.iter().enumerate() {
        let f = match sel.kind.as_str() {
            "schema" => "__schema { queryType { name } }".to_string(),
            "type" => "__type(name: \"Query\") { name }".to_string(),
            "service" => "_service { sdl }".to_string(),
            "entities" => {
                format!("_entities(representations: [{{__typename: \"User\", id: \"{i}\"}}]) {{ __typename }}")
            }
            "typename" => "__typename".to_string(),
            "ordinary" => match op {
                "query" => format!("value(n: {i})"),
                "mutation" => format!("doIt(n: {i})"),
                _ => format!("ticks(n: {i})"),
            },
            k => panic!("kind {k}"),
        };
        match sel.wrap.as_str() {
            "" => s.push_str(&format!(" f{i}: {f}")),
            "on" => s.push_str(&format!(" ... on {root} {{ f{i}: {f} }}")),
            "in" => s.push_str(&format!(" ... {{ f{i}: {f} }}")),
            w => panic!("wrapper {w}"),
        }
    }
    s.push_str(" }");
    s
}

fn request(text: &str, rmode: &str, log: &Log) -> Request {
    let r = Request::new(text).data(log.clone());
    match rmode {
        "enabled" => r,
        "only" => r.only_introspection(),
        "disabled" => r.disable_introspection(),
        m => panic!("mode {m}"),
    }
}

/// the same through the batch-level setters (they rewrite every contained request)
fn batch(text: &str, rmode: &str, log: &Log) -> BatchRequest {
    let b = BatchRequest::Single(Request::new(text).data(log.clone()));
    match rmode {
        "enabled" => b,
        "only" => b.introspection_only(),
        "disabled" => b.disable_introspection(),
        m => panic!("mode {m}"),
    }
}

// ------------------------------------------------------------------ generator

fn pick_kinds(rng: &mut Rng) -> Vec<&'static str> {
    // random list with repeats, any order; weights favour lists that survive validation
    let n = 1 + rng.below(7);
    let shape = rng.below(4);
    (0..n)
        .map(|_| match shape {
            0 => *rng.pick(&["typename", "ordinary"]),
            1 => *rng.pick(&["service", "entities", "typename", "ordinary"]),
            _ => *rng.pick(&KINDS),
        })
        .collect()
}

/// Cases 0 .. 162*63-1 enumerate the complete product
///   flavour(2) × schema mode(3) × request mode(3) × operation(3) × via(3) × non-empty subset of
///   the six field kinds in canonical order (63);
/// later indices draw lists with repetitions and arbitrary order.
const CONFIGS: usize = 2 * 3 * 3 * 3 * 3;
const EXHAUSTIVE: usize = CONFIGS * 63;

fn gen_case(rng: &mut Rng, i: usize, _o: &Opts, dist: &mut Dist) -> Sexp {
    let (fl, sm, rm, op, via, kinds): (&str, &str, &str, &str, &str, Vec<&str>);
    if i < EXHAUSTIVE {
        dist.hit("part_exhaustive");
        let mut c = i / 63;
        let sub = i % 63 + 1;
        via = VIAS[c % 3];
        c /= 3;
        op = OPS[c % 3];
        c /= 3;
        rm = MODES[c % 3];
        c /= 3;
        sm = MODES[c % 3];
        c /= 3;
        fl = FLAVOURS[c % 2];
        kinds = (0..6).filter(|b| sub >> b & 1 == 1).map(|b| KINDS[b]).collect();
    } else {
        dist.hit("part_random");
        fl = *rng.pick(&FLAVOURS);
        sm = *rng.pick(&MODES);
        rm = *rng.pick(&MODES);
        op = *rng.pick(&["query", "query", "query", "mutation", "subscription"]);
        via = *rng.pick(&VIAS);
        kinds = if op == "subscription" && rng.chance(3, 4) {
            (0..1 + rng.below(3)).map(|_| "ordinary").collect()
        } else if op == "mutation" && rng.chance(3, 4) {
            (0..1 + rng.below(4)).map(|_| *rng.pick(&["typename", "ordinary"])).collect()
        } else {
            pick_kinds(rng)
        };
    }
    dist.hit(&format!("flavour_{fl}"));
    dist.hit(&format!("smode_{sm}"));
    dist.hit(&format!("rmode_{rm}"));
    dist.hit(&format!("op_{op}"));
    dist.hit(&format!("via_{via}"));
    for k in &kinds {
        dist.hit(&format!("kind_{k}"));
    }
    // random part: one field in five sits inside a root-level inline fragment
    let wrapping = i >= EXHAUSTIVE && rng.chance(1, 2);
    let sels: Vec<Sexp> = kinds
        .into_iter()
        .map(|k| {
            if wrapping && rng.chance(2, 5) {
                dist.hit("wrapped_in_fragment");
                node(*rng.pick(&["on", "in"]), vec![atom(k)])
            } else {
                atom(k)
            }
        })
        .collect();
    node("c", vec![atom(fl), atom(sm), atom(rm), atom(op), atom(via), list(sels)])
}

// ------------------------------------------------------------------ runner

fn err_class(msg: &str) -> &'static str {
    if msg.starts_with("Unknown field") {
        "unknown-field"
    } else if msg == "Subscriptions are not supported on this transport." {
        "unsupported"
    } else if msg == "Schema is not configured for subscription." {
        "not-configured"
    } else if msg == "Schema is not configured for mutations." {
        "not-configured-mutation"
    } else if msg.starts_with("Cannot query field") {
        "cannot-query"
    } else {
        "other"
    }
}

fn classify(kind: &str, i: usize, v: Option<&Value>) -> Sexp {
    match v {
        None => atom("absent"),
        Some(Value::Null) => atom("null"),
        Some(Value::Object(o)) => match kind {
            "schema" | "type" => atom("meta"),
            "service" => match o.get("sdl") {
                Some(Value::String(s)) if s.contains("type Query") || s.contains("extend") => atom("meta"),
                _ => node("odd", vec![st("service without sdl")]),
            },
            _ => node("odd", vec![st("object")]),
        },
        Some(Value::String(s)) if kind == "typename" => node("typename", vec![st(s.clone())]),
        Some(Value::Number(n)) if kind == "ordinary" && n.as_i64() == Some(i as i64) => atom("value"),
        Some(Value::List(xs)) if kind == "entities" && xs.len() == 1 => atom("entity"),
        Some(v) => node("odd", vec![st(v.to_string())]),
    }
}

fn run(case: &Sexp, dist: &mut Dist) -> Sexp {
    let a = case.args();
    let g = |i: usize| a[i].as_atom().expect("atom").to_string();
    let (fl, sm, rm, op, via) = (g(0), g(1), g(2), g(3), g(4));
    let sels = parse_sels(&a[5]);
    let kinds: Vec<String> = sels.iter().map(|s| s.kind.clone()).collect();
    let text = document(&op, &sels);
    let log = Log::default();

    let responses: Vec<Response> = match (fl.as_str(), via.as_str()) {
        ("static", "exec") => vec![spin_on(static_schema(&sm).execute(request(&text, &rm, &log)))],
        ("static", "batch") => match spin_on(static_schema(&sm).execute_batch(batch(&text, &rm, &log))) {
            async_graphql::BatchResponse::Single(r) => vec![r],
            async_graphql::BatchResponse::Batch(rs) => rs,
        },
        ("static", "stream") => {
            let schema = static_schema(&sm);
            spin_on(schema.execute_stream(request(&text, &rm, &log)).collect::<Vec<_>>())
        }
        ("dynamic", "exec") => vec![spin_on(dynamic_schema(&sm).execute(request(&text, &rm, &log)))],
        ("dynamic", "batch") => {
            // the dynamic schema has no execute_batch of its own: go through the Executor trait
            let schema = dynamic_schema(&sm);
            match spin_on(async_graphql::Executor::execute_batch(&schema, batch(&text, &rm, &log))) {
                async_graphql::BatchResponse::Single(r) => vec![r],
                async_graphql::BatchResponse::Batch(rs) => rs,
            }
        }
        ("dynamic", "stream") => {
            let schema = dynamic_schema(&sm);
            spin_on(schema.execute_stream(request(&text, &rm, &log)).collect::<Vec<_>>())
        }
        x => panic!("flavour/via {x:?}"),
    };

    let entries: Vec<(char, i64)> = log.0.lock().unwrap().clone();
    let total = entries.len();

    // whole-response failures
    if responses.len() == 1 && !responses[0].errors.is_empty() && responses[0].data == Value::Null {
        let classes: Vec<&str> = responses[0].errors.iter().map(|e| err_class(&e.message)).collect();
        if classes.iter().all(|c| *c == "unknown-field") {
            dist.hit("out_rejected");
            return node("rejected", vec![num(total)]);
        }
        if classes == ["unsupported"] {
            dist.hit("out_unsupported");
            return node("unsupported", vec![num(total)]);
        }
        if op != "subscription" || via != "stream" {
            dist.hit("out_failed");
            return node("failed", vec![atom(classes[0]), num(total)]);
        }
    }

    // per-field view: data responses and (for subscriptions) error responses
    let mut data_of: Vec<Option<Value>> = vec![None; kinds.len()];
    let mut errs: Vec<&'static str> = vec![];
    for r in &responses {
        if !r.errors.is_empty() {
            for e in &r.errors {
                errs.push(err_class(&e.message));
            }
        }
        if let Value::Object(o) = &r.data {
            for (k, v) in o.iter() {
                if let Some(i) = k.as_str().strip_prefix('f').and_then(|x| x.parse::<usize>().ok()) {
                    if i < data_of.len() && data_of[i].is_none() {
                        data_of[i] = Some(v.clone());
                    } else {
                        errs.push("duplicate-key");
                    }
                }
            }
        }
    }
    // error responses of a subscription carry no path: they are listed, sorted, beside the fields
    errs.sort();
    let mut used = vec![false; entries.len()];
    let mut fields = vec![];
    for (i, k) in kinds.iter().enumerate() {
        let cls = classify(k, i, data_of[i].as_ref());
        let who = match (k.as_str(), op.as_str()) {
            ("ordinary", "query") => Some('q'),
            ("ordinary", "mutation") => Some('m'),
            ("ordinary", _) => Some('s'),
            ("entities", _) => Some('e'),
            _ => None,
        };
        let mut runs = 0;
        for (j, e) in entries.iter().enumerate() {
            if Some(e.0) == who && e.1 == i as i64 && !used[j] {
                used[j] = true;
                runs += 1;
            }
        }
        let run = match runs {
            0 => atom("norun"),
            1 => atom("run"),
            n => node("runs", vec![num(n)]),
        };
        dist.hit(&format!("field_{}", cls.tag().or(cls.as_atom()).unwrap_or("?")));
        if runs > 0 {
            dist.hit("field_resolver_ran");
        }
        fields.push(list(vec![cls, run]));
    }
    let stray = used.iter().filter(|u| !**u).count();
    for e in &errs {
        dist.hit(&format!("error_{e}"));
    }
    fields.push(node("errors", errs.iter().map(|e| atom(*e)).collect()));
    fields.push(node("stray", vec![num(stray)]));
    dist.hit("out_ok");
    node("ok", fields)
}

fn main() {
    // keep the unused import meaningful: EmptyMutation is what the static schema substitutes
    let _ = EmptyMutation;
    main_loop(&mut gen_case, &mut run);
}
