//! C18 — introspection is consistent and matches the schema actually served.
//!
//! Case:   (case FLAVOUR DESC TOKEN)
//!   FLAVOUR  family | vis | zoo | dyn
//!   DESC     rich abstract description of the schema (types with descriptions, deprecations,
//!            default-value texts, visibility rules); for `family`/`vis` it is read back from the
//!            SDL export of the real schema (plus, for `vis`, the table of visibility rules written
//!            next to the derive attributes below); for `zoo` (the declaration zoo of src/zoo.rs) it
//!            is the description written by hand next to the declarations, never read back from
//!            the registry (`iv` / `fd` nodes of container declarations end with the declared Rust
//!            type); for `dyn` it is generated and the dynamic
//!            schema is BUILT from it inside `run`.
//!   TOKEN    the request-context token: visibility rule `(bit k)` holds iff bit k of TOKEN is set.
//! Output: (out SDLDESC FULL PROBES)
//!   SDLDESC  the description parsed from `schema.sdl_with_options(async_graphql::SDLExportOptions::new().include_specified_by())` of the schema that was executed
//!   FULL     the complete `data` of the standard introspection query with includeDeprecated: true
//!            everywhere, as a generic tree (o ("key" v)…)/(l …)/"str"/null/true/false, keys in query order
//!   PROBES   ((NAME TREE)…): `__type(name: NAME)` with default arguments for every type name of DESC,
//!            every `__` meta type and two unknown names.
//! Canonicalisation: possibleTypes of INTERFACES are sorted by name (their order is the derive's
//! variant order / the registration order, which the SDL does not carry); every other list keeps the
//! order the code produces.  Descriptions inside the `__*` meta types are blanked (the model carries
//! their skeleton, not their documentation texts); likewise for the five built-in scalars and the
//! built-in directives.

#![allow(dead_code, unused_imports)]

#[path = "../family.rs"]
mod family;
#[path = "../zoo.rs"]
mod zoo;

use agvh::*;
use async_graphql::parser::{parse_schema, types as pt};
use async_graphql::{Name, Value as AValue};
use family::TRef;

// ------------------------------------------------------------------ rich description

#[derive(Clone, Debug, PartialEq)]
enum Vis {
    Always,
    Never,
    Bit(u32),
}
#[derive(Clone, Debug, PartialEq)]
enum Dep {
    No,
    Yes(Option<String>),
}
#[derive(Clone, Debug)]
struct IV {
    name: String,
    desc: Option<String>,
    ty: TRef,
    default: Option<String>,
    dep: Dep,
    vis: Vis,
}
#[derive(Clone, Debug)]
struct FD {
    name: String,
    desc: Option<String>,
    ty: TRef,
    dep: Dep,
    vis: Vis,
    args: Vec<IV>,
}
#[derive(Clone, Debug)]
struct EV {
    name: String,
    desc: Option<String>,
    dep: Dep,
    vis: Vis,
}
#[derive(Clone, Debug)]
struct TD {
    name: String,
    kind: String,
    desc: Option<String>,
    vis: Vis,
    fields: Vec<FD>,
    inputs: Vec<IV>,
    values: Vec<EV>,
    implements: Vec<String>,
    members: Vec<String>,
    spec_by: Option<String>,
    one_of: bool,
}
#[derive(Clone, Debug)]
struct Desc {
    query: String,
    mutation: Option<String>,
    subscription: Option<String>,
    types: Vec<TD>,
}

fn opt_s(o: &Option<String>) -> Sexp {
    o.as_ref().map(|x| st(x.clone())).unwrap_or(atom("none"))
}
fn s_opt(s: &Sexp) -> Option<String> {
    s.as_str().map(|x| x.to_string())
}
impl Vis {
    fn to_sexp(&self) -> Sexp {
        match self {
            Vis::Always => atom("always"),
            Vis::Never => atom("never"),
            Vis::Bit(k) => node("bit", vec![num(*k)]),
        }
    }
    fn from_sexp(s: &Sexp) -> Vis {
        match s.as_atom() {
            Some("always") => Vis::Always,
            Some("never") => Vis::Never,
            _ => Vis::Bit(s.args()[0].as_usize().unwrap() as u32),
        }
    }
}
impl Dep {
    fn to_sexp(&self) -> Sexp {
        match self {
            Dep::No => atom("no"),
            Dep::Yes(r) => node("dep", vec![opt_s(r)]),
        }
    }
    fn from_sexp(s: &Sexp) -> Dep {
        match s.as_atom() {
            Some("no") => Dep::No,
            _ => Dep::Yes(s_opt(&s.args()[0])),
        }
    }
}
impl IV {
    fn to_sexp(&self) -> Sexp {
        node("iv", vec![st(self.name.clone()), opt_s(&self.desc), self.ty.to_sexp(), opt_s(&self.default), self.dep.to_sexp(), self.vis.to_sexp()])
    }
    fn from_sexp(s: &Sexp) -> IV {
        let a = s.args();
        IV {
            name: a[0].as_str().unwrap().into(),
            desc: s_opt(&a[1]),
            ty: TRef::from_sexp(&a[2]).unwrap(),
            default: s_opt(&a[3]),
            dep: Dep::from_sexp(&a[4]),
            vis: Vis::from_sexp(&a[5]),
        }
    }
}
impl FD {
    fn to_sexp(&self) -> Sexp {
        node(
            "fd",
            vec![st(self.name.clone()), opt_s(&self.desc), self.ty.to_sexp(), self.dep.to_sexp(), self.vis.to_sexp(), list(self.args.iter().map(|a| a.to_sexp()).collect())],
        )
    }
    fn from_sexp(s: &Sexp) -> FD {
        let a = s.args();
        FD {
            name: a[0].as_str().unwrap().into(),
            desc: s_opt(&a[1]),
            ty: TRef::from_sexp(&a[2]).unwrap(),
            dep: Dep::from_sexp(&a[3]),
            vis: Vis::from_sexp(&a[4]),
            args: a[5].as_list().unwrap().iter().map(IV::from_sexp).collect(),
        }
    }
}
impl EV {
    fn to_sexp(&self) -> Sexp {
        node("ev", vec![st(self.name.clone()), opt_s(&self.desc), self.dep.to_sexp(), self.vis.to_sexp()])
    }
    fn from_sexp(s: &Sexp) -> EV {
        let a = s.args();
        EV { name: a[0].as_str().unwrap().into(), desc: s_opt(&a[1]), dep: Dep::from_sexp(&a[2]), vis: Vis::from_sexp(&a[3]) }
    }
}
fn strs(xs: &[String]) -> Sexp {
    list(xs.iter().map(|x| st(x.clone())).collect())
}
fn sstrs(s: &Sexp) -> Vec<String> {
    s.as_list().unwrap().iter().map(|x| x.as_str().unwrap().to_string()).collect()
}
impl TD {
    fn new(name: &str, kind: &str) -> TD {
        TD {
            name: name.into(),
            kind: kind.into(),
            desc: None,
            vis: Vis::Always,
            fields: vec![],
            inputs: vec![],
            values: vec![],
            implements: vec![],
            members: vec![],
            spec_by: None,
            one_of: false,
        }
    }
    fn to_sexp(&self) -> Sexp {
        node(
            "type",
            vec![
                st(self.name.clone()),
                atom(self.kind.clone()),
                opt_s(&self.desc),
                self.vis.to_sexp(),
                list(self.fields.iter().map(|f| f.to_sexp()).collect()),
                list(self.inputs.iter().map(|f| f.to_sexp()).collect()),
                list(self.values.iter().map(|f| f.to_sexp()).collect()),
                strs(&self.implements),
                strs(&self.members),
                opt_s(&self.spec_by),
                atom(if self.one_of { "true" } else { "false" }),
            ],
        )
    }
    fn from_sexp(s: &Sexp) -> TD {
        let a = s.args();
        TD {
            name: a[0].as_str().unwrap().into(),
            kind: a[1].as_atom().unwrap().into(),
            desc: s_opt(&a[2]),
            vis: Vis::from_sexp(&a[3]),
            fields: a[4].as_list().unwrap().iter().map(FD::from_sexp).collect(),
            inputs: a[5].as_list().unwrap().iter().map(IV::from_sexp).collect(),
            values: a[6].as_list().unwrap().iter().map(EV::from_sexp).collect(),
            implements: sstrs(&a[7]),
            members: sstrs(&a[8]),
            spec_by: s_opt(&a[9]),
            one_of: a[10].as_atom() == Some("true"),
        }
    }
}
impl Desc {
    fn to_sexp(&self) -> Sexp {
        node("desc", vec![st(self.query.clone()), opt_s(&self.mutation), opt_s(&self.subscription), list(self.types.iter().map(|t| t.to_sexp()).collect())])
    }
    fn from_sexp(s: &Sexp) -> Desc {
        let a = s.args();
        Desc { query: a[0].as_str().unwrap().into(), mutation: s_opt(&a[1]), subscription: s_opt(&a[2]), types: a[3].as_list().unwrap().iter().map(TD::from_sexp).collect() }
    }
}

// ------------------------------------------------------------------ description from the SDL export

fn tref_of(t: &pt::Type) -> TRef {
    let b = match &t.base {
        pt::BaseType::Named(n) => TRef::Named(n.to_string()),
        pt::BaseType::List(inner) => TRef::List(Box::new(tref_of(inner))),
    };
    if t.nullable { b } else { TRef::NonNull(Box::new(b)) }
}

fn dep_of(ds: &[async_graphql::Positioned<pt::ConstDirective>]) -> Dep {
    for d in ds {
        if d.node.name.node == "deprecated" {
            let r = d.node.arguments.iter().find(|(k, _)| k.node == "reason").map(|(_, v)| match &v.node {
                async_graphql_value::ConstValue::String(s) => s.clone(),
                o => o.to_string(),
            });
            return Dep::Yes(r);
        }
    }
    Dep::No
}

fn iv_of(a: &pt::InputValueDefinition) -> IV {
    IV {
        name: a.name.node.to_string(),
        desc: a.description.as_ref().map(|d| d.node.clone()),
        ty: tref_of(&a.ty.node),
        default: a.default_value.as_ref().map(|d| d.node.to_string()),
        dep: dep_of(&a.directives),
        vis: Vis::Always,
    }
}

fn desc_from_sdl(sdl: &str) -> Desc {
    let doc = parse_schema(sdl).expect("SDL export parses");
    let mut types = vec![];
    let (mut q, mut m, mut s) = ("Query".to_string(), None, None);
    for def in &doc.definitions {
        match def {
            pt::TypeSystemDefinition::Schema(sd) => {
                if let Some(x) = &sd.node.query {
                    q = x.node.to_string();
                }
                m = sd.node.mutation.as_ref().map(|x| x.node.to_string());
                s = sd.node.subscription.as_ref().map(|x| x.node.to_string());
            }
            pt::TypeSystemDefinition::Type(td) => {
                let fd = |f: &pt::FieldDefinition| FD {
                    name: f.name.node.to_string(),
                    desc: f.description.as_ref().map(|d| d.node.clone()),
                    ty: tref_of(&f.ty.node),
                    dep: dep_of(&f.directives),
                    vis: Vis::Always,
                    args: f.arguments.iter().map(|a| iv_of(&a.node)).collect(),
                };
                let mut t = TD::new(&td.node.name.node, "");
                t.desc = td.node.description.as_ref().map(|d| d.node.clone());
                for d in &td.node.directives {
                    if d.node.name.node == "specifiedBy" {
                        t.spec_by = d.node.arguments.iter().find(|(k, _)| k.node == "url").map(|(_, v)| match &v.node {
                            async_graphql_value::ConstValue::String(s) => s.clone(),
                            o => o.to_string(),
                        });
                    }
                    if d.node.name.node == "oneOf" {
                        t.one_of = true;
                    }
                }
                match &td.node.kind {
                    pt::TypeKind::Scalar => t.kind = "scalar".into(),
                    pt::TypeKind::Object(o) => {
                        t.kind = "object".into();
                        t.fields = o.fields.iter().map(|f| fd(&f.node)).collect();
                        t.implements = o.implements.iter().map(|n| n.node.to_string()).collect();
                    }
                    pt::TypeKind::Interface(o) => {
                        t.kind = "interface".into();
                        t.fields = o.fields.iter().map(|f| fd(&f.node)).collect();
                        t.implements = o.implements.iter().map(|n| n.node.to_string()).collect();
                    }
                    pt::TypeKind::Union(u) => {
                        t.kind = "union".into();
                        t.members = u.members.iter().map(|n| n.node.to_string()).collect();
                    }
                    pt::TypeKind::Enum(e) => {
                        t.kind = "enum".into();
                        t.values = e
                            .values
                            .iter()
                            .map(|v| EV { name: v.node.value.node.to_string(), desc: v.node.description.as_ref().map(|d| d.node.clone()), dep: dep_of(&v.node.directives), vis: Vis::Always })
                            .collect();
                    }
                    pt::TypeKind::InputObject(io) => {
                        t.kind = "input".into();
                        t.inputs = io.fields.iter().map(|f| iv_of(&f.node)).collect();
                    }
                }
                types.push(t);
            }
            _ => {}
        }
    }
    Desc { query: q, mutation: m, subscription: s, types }
}

// ------------------------------------------------------------------ flavour `vis`: derive-built schema with visibility rules

mod vs {
    use async_graphql::*;

    pub struct Tok(pub u32);
    fn bit(ctx: &Context<'_>, k: u32) -> bool {
        ctx.data_opt::<Tok>().map(|t| (t.0 >> k) & 1 == 1).unwrap_or(false)
    }
    macro_rules! vb {
        ($($n:ident = $k:expr),*) => { $( pub fn $n(ctx: &Context<'_>) -> bool { bit(ctx, $k) } )* };
    }
    vb!(vb0 = 0, vb1 = 1, vb2 = 2, vb3 = 3, vb4 = 4, vb5 = 5, vb6 = 6, vb7 = 7, vb8 = 8, vb9 = 9);

    /// A colour.
    #[derive(Enum, Copy, Clone, Eq, PartialEq)]
    pub enum Color {
        /// The red one.
        Red,
        #[graphql(deprecation = "use RED")]
        Green,
        #[graphql(visible = false)]
        Blue,
        #[graphql(visible = "vb0")]
        Cyan,
        #[graphql(deprecation)]
        Grey,
    }

    #[derive(Enum, Copy, Clone, Eq, PartialEq)]
    #[graphql(visible = "vb1")]
    pub enum Secret {
        S1,
        S2,
    }

    #[derive(InputObject)]
    pub struct HiddenIn {
        pub x: i32,
    }

    #[derive(InputObject)]
    #[graphql(visible = "vb7")]
    pub struct SubFilter {
        pub deep: Option<Vec<Option<Vec<i32>>>>,
        pub again: Option<Box<SubFilter>>,
    }

    /// Filter for items.
    #[derive(InputObject)]
    pub struct Filter {
        #[graphql(default = 5)]
        pub limit: i32,
        /// Name prefix.
        pub name: Option<String>,
        #[graphql(visible = "vb2")]
        pub secret: Option<Secret>,
        #[graphql(visible = false)]
        pub hidden: Option<HiddenIn>,
        #[graphql(default_with = "Color::Red")]
        pub color: Color,
        #[graphql(deprecation = "no longer used")]
        pub legacy: Option<i32>,
        #[graphql(default_with = "vec![\"a\".to_string(), \"b c\".to_string()]")]
        pub tags: Vec<String>,
        pub sub: Option<SubFilter>,
    }

    #[derive(OneofObject)]
    pub enum Pick {
        ById(ID),
        ByName(String),
    }

    pub struct Stamp(pub i64);
    /// A timestamp.
    #[Scalar(name = "Stamp", specified_by_url = "https://example.com/stamp")]
    impl ScalarType for Stamp {
        fn parse(value: Value) -> InputValueResult<Self> {
            match value {
                Value::Number(n) => Ok(Stamp(n.as_i64().unwrap_or(0))),
                _ => Err(InputValueError::expected_type(value)),
            }
        }
        fn to_value(&self) -> Value {
            Value::from(self.0)
        }
    }

    #[derive(SimpleObject)]
    pub struct Note {
        pub text: String,
    }
    #[derive(SimpleObject)]
    #[graphql(visible = "vb4")]
    pub struct Internal {
        pub code: i32,
        pub note: Note,
    }
    #[derive(SimpleObject)]
    pub struct Trace {
        pub t: i32,
    }
    #[derive(SimpleObject)]
    #[graphql(visible = false)]
    pub struct Ghost {
        pub g: i32,
        pub trace: Trace,
    }
    /// An item.
    #[derive(SimpleObject)]
    pub struct Item {
        pub id: ID,
        pub name: String,
        #[graphql(deprecation = "use id")]
        pub old_id: i32,
        #[graphql(visible = "vb3")]
        pub internal: Option<Internal>,
        pub color: Color,
        pub secret: Option<Secret>,
        pub matrix: Option<Vec<Option<Vec<i32>>>>,
    }
    #[derive(SimpleObject)]
    pub struct Widget {
        pub id: ID,
        pub name: String,
        /// In kilograms.
        pub weight: f64,
    }
    #[derive(SimpleObject)]
    pub struct Person {
        pub name: String,
        pub age: i32,
    }
    #[derive(SimpleObject)]
    pub struct Zed {
        pub name: String,
        pub age: i32,
    }

    #[derive(Interface)]
    #[graphql(field(name = "id", ty = "&ID"))]
    pub enum Node {
        Item(Item),
        Widget(Widget),
    }
    #[derive(Interface)]
    #[graphql(field(name = "name", ty = "&String"))]
    pub enum Named {
        Widget(Widget),
        Person(Person),
    }
    /// Interface with a nested interface variant.
    #[derive(Interface)]
    #[graphql(field(name = "name", ty = "&String"))]
    pub enum Entity {
        Named(Named),
        Item(Item),
    }
    #[derive(Interface)]
    #[graphql(field(name = "age", ty = "&i32"))]
    pub enum Alpha {
        Zed(Zed),
    }
    #[derive(Interface)]
    #[graphql(field(name = "age", ty = "&i32"))]
    pub enum Beta {
        Person(Person),
        Zed(Zed),
    }
    #[derive(Interface)]
    #[graphql(visible = "vb8", field(name = "name", ty = "&String"))]
    pub enum Tagged {
        Person(Person),
        Widget(Widget),
    }
    #[derive(Union)]
    pub enum Thing {
        Item(Item),
        Widget(Widget),
        Internal(Internal),
        Ghost(Ghost),
    }

    pub struct Query;
    #[Object]
    impl Query {
        /// List items.
        async fn items(
            &self,
            filter: Option<Filter>,
            #[graphql(visible = "vb5")] debug: Option<bool>,
            #[graphql(deprecation = "unused")] first: Option<i32>,
            #[graphql(default = 10, desc = "Page size.")] size: i32,
        ) -> Vec<Item> {
            let _ = (filter.map(|f| f.limit), debug, first, size);
            vec![]
        }
        async fn node(&self, id: ID) -> Option<Node> {
            let _ = id;
            None
        }
        async fn named(&self) -> Option<Named> {
            None
        }
        async fn entity(&self) -> Option<Entity> {
            None
        }
        async fn person(&self) -> Option<Person> {
            None
        }
        async fn thing(&self) -> Option<Thing> {
            None
        }
        async fn ghost(&self) -> Option<Ghost> {
            None
        }
        #[graphql(visible = false)]
        async fn alpha(&self) -> Option<Alpha> {
            None
        }
        #[graphql(visible = false)]
        async fn beta(&self) -> Option<Beta> {
            None
        }
        #[graphql(visible = false)]
        async fn tagged(&self) -> Option<Tagged> {
            None
        }
        #[graphql(visible = "vb6")]
        async fn secret(&self) -> Option<Secret> {
            None
        }
        async fn pick(&self, by: Pick) -> Option<Item> {
            let _ = by;
            None
        }
        async fn when(&self) -> Option<Stamp> {
            None
        }
        #[graphql(deprecation = "gone")]
        async fn old(&self) -> i32 {
            0
        }
    }

    pub struct Mutation;
    #[Object(visible = "vb9")]
    impl Mutation {
        async fn touch(&self, id: ID, sub: Option<SubFilter>) -> bool {
            let _ = (id, sub.map(|s| s.deep));
            true
        }
    }

    pub type VisSchema = Schema<Query, Mutation, EmptySubscription>;
    pub fn build() -> VisSchema {
        Schema::build(Query, Mutation, EmptySubscription).finish()
    }
}

/// the visibility attributes of `mod vs`, as a table (path → rule); everything else is `Always`
const VIS_RULES: &[(&str, Vis)] = &[
    ("Color.BLUE", Vis::Never),
    ("Color.CYAN", Vis::Bit(0)),
    ("Secret", Vis::Bit(1)),
    ("SubFilter", Vis::Bit(7)),
    ("Filter.secret", Vis::Bit(2)),
    ("Filter.hidden", Vis::Never),
    ("Internal", Vis::Bit(4)),
    ("Ghost", Vis::Never),
    ("Item.internal", Vis::Bit(3)),
    ("Tagged", Vis::Bit(8)),
    ("Query.items.debug", Vis::Bit(5)),
    ("Query.alpha", Vis::Never),
    ("Query.beta", Vis::Never),
    ("Query.tagged", Vis::Never),
    ("Query.secret", Vis::Bit(6)),
    ("Mutation", Vis::Bit(9)),
];
const VIS_BITS: u32 = 10;

fn apply_rules(d: &mut Desc) {
    let rule = |p: &str| VIS_RULES.iter().find(|(q, _)| *q == p).map(|(_, v)| v.clone()).unwrap_or(Vis::Always);
    let mut used = 0;
    for t in &mut d.types {
        t.vis = rule(&t.name);
        used += (t.vis != Vis::Always) as usize;
        for f in &mut t.fields {
            f.vis = rule(&format!("{}.{}", t.name, f.name));
            used += (f.vis != Vis::Always) as usize;
            for a in &mut f.args {
                a.vis = rule(&format!("{}.{}.{}", t.name, f.name, a.name));
                used += (a.vis != Vis::Always) as usize;
            }
        }
        for f in &mut t.inputs {
            f.vis = rule(&format!("{}.{}", t.name, f.name));
            used += (f.vis != Vis::Always) as usize;
        }
        for v in &mut t.values {
            v.vis = rule(&format!("{}.{}", t.name, v.name));
            used += (v.vis != Vis::Always) as usize;
        }
    }
    assert_eq!(used, VIS_RULES.len(), "every visibility rule names an element of the SDL export");
}

// ------------------------------------------------------------------ flavour `dyn`: dynamic schema built from a description

fn dyn_tref(t: &TRef) -> async_graphql::dynamic::TypeRef {
    use async_graphql::dynamic::TypeRef as D;
    match t {
        TRef::Named(n) => D::Named(n.clone().into()),
        TRef::List(t) => D::List(Box::new(dyn_tref(t))),
        TRef::NonNull(t) => D::NonNull(Box::new(dyn_tref(t))),
    }
}

fn parse_const(text: &str) -> AValue {
    // the crate's own parser as a tool: read a constant value back from its text
    let doc = parse_schema(format!("input X {{ f: Int = {} }}", text)).expect("default value text parses");
    for def in &doc.definitions {
        if let pt::TypeSystemDefinition::Type(td) = def {
            if let pt::TypeKind::InputObject(io) = &td.node.kind {
                return io.fields[0].node.default_value.as_ref().unwrap().node.clone();
            }
        }
    }
    unreachable!()
}

fn dyn_iv(a: &IV) -> async_graphql::dynamic::InputValue {
    let mut v = async_graphql::dynamic::InputValue::new(a.name.clone(), dyn_tref(&a.ty));
    if let Some(d) = &a.desc {
        v = v.description(d.clone());
    }
    if let Some(d) = &a.default {
        v = v.default_value(parse_const(d));
    }
    if let Dep::Yes(r) = &a.dep {
        v = v.deprecation(r.as_deref());
    }
    v
}

fn build_dyn(d: &Desc) -> Result<async_graphql::dynamic::Schema, String> {
    use async_graphql::dynamic::*;
    let mut b = Schema::build(&d.query, d.mutation.as_deref(), d.subscription.as_deref());
    for t in &d.types {
        match t.kind.as_str() {
            "scalar" => {
                if ["Int", "Float", "String", "Boolean", "ID"].contains(&t.name.as_str()) {
                    continue;
                }
                let mut s = Scalar::new(t.name.clone());
                if let Some(x) = &t.desc {
                    s = s.description(x.clone());
                }
                if let Some(u) = &t.spec_by {
                    s = s.specified_by_url(u.clone());
                }
                b = b.register(s);
            }
            "object" => {
                let mut o = Object::new(t.name.clone());
                if let Some(x) = &t.desc {
                    o = o.description(x.clone());
                }
                for f in &t.fields {
                    let mut fd = Field::new(f.name.clone(), dyn_tref(&f.ty), |_| FieldFuture::new(async { Ok(None::<FieldValue>) }));
                    if let Some(x) = &f.desc {
                        fd = fd.description(x.clone());
                    }
                    if let Dep::Yes(r) = &f.dep {
                        fd = fd.deprecation(r.as_deref());
                    }
                    for a in &f.args {
                        fd = fd.argument(dyn_iv(a));
                    }
                    o = o.field(fd);
                }
                for i in &t.implements {
                    o = o.implement(i.clone());
                }
                b = b.register(o);
            }
            "interface" => {
                let mut o = Interface::new(t.name.clone());
                if let Some(x) = &t.desc {
                    o = o.description(x.clone());
                }
                for f in &t.fields {
                    let mut fd = InterfaceField::new(f.name.clone(), dyn_tref(&f.ty));
                    if let Some(x) = &f.desc {
                        fd = fd.description(x.clone());
                    }
                    if let Dep::Yes(r) = &f.dep {
                        fd = fd.deprecation(r.as_deref());
                    }
                    for a in &f.args {
                        fd = fd.argument(dyn_iv(a));
                    }
                    o = o.field(fd);
                }
                for i in &t.implements {
                    o = o.implement(i.clone());
                }
                b = b.register(o);
            }
            "union" => {
                let mut u = Union::new(t.name.clone());
                if let Some(x) = &t.desc {
                    u = u.description(x.clone());
                }
                for m in &t.members {
                    u = u.possible_type(m.clone());
                }
                b = b.register(u);
            }
            "enum" => {
                let mut e = Enum::new(t.name.clone());
                if let Some(x) = &t.desc {
                    e = e.description(x.clone());
                }
                for v in &t.values {
                    let mut it = EnumItem::new(v.name.clone());
                    if let Some(x) = &v.desc {
                        it = it.description(x.clone());
                    }
                    if let Dep::Yes(r) = &v.dep {
                        it = it.deprecation(r.as_deref());
                    }
                    e = e.item(it);
                }
                b = b.register(e);
            }
            "input" => {
                let mut io = InputObject::new(t.name.clone());
                if let Some(x) = &t.desc {
                    io = io.description(x.clone());
                }
                for f in &t.inputs {
                    io = io.field(dyn_iv(f));
                }
                if t.one_of {
                    io = io.oneof();
                }
                b = b.register(io);
            }
            k => panic!("kind {k}"),
        }
    }
    b.finish().map_err(|e| e.to_string())
}

// ---- generator of descriptions for dynamic schemas

fn gen_text(rng: &mut Rng) -> Option<String> {
    if rng.chance(1, 3) {
        let words = ["alpha", "beta", "The thing.", "old one", "see docs", "x", "A b c"];
        Some(rng.pick(&words).to_string())
    } else {
        None
    }
}
fn gen_dep(rng: &mut Rng, dist: &mut Dist) -> Dep {
    match rng.below(8) {
        0 => {
            dist.hit("dep_reason");
            Dep::Yes(Some(rng.pick(&["use other", "gone", "No longer supported"]).to_string()))
        }
        1 => {
            dist.hit("dep_noreason");
            Dep::Yes(None)
        }
        _ => Dep::No,
    }
}
fn pick_s(rng: &mut Rng, xs: &[String]) -> String {
    xs[rng.below(xs.len())].clone()
}
fn wrap(rng: &mut Rng, base: &str, allow_nn: bool) -> TRef {
    let mut t = TRef::Named(base.to_string());
    if allow_nn && rng.chance(1, 3) {
        t = TRef::NonNull(Box::new(t));
    }
    let depth = match rng.below(10) {
        0..=5 => 0,
        6..=7 => 1,
        8 => 2,
        _ => 3,
    };
    for _ in 0..depth {
        t = TRef::List(Box::new(t));
        if allow_nn && rng.chance(1, 3) {
            t = TRef::NonNull(Box::new(t));
        }
    }
    t
}
fn default_for(rng: &mut Rng, ty: &TRef, enums: &[(String, Vec<String>)]) -> Option<String> {
    // default texts as `Value::to_string` prints them
    let base = match ty {
        TRef::NonNull(t) => &**t,
        t => t,
    };
    match base {
        TRef::Named(n) => match n.as_str() {
            "Int" => Some(rng.range(-5, 99).to_string()),
            "String" => Some(format!("\"{}\"", rng.pick(&["a", "b c", "", "q"]))),
            "Boolean" => Some(rng.pick(&["true", "false"]).to_string()),
            "ID" => Some("\"id1\"".to_string()),
            _ => enums.iter().find(|(e, _)| e == n).and_then(|(_, vs)| if vs.is_empty() { None } else { Some(rng.pick(vs).clone()) }),
        },
        TRef::List(inner) => {
            if rng.chance(1, 2) {
                Some("[]".into())
            } else {
                default_for(rng, inner, enums).map(|x| format!("[{x}, {x}]"))
            }
        }
        _ => None,
    }
}

fn gen_desc(rng: &mut Rng, dist: &mut Dist) -> Desc {
    let n_obj = 1 + rng.below(4);
    let n_if = rng.below(4);
    let n_un = rng.below(3);
    let n_en = rng.below(3);
    let n_in = rng.below(3);
    let n_sc = rng.below(2);
    // names chosen so that the alphabetical order of interfaces and objects varies
    let mut pool: Vec<String> = ["Aa", "Bb", "Cc", "Dd", "Ee", "Ff", "Gg", "Hh", "Kk", "Mm", "Nn", "Pp", "Rr", "Ss", "Tt", "Ww", "Yy", "Zz"].iter().map(|s| s.to_string()).collect();
    rng.shuffle(&mut pool);
    let mut take = |n: usize| -> Vec<String> { (0..n).map(|_| pool.pop().unwrap()).collect() };
    let objs = take(n_obj);
    let ifs = take(n_if);
    let uns = take(n_un);
    let ens = take(n_en);
    let ins = take(n_in);
    let scs = take(n_sc);
    let has_mut = rng.chance(1, 3);
    let has_sub = rng.chance(1, 6);
    let mut types: Vec<TD> = vec![];
    let enums: Vec<(String, Vec<String>)> = ens
        .iter()
        .map(|e| {
            let k = 1 + rng.below(4);
            (e.clone(), (0..k).map(|i| format!("V{}{}", i, &e[..1])).collect())
        })
        .collect();
    let out_leaf: Vec<String> = ["Int", "Float", "String", "Boolean", "ID"].iter().map(|s| s.to_string()).chain(ens.iter().cloned()).chain(scs.iter().cloned()).collect();
    let in_types: Vec<String> = out_leaf.iter().cloned().chain(ins.iter().cloned()).collect();
    let out_types: Vec<String> = out_leaf.iter().cloned().chain(objs.iter().cloned()).chain(ifs.iter().cloned()).chain(uns.iter().cloned()).collect();
    let gen_args = |rng: &mut Rng, dist: &mut Dist| -> Vec<IV> {
        let k = match rng.below(4) {
            0 => 1,
            1 => 2,
            _ => 0,
        };
        (0..k)
            .map(|i| {
                let ty = { let b = pick_s(rng, &in_types); wrap(rng, &b, true) };
                let default = if rng.chance(1, 2) { default_for(rng, &ty, &enums) } else { None };
                if default.is_some() {
                    dist.hit("arg_default");
                }
                IV { name: format!("a{i}"), desc: gen_text(rng), ty, default, dep: gen_dep(rng, dist), vis: Vis::Always }
            })
            .collect()
    };
    // interfaces first (their fields are copied into implementors)
    let mut if_defs: Vec<TD> = vec![];
    for (k, name) in ifs.iter().enumerate() {
        let mut t = TD::new(name, "interface");
        t.desc = gen_text(rng);
        let nf = 1 + rng.below(2);
        for j in 0..nf {
            t.fields.push(FD { name: format!("i{}{}", k, j), desc: gen_text(rng), ty: { let b = pick_s(rng, &out_types); wrap(rng, &b, true) }, dep: gen_dep(rng, dist), vis: Vis::Always, args: gen_args(rng, dist) });
        }
        // interface inheritance: implement an earlier interface (copying its fields)
        if k > 0 && rng.chance(1, 3) {
            let parent = if_defs[rng.below(k)].clone();
            dist.hit("iface_implements_iface");
            for p in parent.implements.iter().chain(std::iter::once(&parent.name)) {
                if !t.implements.contains(p) {
                    t.implements.push(p.clone());
                }
            }
            for ip in t.implements.clone() {
                let pd = if_defs.iter().find(|x| x.name == ip).unwrap();
                for f in &pd.fields {
                    if !t.fields.iter().any(|g| g.name == f.name) {
                        t.fields.push(f.clone());
                    }
                }
            }
        }
        if_defs.push(t);
    }
    let mut obj_defs: Vec<TD> = vec![];
    for (k, name) in objs.iter().enumerate() {
        let mut t = TD::new(name, "object");
        t.desc = gen_text(rng);
        let nf = 1 + rng.below(3);
        for j in 0..nf {
            t.fields.push(FD { name: format!("f{}{}", k, j), desc: gen_text(rng), ty: { let b = pick_s(rng, &out_types); wrap(rng, &b, true) }, dep: gen_dep(rng, dist), vis: Vis::Always, args: gen_args(rng, dist) });
        }
        for idef in &if_defs {
            if rng.chance(1, 3) {
                for p in idef.implements.iter().chain(std::iter::once(&idef.name)) {
                    if !t.implements.contains(p) {
                        t.implements.push(p.clone());
                    }
                }
            }
        }
        for ip in t.implements.clone() {
            let pd = if_defs.iter().find(|x| x.name == ip).unwrap();
            for f in &pd.fields {
                if !t.fields.iter().any(|g| g.name == f.name) {
                    t.fields.push(f.clone());
                }
            }
        }
        if !t.implements.is_empty() {
            dist.hit("obj_implements");
        }
        obj_defs.push(t);
    }
    // roots: Query gets fields pointing at a random subset, so some types stay unreachable
    let mut q = TD::new("Query", "object");
    let nq = 1 + rng.below(4);
    for j in 0..nq {
        q.fields.push(FD { name: format!("q{j}"), desc: gen_text(rng), ty: { let b = pick_s(rng, &out_types); wrap(rng, &b, true) }, dep: gen_dep(rng, dist), vis: Vis::Always, args: gen_args(rng, dist) });
    }
    types.push(q);
    if has_mut {
        let mut m = TD::new("Mutation", "object");
        m.fields.push(FD { name: "m0".into(), desc: None, ty: { let b = pick_s(rng, &out_types); wrap(rng, &b, true) }, dep: Dep::No, vis: Vis::Always, args: gen_args(rng, dist) });
        types.push(m);
    }
    let _ = has_sub;
    for name in &uns {
        let mut t = TD::new(name, "union");
        t.desc = gen_text(rng);
        for o in &objs {
            if rng.chance(1, 2) {
                t.members.push(o.clone());
            }
        }
        if t.members.is_empty() {
            t.members.push(objs[0].clone());
        }
        types.push(t);
    }
    for (name, vals) in &enums {
        let mut t = TD::new(name, "enum");
        t.desc = gen_text(rng);
        for v in vals {
            t.values.push(EV { name: v.clone(), desc: gen_text(rng), dep: gen_dep(rng, dist), vis: Vis::Always });
        }
        types.push(t);
    }
    for name in &ins {
        let mut t = TD::new(name, "input");
        t.desc = gen_text(rng);
        t.one_of = rng.chance(1, 5);
        let nf = 1 + rng.below(3);
        for j in 0..nf {
            let ty = if t.one_of { TRef::Named(pick_s(rng, &in_types)) } else { { let b = pick_s(rng, &in_types); wrap(rng, &b, true) } };
            let default = if !t.one_of && rng.chance(1, 2) { default_for(rng, &ty, &enums) } else { None };
            if default.is_some() {
                dist.hit("input_default");
            }
            t.inputs.push(IV { name: format!("n{j}"), desc: gen_text(rng), ty, default, dep: if t.one_of { Dep::No } else { gen_dep(rng, dist) }, vis: Vis::Always });
        }
        if t.one_of {
            dist.hit("oneof");
        }
        types.push(t);
    }
    for name in &scs {
        let mut t = TD::new(name, "scalar");
        t.desc = gen_text(rng);
        if rng.chance(1, 2) {
            t.spec_by = Some("https://example.com/spec".into());
        }
        types.push(t);
    }
    types.extend(if_defs);
    types.extend(obj_defs);
    // registration order is observable (possible types): shuffle
    rng.shuffle(&mut types);
    Desc { query: "Query".into(), mutation: if has_mut { Some("Mutation".into()) } else { None }, subscription: None, types }
}

// ------------------------------------------------------------------ the standard introspection query

fn type_ref_sel(depth: usize) -> String {
    if depth == 0 { "kind name".to_string() } else { format!("kind name ofType {{ {} }}", type_ref_sel(depth - 1)) }
}

fn full_type_sel(dep: &str) -> String {
    let (fa, ia) = if dep.is_empty() { (String::new(), String::new()) } else { (format!("(includeDeprecated: {dep})"), format!("(includeDeprecated: {dep})")) };
    format!(
        "kind name description specifiedByURL isOneOf \
         fields{fa} {{ name description args{ia} {{ ...InputValue }} type {{ ...TypeRef }} isDeprecated deprecationReason }} \
         inputFields{ia} {{ ...InputValue }} \
         interfaces {{ ...TypeRef }} \
         enumValues{fa} {{ name description isDeprecated deprecationReason }} \
         possibleTypes {{ ...TypeRef }}"
    )
}

fn fragments() -> String {
    format!(
        "fragment InputValue on __InputValue {{ name description type {{ ...TypeRef }} defaultValue isDeprecated deprecationReason }} \
         fragment TypeRef on __Type {{ {} }}",
        type_ref_sel(9)
    )
}

fn full_query() -> String {
    format!(
        "query IntrospectionQuery($dep: Boolean!) {{ __schema {{ description \
           queryType {{ kind name }} mutationType {{ kind name }} subscriptionType {{ kind name }} \
           types {{ ...FullType }} \
           directives {{ name description isRepeatable locations args(includeDeprecated: $dep) {{ ...InputValue }} }} }} }} \
         fragment FullType on __Type {{ {} }} {}",
        full_type_sel("$dep"),
        fragments()
    )
}

fn probe_query(names: &[String]) -> String {
    let mut s = String::from("query Probes {");
    for (i, n) in names.iter().enumerate() {
        s.push_str(&format!(" p{}: __type(name: {}) {{ ...FullTypeD }}", i, serde_json::to_string(n).unwrap()));
    }
    s.push_str(&format!(" }} fragment FullTypeD on __Type {{ {} }} {}", full_type_sel(""), fragments()));
    s
}

// ------------------------------------------------------------------ canonical tree

fn tree(v: &AValue) -> Sexp {
    match v {
        AValue::Null => atom("null"),
        AValue::Boolean(b) => atom(if *b { "true" } else { "false" }),
        AValue::String(s) => st(s.clone()),
        AValue::Enum(n) => st(n.to_string()),
        AValue::Number(n) => atom(n.to_string()),
        AValue::List(xs) => node("l", xs.iter().map(tree).collect()),
        AValue::Object(m) => node("o", m.iter().map(|(k, v)| list(vec![st(k.to_string()), tree(v)])).collect()),
        AValue::Binary(_) => atom("binary"),
    }
}

fn get<'a>(v: &'a AValue, k: &str) -> Option<&'a AValue> {
    match v {
        AValue::Object(m) => m.get(k),
        _ => None,
    }
}

fn blank_descriptions(v: &mut AValue) {
    match v {
        AValue::Object(m) => {
            for (k, x) in m.iter_mut() {
                if k.as_str() == "description" {
                    *x = AValue::Null;
                } else {
                    blank_descriptions(x);
                }
            }
        }
        AValue::List(xs) => xs.iter_mut().for_each(blank_descriptions),
        _ => {}
    }
}

/// canonicalise one `__Type` object in place
fn canon_type(t: &mut AValue) {
    let is_iface = matches!(get(t, "kind"), Some(AValue::Enum(k)) if k.as_str() == "INTERFACE");
    let is_meta = matches!(get(t, "name"), Some(AValue::String(n)) if n.starts_with("__") || ["Int", "Float", "String", "Boolean", "ID"].contains(&n.as_str()));
    if is_meta {
        blank_descriptions(t);
    }
    if is_iface {
        if let AValue::Object(m) = t {
            if let Some(AValue::List(xs)) = m.get_mut("possibleTypes") {
                xs.sort_by_key(|x| match get(x, "name") {
                    Some(AValue::String(s)) => s.clone(),
                    _ => String::new(),
                });
            }
        }
    }
}

fn exec<S>(schema: &S, q: String, vars: Option<bool>, tok: u32, run: impl Fn(&S, async_graphql::Request) -> async_graphql::Response) -> AValue {
    let mut req = async_graphql::Request::new(q).data(vs::Tok(tok)).data(zoo::Tok(tok));
    if let Some(d) = vars {
        let mut v = async_graphql::Variables::default();
        v.insert(Name::new("dep"), AValue::Boolean(d));
        req = req.variables(v);
    }
    let resp = run(schema, req);
    if !resp.errors.is_empty() {
        return AValue::String(format!("ERRORS {:?}", resp.errors.iter().map(|e| e.message.clone()).collect::<Vec<_>>()));
    }
    resp.data
}

fn observe<S>(schema: &S, sdl: String, d: &Desc, tok: u32, run: impl Fn(&S, async_graphql::Request) -> async_graphql::Response + Copy) -> Sexp {
    let mut full = exec(schema, full_query(), Some(true), tok, run);
    if let AValue::Object(m) = &mut full {
        if let Some(AValue::Object(s)) = m.get_mut("__schema") {
            if let Some(AValue::List(ts)) = s.get_mut("types") {
                ts.iter_mut().for_each(canon_type);
            }
            if let Some(ds) = s.get_mut("directives") {
                blank_descriptions(ds);
            }
        }
    }
    let mut names: Vec<String> = d.types.iter().map(|t| t.name.clone()).collect();
    for n in ["Int", "Float", "String", "Boolean", "ID", "__Schema", "__Type", "__TypeKind", "__Field", "__InputValue", "__EnumValue", "__Directive", "__DirectiveLocation", "Nope", "__Nope", "[Int]", "Int!"] {
        if !names.iter().any(|x| x == n) {
            names.push(n.to_string());
        }
    }
    let pr = exec(schema, probe_query(&names), None, tok, run);
    let probes: Vec<Sexp> = names
        .iter()
        .enumerate()
        .map(|(i, n)| {
            let mut v = get(&pr, &format!("p{i}")).cloned().unwrap_or(AValue::String(format!("MISSING {:?}", tree(&pr).to_string().chars().take(300).collect::<String>())));
            if matches!(v, AValue::Object(_)) {
                canon_type(&mut v);
            }
            list(vec![st(n.clone()), tree(&v)])
        })
        .collect();
    node("out", vec![desc_from_sdl(&sdl).to_sexp(), tree(&full), list(probes)])
}

// ------------------------------------------------------------------ cases

thread_local! {
    static FAMILY_DESC: Desc = desc_from_sdl(&family::build_schema().sdl_with_options(async_graphql::SDLExportOptions::new().include_specified_by()));
    static VIS_DESC: Desc = { let mut d = desc_from_sdl(&vs::build().sdl_with_options(async_graphql::SDLExportOptions::new().include_specified_by())); apply_rules(&mut d); d };
}

fn gen_case(rng: &mut Rng, i: usize, _o: &Opts, dist: &mut Dist) -> Sexp {
    let r = rng.below(100);
    if i == 0 || r < 3 {
        dist.hit("flavour_family");
        let tok = rng.below(4) as u32;
        FAMILY_DESC.with(|d| node("case", vec![atom("family"), d.to_sexp(), num(tok)]))
    } else if i == 1 || r < 12 {
        // the declaration zoo (src/zoo.rs): the description is the one written by hand next to the
        // declarations, never read back from the registry
        dist.hit("flavour_zoo");
        let tok = match rng.below(8) {
            0 => (1u32 << zoo::ZOO_BITS) - 1,
            1 => 0,
            2 => 1 << rng.below(zoo::ZOO_BITS as usize),
            3 => ((1u32 << zoo::ZOO_BITS) - 1) ^ (1 << rng.below(zoo::ZOO_BITS as usize)),
            _ => rng.below(1 << zoo::ZOO_BITS) as u32,
        };
        dist.add("zoo_bits_set", tok.count_ones() as u64);
        node("case", vec![atom("zoo"), zoo::wire::c18(&zoo::declared(true)), num(tok)])
    } else if r < 45 {
        dist.hit("flavour_vis");
        // all-visible and nothing-visible contexts are drawn more often than their share
        let tok = match rng.below(12) {
            0 => (1u32 << VIS_BITS) - 1,
            1 => 0,
            2 => 1 << rng.below(VIS_BITS as usize),
            3 => ((1u32 << VIS_BITS) - 1) ^ (1 << rng.below(VIS_BITS as usize)),
            _ => rng.below(1 << VIS_BITS) as u32,
        };
        dist.add("vis_bits_set", tok.count_ones() as u64);
        VIS_DESC.with(|d| node("case", vec![atom("vis"), d.to_sexp(), num(tok)]))
    } else {
        dist.hit("flavour_dyn");
        // regenerate until the dynamic builder accepts the description
        for attempt in 0..50 {
            let d = gen_desc(rng, dist);
            match build_dyn(&d) {
                Ok(_) => {
                    dist.add("dyn_types", d.types.len() as u64);
                    return node("case", vec![atom("dyn"), d.to_sexp(), num(0)]);
                }
                Err(e) => {
                    dist.hit("dyn_rejected");
                    if std::env::var("AGV_DEBUG").is_ok() {
                        eprintln!("rejected ({attempt}): {e}");
                    }
                }
            }
        }
        panic!("no acceptable dynamic schema in 50 attempts");
    }
}

fn run(case: &Sexp, _dist: &mut Dist) -> Sexp {
    let a = case.args();
    let flavour = a[0].as_atom().unwrap();
    let d = Desc::from_sexp(&a[1]);
    let tok = a[2].as_usize().unwrap() as u32;
    match flavour {
        "family" => {
            let s = family::build_schema();
            let w = std::sync::Arc::new(family::World::new(vec![]));
            let sdl = s.sdl_with_options(async_graphql::SDLExportOptions::new().include_specified_by());
            observe(&(s, w), sdl, &d, tok, |s, req| spin_on(s.0.execute(req.data(s.1.clone()))))
        }
        "vis" => {
            let s = vs::build();
            let sdl = s.sdl_with_options(async_graphql::SDLExportOptions::new().include_specified_by());
            observe(&s, sdl, &d, tok, |s, req| spin_on(s.execute(req)))
        }
        "zoo" => {
            let s = zoo::build();
            let sdl = s.sdl_with_options(async_graphql::SDLExportOptions::new().include_specified_by());
            observe(&s, sdl, &d, tok, |s, req| spin_on(s.execute(req)))
        }
        "dyn" => match build_dyn(&d) {
            Ok(s) => {
                let sdl = s.sdl_with_options(async_graphql::SDLExportOptions::new().include_specified_by());
                observe(&s, sdl, &d, tok, |s, req| spin_on(s.execute(req)))
            }
            Err(e) => node("rejected", vec![st(e)]),
        },
        f => panic!("flavour {f}"),
    }
}

fn main() {
    main_loop(&mut gen_case, &mut run);
}
