//! C07 — built-in scalar types accept exactly their domain and round-trip.
//!
//! Case kinds
//!   (parse TY V)   <TY as InputType>::parse(V)                         -> (ok R) | (err CLASS)
//!   (rt TY R)      r = R as a TY; v = r.to_value(); TY::parse(Some(v)) -> (rt V (ok R)|(err CLASS))
//!   (valid TY V)   <TY as ScalarType>::is_valid(&V)                    -> true | false
//! stream `schema` (the same scalars reached THROUGH A SCHEMA: the validation rule calls the
//! `is_valid` the registry holds under the GraphQL name `Int`, the resolver calls `parse`):
//!   (sch S (ORDER…) TY VIA V)  request against the static schema S whose Query has one field per
//!                              integer type, in the order ORDER (checked against the schema);
//!                              field TY gets V as VIA = lit (literal in the document) | var
//!                              (variable `$v: Int!`, value in the JSON variables) | def (default
//!                              value of `$v: Int`)
//!        -> (sch CLASS (ok N) | (rejected validation) | (rejected execution))
//!   (reg (ORDER…) TY V)        `Registry::default()`, the types of ORDER registered in that order
//!                              with `InputType::create_type_info`; the validator the registry
//!                              then holds under `Int`, applied to V (TY = the position's type,
//!                              one of ORDER: only the judge uses it)
//!        -> (reg CLASS true|false)
//!   CLASS = what the registered `Int` validator answers to -1 and 2^63: i64 | u64 | any | other
//! TY  (int "i8") … (int "NonZeroUsize") | f64 | f32 | bool | string | boxstr | arcstr | char | id
//!     | (enum NAME ("ITEM" …))      one of the derived enums below; the item list is checked
//!                                   against `EnumType::items()`
//! V   none (= parse(None)) | null | (int i) | (float BITS) | (str "…") | (bool b) | (bin)
//!     | (enum "NAME") | (list V…) | (obj ("k" V)…)
//!     (int i): serde_json PosInt for i ≥ 0, NegInt for i < 0;  (float BITS): N::Float, f64 bits
//! R   integer | f64/f32 bit pattern | true/false | "string" | "c" | variant index
//! CLASS expected | invalid | range | char_empty | char_many | enum_unknown | (other MSG)

use std::{
    num::{
        NonZeroI8, NonZeroI16, NonZeroI32, NonZeroI64, NonZeroIsize, NonZeroU8, NonZeroU16, NonZeroU32,
        NonZeroU64, NonZeroUsize,
    },
    sync::Arc,
};

use agvh::*;
use async_graphql::{
    EmptyMutation, EmptySubscription, Enum, ID, InputType, InputValueError, Name, Number, Object, Pos, Request, Response,
    ScalarType, Schema, ServerError, ValidationResult, Value, Variables,
    extensions::{Extension, ExtensionContext, ExtensionFactory, NextValidation},
    registry::{MetaType, Registry},
    resolver_utils::EnumType,
};
use std::sync::Mutex;

// ------------------------------------------------------------------ derived enums

#[derive(Enum, Copy, Clone, Eq, PartialEq, Debug)]
enum Color {
    Red,
    Green,
    Blue,
}

#[derive(Enum, Copy, Clone, Eq, PartialEq, Debug)]
#[graphql(rename_items = "camelCase")]
enum Mode {
    FastPath,
    #[graphql(name = "slow")]
    SlowPath,
    X,
    #[graphql(name = "FAST_PATH")]
    Shouting,
}

#[derive(Enum, Copy, Clone, Eq, PartialEq, Debug)]
enum Single {
    Only,
}

// ------------------------------------------------------------------ Rust values on the wire

trait Rv: Sized {
    fn show(&self) -> Sexp;
    fn build(s: &Sexp) -> Option<Self>;
}

macro_rules! rv_int {
    ($($t:ty),*) => {$(
        impl Rv for $t {
            fn show(&self) -> Sexp { num(*self) }
            fn build(s: &Sexp) -> Option<Self> {
                s.as_atom()?.parse::<i128>().ok().and_then(|x| <$t>::try_from(x).ok())
            }
        }
    )*};
}
rv_int!(i8, i16, i32, i64, isize, u8, u16, u32, u64, usize);

macro_rules! rv_nz {
    ($($t:ty : $b:ty),*) => {$(
        impl Rv for $t {
            fn show(&self) -> Sexp { num(self.get()) }
            fn build(s: &Sexp) -> Option<Self> { <$b as Rv>::build(s).and_then(<$t>::new) }
        }
    )*};
}
rv_nz!(NonZeroI8: i8, NonZeroI16: i16, NonZeroI32: i32, NonZeroI64: i64, NonZeroIsize: isize,
       NonZeroU8: u8, NonZeroU16: u16, NonZeroU32: u32, NonZeroU64: u64, NonZeroUsize: usize);

impl Rv for f64 {
    fn show(&self) -> Sexp {
        num(self.to_bits())
    }
    fn build(s: &Sexp) -> Option<Self> {
        s.as_atom()?.parse::<u64>().ok().map(f64::from_bits)
    }
}
impl Rv for f32 {
    fn show(&self) -> Sexp {
        num(self.to_bits())
    }
    fn build(s: &Sexp) -> Option<Self> {
        s.as_atom()?.parse::<u32>().ok().map(f32::from_bits)
    }
}
impl Rv for bool {
    fn show(&self) -> Sexp {
        atom(if *self { "true" } else { "false" })
    }
    fn build(s: &Sexp) -> Option<Self> {
        match s.as_atom()? {
            "true" => Some(true),
            "false" => Some(false),
            _ => None,
        }
    }
}
impl Rv for String {
    fn show(&self) -> Sexp {
        st(self.clone())
    }
    fn build(s: &Sexp) -> Option<Self> {
        s.as_str().map(|x| x.to_string())
    }
}
impl Rv for Box<str> {
    fn show(&self) -> Sexp {
        st(self.to_string())
    }
    fn build(s: &Sexp) -> Option<Self> {
        s.as_str().map(|x| x.into())
    }
}
impl Rv for Arc<str> {
    fn show(&self) -> Sexp {
        st(self.to_string())
    }
    fn build(s: &Sexp) -> Option<Self> {
        s.as_str().map(|x| x.into())
    }
}
impl Rv for char {
    fn show(&self) -> Sexp {
        st(self.to_string())
    }
    fn build(s: &Sexp) -> Option<Self> {
        let mut cs = s.as_str()?.chars();
        let c = cs.next()?;
        if cs.next().is_some() { None } else { Some(c) }
    }
}
impl Rv for ID {
    fn show(&self) -> Sexp {
        st(self.0.clone())
    }
    fn build(s: &Sexp) -> Option<Self> {
        s.as_str().map(|x| ID(x.to_string()))
    }
}

macro_rules! rv_enum {
    ($($t:ty),*) => {$(
        impl Rv for $t {
            fn show(&self) -> Sexp {
                num(<$t as EnumType>::items().iter().position(|it| it.value == *self).unwrap())
            }
            fn build(s: &Sexp) -> Option<Self> {
                <$t as EnumType>::items().get(s.as_usize()?).map(|it| it.value)
            }
        }
    )*};
}
rv_enum!(Color, Mode, Single);

// ------------------------------------------------------------------ GraphQL values on the wire

fn enc_value(v: &Value) -> Sexp {
    match v {
        Value::Null => atom("null"),
        Value::Number(n) => {
            if let Some(u) = n.as_u64() {
                node("int", vec![num(u)])
            } else if let Some(i) = n.as_i64() {
                node("int", vec![num(i)])
            } else {
                node("float", vec![num(n.as_f64().unwrap().to_bits())])
            }
        }
        Value::String(s) => node("str", vec![st(s.clone())]),
        Value::Boolean(b) => node("bool", vec![b.show()]),
        Value::Binary(_) => node("bin", vec![]),
        Value::Enum(n) => node("enum", vec![st(n.to_string())]),
        Value::List(xs) => node("list", xs.iter().map(enc_value).collect()),
        Value::Object(m) => node(
            "obj",
            m.iter().map(|(k, v)| list(vec![st(k.to_string()), enc_value(v)])).collect(),
        ),
    }
}

/// `None` = malformed, `Some(None)` = the absent value
fn dec_value(s: &Sexp) -> Option<Option<Value>> {
    if let Some(a) = s.as_atom() {
        return match a {
            "none" => Some(None),
            "null" => Some(Some(Value::Null)),
            _ => None,
        };
    }
    let a = s.args();
    Some(Some(match s.tag()? {
        "int" => {
            let i: i128 = a.first()?.as_atom()?.parse().ok()?;
            if i < 0 {
                Value::Number(Number::from(i64::try_from(i).ok()?))
            } else {
                Value::Number(Number::from(u64::try_from(i).ok()?))
            }
        }
        "float" => {
            let b: u64 = a.first()?.as_atom()?.parse().ok()?;
            Value::Number(Number::from_f64(f64::from_bits(b))?)
        }
        "str" => Value::String(a.first()?.as_str()?.to_string()),
        "bool" => Value::Boolean(bool::build(a.first()?)?),
        "bin" => Value::Binary(vec![1u8, 2, 3].into()),
        "enum" => Value::Enum(Name::new(a.first()?.as_str()?)),
        "list" => Value::List(a.iter().map(|x| dec_value(x).flatten()).collect::<Option<Vec<_>>>()?),
        "obj" => {
            let mut m = async_graphql::indexmap::IndexMap::new();
            for kv in a {
                let kv = kv.as_list()?;
                m.insert(Name::new(kv.first()?.as_str()?), dec_value(kv.get(1)?).flatten()?);
            }
            Value::Object(m)
        }
        _ => return None,
    }))
}

// ------------------------------------------------------------------ running the real code

fn classify<T: InputType>(e: InputValueError<T>) -> Sexp {
    let m = e.into_server_error(Pos::default()).message;
    let c = if m.starts_with("Expected input type \"") {
        "expected"
    } else if m.ends_with(": Invalid number") {
        "invalid"
    } else if m.contains("\": Only ") && m.ends_with(" accepted.") {
        "range"
    } else if m.ends_with(": A unicode character is required.") {
        "char_empty"
    } else if m.ends_with(": There can only be one unicode character in the string.") {
        "char_many"
    } else if m.contains("\": Enumeration type does not contain value \"") {
        "enum_unknown"
    } else {
        return node("other", vec![st(m)]);
    };
    atom(c)
}

fn result<T: InputType + Rv>(r: Result<T, InputValueError<T>>) -> Sexp {
    match r {
        Ok(x) => node("ok", vec![x.show()]),
        Err(e) => node("err", vec![classify(e)]),
    }
}

fn bad() -> Sexp {
    node("bad-case", vec![])
}

fn op<T: InputType + Rv>(kind: &str, arg: &Sexp) -> Sexp {
    match kind {
        "parse" => match dec_value(arg) {
            Some(v) => result(T::parse(v)),
            None => bad(),
        },
        "rt" => match T::build(arg) {
            Some(r) => {
                let v = r.to_value();
                node("rt", vec![enc_value(&v), result(T::parse(Some(v)))])
            }
            None => bad(),
        },
        _ => bad(),
    }
}

fn op_scalar<T: InputType + ScalarType + Rv>(kind: &str, arg: &Sexp) -> Sexp {
    if kind == "valid" {
        return match dec_value(arg) {
            Some(Some(v)) => <T as ScalarType>::is_valid(&v).show(),
            _ => bad(),
        };
    }
    op::<T>(kind, arg)
}

fn op_enum<T: InputType + EnumType + Rv>(kind: &str, items: &[Sexp], arg: &Sexp) -> Sexp {
    let real: Vec<Sexp> = T::items().iter().map(|it| st(it.name)).collect();
    if real != items {
        return node("enum-items", real);
    }
    op::<T>(kind, arg)
}


// ------------------------------------------------------------------ stream `schema`

/// what the validation hook saw during the last request
#[derive(Default)]
struct Seen {
    class: Option<&'static str>,
    validation_failed: bool,
}

/// probe a validator closure: which 64-bit views does it let through
fn validator_class(f: &dyn Fn(&Value) -> bool) -> &'static str {
    let neg = f(&Value::Number(Number::from(-1i64)));
    let big = f(&Value::Number(Number::from(1u64 << 63)));
    let sane = f(&Value::Number(Number::from(1u64)))
        && !f(&Value::Number(Number::from_f64(1.0).unwrap()))
        && !f(&Value::String("1".into()))
        && !f(&Value::Null);
    match (sane, neg, big) {
        (true, true, false) => "i64",
        (true, false, true) => "u64",
        (true, true, true) => "any",
        _ => "other",
    }
}

fn int_validator_class(r: &Registry) -> &'static str {
    match r.types.get("Int") {
        Some(MetaType::Scalar { is_valid: Some(f), .. }) => validator_class(&**f),
        Some(MetaType::Scalar { is_valid: None, .. }) => "none",
        _ => "missing",
    }
}

struct ProbeF(Arc<Mutex<Seen>>);
impl ExtensionFactory for ProbeF {
    fn create(&self) -> Arc<dyn Extension> {
        Arc::new(ProbeE(self.0.clone()))
    }
}
struct ProbeE(Arc<Mutex<Seen>>);
#[async_graphql::async_trait::async_trait]
impl Extension for ProbeE {
    async fn validation(&self, ctx: &ExtensionContext<'_>, next: NextValidation<'_>) -> Result<ValidationResult, Vec<ServerError>> {
        let class = int_validator_class(&ctx.schema_env.registry);
        let r = next.run(ctx).await;
        let mut s = self.0.lock().unwrap();
        s.class = Some(class);
        s.validation_failed = r.is_err();
        r
    }
}

struct IntSchema {
    order: &'static [&'static str],
    seen: Arc<Mutex<Seen>>,
    exec: Box<dyn Fn(Request) -> Response>,
}

macro_rules! int_schema {
    ($m:ident: $( $f:ident $name:literal $T:ident ),* $(,)?) => {
        #[allow(non_snake_case)]
        mod $m {
            use super::*;
            pub struct Q;
            #[Object]
            impl Q {
                $(
                    #[graphql(name = $name)]
                    async fn $f(&self, x: $T) -> String {
                        x.to_string()
                    }
                )*
            }
            pub fn make() -> IntSchema {
                let seen = Arc::new(Mutex::new(Seen::default()));
                let schema = Schema::build(Q, EmptyMutation, EmptySubscription).extension(ProbeF(seen.clone())).finish();
                IntSchema { order: &[$($name),*], seen, exec: Box::new(move |r| spin_on(schema.execute(r))) }
            }
        }
    };
}

// registration order = order in which `Object::create_type_info` reaches the argument types
int_schema!(s_u64: a "u64" u64, b "i32" i32, c "i8" i8, d "u8" u8, e "i16" i16, f "u16" u16, g "u32" u32, h "i64" i64,
    i "isize" isize, j "usize" usize, k "NonZeroI8" NonZeroI8, l "NonZeroU8" NonZeroU8, m "NonZeroI16" NonZeroI16,
    n "NonZeroU16" NonZeroU16, o "NonZeroI32" NonZeroI32, p "NonZeroU32" NonZeroU32, q "NonZeroI64" NonZeroI64,
    r "NonZeroU64" NonZeroU64, s "NonZeroIsize" NonZeroIsize, t "NonZeroUsize" NonZeroUsize);
int_schema!(s_i32: a "i32" i32, b "u64" u64, c "NonZeroU64" NonZeroU64, d "usize" usize, e "NonZeroUsize" NonZeroUsize,
    f "i64" i64, g "isize" isize, h "NonZeroI64" NonZeroI64, i "NonZeroIsize" NonZeroIsize, j "u32" u32, k "i16" i16,
    l "u16" u16, m "i8" i8, n "u8" u8, o "NonZeroI32" NonZeroI32, p "NonZeroU32" NonZeroU32, q "NonZeroI16" NonZeroI16,
    r "NonZeroU16" NonZeroU16, s "NonZeroI8" NonZeroI8, t "NonZeroU8" NonZeroU8);
int_schema!(s_nzu64: a "NonZeroU64" NonZeroU64, b "NonZeroI8" NonZeroI8, c "u64" u64, d "i64" i64, e "i32" i32,
    f "NonZeroU8" NonZeroU8, g "NonZeroI64" NonZeroI64, h "usize" usize, i "u8" u8, j "i8" i8, k "NonZeroUsize" NonZeroUsize,
    l "NonZeroIsize" NonZeroIsize, m "isize" isize, n "u16" u16, o "i16" i16, p "u32" u32, q "NonZeroI16" NonZeroI16,
    r "NonZeroU16" NonZeroU16, s "NonZeroI32" NonZeroI32, t "NonZeroU32" NonZeroU32);
int_schema!(s_usize: a "usize" usize, b "NonZeroUsize" NonZeroUsize, c "u8" u8, d "NonZeroI32" NonZeroI32, e "i64" i64);
int_schema!(s_i8: a "i8" i8, b "u64" u64, c "NonZeroU32" NonZeroU32);

const SCHEMAS: [&str; 5] = ["s_u64", "s_i32", "s_nzu64", "s_usize", "s_i8"];

thread_local! {
    static INT_SCHEMAS: Vec<(&'static str, IntSchema)> = vec![
        ("s_u64", s_u64::make()),
        ("s_i32", s_i32::make()),
        ("s_nzu64", s_nzu64::make()),
        ("s_usize", s_usize::make()),
        ("s_i8", s_i8::make()),
    ];
}

fn schema_order(name: &str) -> Option<Vec<&'static str>> {
    INT_SCHEMAS.with(|ss| ss.iter().find(|s| s.0 == name).map(|s| s.1.order.to_vec()))
}

/// a value as GraphQL literal text (`None`: not expressible / not used by this stream)
fn literal(v: &Value) -> Option<String> {
    Some(match v {
        Value::Null => "null".into(),
        Value::Number(n) => {
            if let Some(u) = n.as_u64() {
                u.to_string()
            } else if let Some(i) = n.as_i64() {
                i.to_string()
            } else {
                // shortest round-trip form, always with a fraction or an exponent
                format!("{:?}", n.as_f64()?)
            }
        }
        Value::String(s) => serde_json::to_string(s).ok()?,
        Value::Boolean(b) => b.to_string(),
        Value::Enum(n) => n.to_string(),
        Value::List(xs) => format!("[{}]", xs.iter().map(literal).collect::<Option<Vec<_>>>()?.join(",")),
        Value::Object(m) => {
            format!("{{{}}}", m.iter().map(|(k, v)| literal(v).map(|l| format!("{k}:{l}"))).collect::<Option<Vec<_>>>()?.join(","))
        }
        Value::Binary(_) => return None,
    })
}

fn strs(s: &Sexp) -> Option<Vec<String>> {
    s.as_list()?.iter().map(|x| x.as_str().map(|y| y.to_string())).collect()
}

fn run_sch(a: &[Sexp]) -> Option<Sexp> {
    let [sname, order, ty, via, v] = a else { return None };
    let sname = sname.as_atom()?;
    let order = strs(order)?;
    let ty = match (ty.tag(), ty.args()) {
        (Some("int"), [n]) => n.as_str()?,
        _ => return None,
    };
    let v = dec_value(v)??;
    let real = schema_order(sname)?;
    if real != order {
        return Some(node("schema-order", real.iter().map(|x| st(*x)).collect()));
    }
    if !order.iter().any(|x| x == ty) {
        return None;
    }
    let req = match via.as_atom()? {
        "lit" => Request::new(format!("{{ r: {ty}(x: {}) }}", literal(&v)?)),
        "def" => Request::new(format!("query($v: Int = {}) {{ r: {ty}(x: $v) }}", literal(&v)?)),
        "var" => {
            if matches!(v, Value::Enum(_)) {
                return None; // a JSON variable cannot be an enum value
            }
            let mut vars = Variables::default();
            vars.insert(Name::new("v"), v);
            Request::new(format!("query($v: Int!) {{ r: {ty}(x: $v) }}")).variables(vars)
        }
        _ => return None,
    };
    INT_SCHEMAS.with(|ss| {
        let s = &ss.iter().find(|s| s.0 == sname)?.1;
        *s.seen.lock().unwrap() = Seen::default();
        let resp = (s.exec)(req);
        let seen = s.seen.lock().unwrap();
        let class = seen.class.unwrap_or("not-validated");
        let res = if resp.errors.is_empty() {
            let d = serde_json::to_value(&resp.data).ok()?;
            node("ok", vec![atom(d.get("r")?.as_str()?)])
        } else if seen.class.is_none() {
            node("rejected", vec![atom("parse")])
        } else if seen.validation_failed {
            node("rejected", vec![atom("validation")])
        } else {
            node("rejected", vec![atom("execution")])
        };
        Some(node("sch", vec![atom(class), res]))
    })
}

macro_rules! register_fn {
    ($($name:literal $T:ident),*) => {
        fn register_int(name: &str, r: &mut Registry) -> bool {
            match name {
                $( $name => { <$T as InputType>::create_type_info(r); true } )*
                _ => false,
            }
        }
    };
}
register_fn!("i8" i8, "i16" i16, "i32" i32, "i64" i64, "isize" isize, "u8" u8, "u16" u16, "u32" u32, "u64" u64, "usize" usize,
    "NonZeroI8" NonZeroI8, "NonZeroI16" NonZeroI16, "NonZeroI32" NonZeroI32, "NonZeroI64" NonZeroI64, "NonZeroIsize" NonZeroIsize,
    "NonZeroU8" NonZeroU8, "NonZeroU16" NonZeroU16, "NonZeroU32" NonZeroU32, "NonZeroU64" NonZeroU64, "NonZeroUsize" NonZeroUsize);

fn run_reg(a: &[Sexp]) -> Option<Sexp> {
    let [order, ty, v] = a else { return None };
    let order = strs(order)?;
    let ty = match (ty.tag(), ty.args()) {
        (Some("int"), [n]) => n.as_str()?,
        _ => return None,
    };
    if !order.iter().any(|x| x == ty) {
        return None;
    }
    let v = dec_value(v)??;
    let mut r = Registry::default();
    for n in &order {
        if !register_int(n, &mut r) {
            return None;
        }
    }
    let class = int_validator_class(&r);
    let pass = match r.types.get("Int") {
        Some(MetaType::Scalar { is_valid: Some(f), .. }) => f(&v),
        _ => return Some(node("reg", vec![atom(class)])),
    };
    Some(node("reg", vec![atom(class), pass.show()]))
}

fn count(out: Sexp, dist: &mut Dist) -> Sexp {
    let a = out.args();
    match (out.tag(), a.last().and_then(|x| x.tag())) {
        (Some("sch"), Some("ok")) => dist.hit("out_sch_ok"),
        (Some("sch"), Some("rejected")) => dist.hit(&format!("out_sch_rejected_{}", a.last().unwrap().args().first().and_then(|x| x.as_atom()).unwrap_or("?"))),
        (Some("reg"), _) => dist.hit(&format!("out_reg_{}", a.last().and_then(|x| x.as_atom()).unwrap_or("?"))),
        _ => dist.hit("out_other"),
    }
    out
}

fn run(case: &Sexp, dist: &mut Dist) -> Sexp {
    match case.tag() {
        Some("sch") => return count(run_sch(case.args()).unwrap_or_else(bad), dist),
        Some("reg") => return count(run_reg(case.args()).unwrap_or_else(bad), dist),
        _ => {}
    }
    assert!(usize::BITS == 64, "the model of isize/usize assumes a 64-bit target");
    let (Some(kind), [ty, arg]) = (case.tag(), case.args()) else { return bad() };
    let out = if let Some(t) = ty.as_atom() {
        match t {
            "f64" => op_scalar::<f64>(kind, arg),
            "f32" => op_scalar::<f32>(kind, arg),
            "bool" => op_scalar::<bool>(kind, arg),
            "string" => op_scalar::<String>(kind, arg),
            "boxstr" => op::<Box<str>>(kind, arg),
            "arcstr" => op::<Arc<str>>(kind, arg),
            "char" => op_scalar::<char>(kind, arg),
            "id" => op_scalar::<ID>(kind, arg),
            _ => bad(),
        }
    } else {
        match (ty.tag(), ty.args()) {
            (Some("int"), [n]) => match n.as_str().unwrap_or("") {
                "i8" => op_scalar::<i8>(kind, arg),
                "i16" => op_scalar::<i16>(kind, arg),
                "i32" => op_scalar::<i32>(kind, arg),
                "i64" => op_scalar::<i64>(kind, arg),
                "isize" => op_scalar::<isize>(kind, arg),
                "u8" => op_scalar::<u8>(kind, arg),
                "u16" => op_scalar::<u16>(kind, arg),
                "u32" => op_scalar::<u32>(kind, arg),
                "u64" => op_scalar::<u64>(kind, arg),
                "usize" => op_scalar::<usize>(kind, arg),
                "NonZeroI8" => op_scalar::<NonZeroI8>(kind, arg),
                "NonZeroI16" => op_scalar::<NonZeroI16>(kind, arg),
                "NonZeroI32" => op_scalar::<NonZeroI32>(kind, arg),
                "NonZeroI64" => op_scalar::<NonZeroI64>(kind, arg),
                "NonZeroIsize" => op_scalar::<NonZeroIsize>(kind, arg),
                "NonZeroU8" => op_scalar::<NonZeroU8>(kind, arg),
                "NonZeroU16" => op_scalar::<NonZeroU16>(kind, arg),
                "NonZeroU32" => op_scalar::<NonZeroU32>(kind, arg),
                "NonZeroU64" => op_scalar::<NonZeroU64>(kind, arg),
                "NonZeroUsize" => op_scalar::<NonZeroUsize>(kind, arg),
                _ => bad(),
            },
            (Some("enum"), [n, Sexp::List(items)]) => match n.as_atom().unwrap_or("") {
                "Color" => op_enum::<Color>(kind, items, arg),
                "Mode" => op_enum::<Mode>(kind, items, arg),
                "Single" => op_enum::<Single>(kind, items, arg),
                _ => bad(),
            },
            _ => bad(),
        }
    };
    match out.tag() {
        Some("ok") => dist.hit("out_ok"),
        Some("err") => dist.hit("out_err"),
        Some("rt") => dist.hit("out_rt"),
        _ => dist.hit("out_other"),
    }
    out
}

// ------------------------------------------------------------------ generator

const INT_TYPES: [(&str, u32, bool, bool); 20] = [
    ("i8", 8, true, false),
    ("u8", 8, false, false),
    ("NonZeroI8", 8, true, true),
    ("NonZeroU8", 8, false, true),
    ("i16", 16, true, false),
    ("u16", 16, false, false),
    ("NonZeroI16", 16, true, true),
    ("NonZeroU16", 16, false, true),
    ("i32", 32, true, false),
    ("u32", 32, false, false),
    ("NonZeroI32", 32, true, true),
    ("NonZeroU32", 32, false, true),
    ("i64", 64, true, false),
    ("u64", 64, false, false),
    ("NonZeroI64", 64, true, true),
    ("NonZeroU64", 64, false, true),
    ("isize", 64, true, false),
    ("usize", 64, false, false),
    ("NonZeroIsize", 64, true, true),
    ("NonZeroUsize", 64, false, true),
];

fn ty_int(name: &str) -> Sexp {
    node("int", vec![st(name)])
}

fn lo_hi(bits: u32, signed: bool) -> (i128, i128) {
    if signed { (-(1i128 << (bits - 1)), (1i128 << (bits - 1)) - 1) } else { (0, (1i128 << bits) - 1) }
}

const NUM_MIN: i128 = i64::MIN as i128;
const NUM_MAX: i128 = u64::MAX as i128;

fn vint(i: i128) -> Sexp {
    node("int", vec![num(i.clamp(NUM_MIN, NUM_MAX))])
}
fn vfloat(x: f64) -> Sexp {
    let x = if x.is_finite() { x } else { 0.5 };
    node("float", vec![num(x.to_bits())])
}
fn vstr(s: &str) -> Sexp {
    node("str", vec![st(s)])
}

/// one block of the exhaustive part: `count` consecutive cases
struct Block {
    count: usize,
    make: Box<dyn Fn(usize) -> Sexp>,
}

fn exhaustive_blocks(tier: &str) -> Vec<Block> {
    let mut bs: Vec<Block> = vec![];
    for &(name, bits, signed, nz) in INT_TYPES.iter().filter(|t| t.1 <= 16) {
        if bits == 16 && tier != "thorough" {
            continue;
        }
        let margin: i128 = if bits == 8 { 300 } else { 600 };
        let (from, to) = (-(1i128 << (bits - 1)) - margin, (1i128 << bits) - 1 + margin);
        bs.push(Block {
            count: (to - from + 1) as usize,
            make: Box::new(move |k| node("parse", vec![ty_int(name), vint(from + k as i128)])),
        });
        let (lo, hi) = lo_hi(bits, signed);
        // every Rust value of the type (0 skipped for NonZero: it is not a value of the type)
        let n = (hi - lo + 1) as usize - if nz { 1 } else { 0 };
        bs.push(Block {
            count: n,
            make: Box::new(move |k| {
                let mut v = lo + k as i128;
                if nz && v >= 0 {
                    v += 1;
                }
                node("rt", vec![ty_int(name), num(v)])
            }),
        });
    }
    // every ASCII char: parse of the one-char string, and round trip
    bs.push(Block {
        count: 128,
        make: Box::new(|k| node("parse", vec![atom("char"), vstr(&(k as u8 as char).to_string())])),
    });
    bs.push(Block {
        count: 128,
        make: Box::new(|k| node("rt", vec![atom("char"), st((k as u8 as char).to_string())])),
    });
    bs
}

fn other_kind(rng: &mut Rng, dist: &mut Dist) -> Sexp {
    dist.hit("v_other_kind");
    match rng.below(9) {
        0 => atom("none"),
        1 => atom("null"),
        2 => node("bool", vec![atom(if rng.chance(1, 2) { "true" } else { "false" })]),
        3 => node("bin", vec![]),
        4 => node("enum", vec![st(*rng.pick(&["RED", "A", "true", "null", "X1"]))]),
        5 => node("list", if rng.chance(1, 3) { vec![] } else { vec![vint(rng.range(-3, 300) as i128)] }),
        6 => node(
            "obj",
            if rng.chance(1, 3) { vec![] } else { vec![list(vec![st("a"), vint(rng.range(0, 9) as i128)])] },
        ),
        7 => vstr(*rng.pick(&["1", "0", "-1", "127", "true", "1.0", "", "RED"])),
        _ => vstr(&rng.range(-70000, 70000).to_string()),
    }
}

fn interesting_ints() -> Vec<i128> {
    let mut v: Vec<i128> = vec![];
    for bits in [8u32, 16, 32, 64] {
        for signed in [true, false] {
            let (lo, hi) = lo_hi(bits, signed);
            for d in -2..=2 {
                v.push(lo + d);
                v.push(hi + d);
            }
        }
    }
    for p in [24u32, 53, 63, 64] {
        for d in -2..=2 {
            v.push((1i128 << p) + d);
            v.push(-(1i128 << p) + d);
        }
    }
    v.retain(|x| (NUM_MIN..=NUM_MAX).contains(x));
    v.sort();
    v.dedup();
    v
}

fn rand_int(rng: &mut Rng) -> i128 {
    let bits = 1 + rng.below(64) as u32;
    let mag = (rng.next_u64() >> (64 - bits)) as i128;
    if rng.chance(2, 5) { (-mag).max(NUM_MIN) } else { mag }
}

const FLOAT_BITS: [u64; 28] = [
    0x0000000000000000, // +0
    0x8000000000000000, // -0
    0x0000000000000001, // min subnormal
    0x000FFFFFFFFFFFFF, // max subnormal
    0x0010000000000000, // min normal
    0x7FEFFFFFFFFFFFFF, // max
    0xFFEFFFFFFFFFFFFF, // -max
    0x3FF0000000000000, // 1.0
    0xBFF0000000000000, // -1.0
    0x405FC00000000000, // 127.0
    0x4060000000000000, // 128.0
    0x3FB999999999999A, // 0.1
    0x3FF8000000000000, // 1.5
    0x47EFFFFFE0000000, // f32::MAX
    0x47EFFFFFF0000000, // f32::MAX + half ulp (tie -> inf)
    0x47EFFFFFEFFFFFFF, // just below the tie
    0x47F0000000000000, // 2^128
    0x3810000000000000, // f32 min normal
    0x380FFFFFFFFFFFFF, // just below f32 min normal
    0x36A0000000000000, // f32 min subnormal
    0x3690000000000000, // half of it (tie -> 0)
    0x3690000000000001, // just above the tie
    0x3FF0000010000000, // 1 + 2^-24 (tie to even, down)
    0x3FF0000030000000, // 1 + 3*2^-24 (tie to even, up)
    0x3FF0000010000001, // just above a tie
    0x4340000000000000, // 2^53
    0x43E0000000000000, // 2^63
    0x43F0000000000000, // 2^64
];

fn rand_float_bits(rng: &mut Rng, dist: &mut Dist) -> u64 {
    let b = match rng.below(10) {
        0..=3 => {
            dist.hit("v_float_special");
            *rng.pick(&FLOAT_BITS)
        }
        4 => {
            dist.hit("v_float_integral");
            (rng.range(-70000, 70000) as f64).to_bits()
        }
        5 | 6 => {
            // in the f32 range with random low mantissa bits: exercises rounding of the narrowing
            dist.hit("v_float_f32range");
            let e = 0x380 - 30 + rng.below(0x47F - 0x380 + 40) as u64;
            let m = match rng.below(4) {
                0 => (rng.next_u64() & 0xFFFFFF) << 28, // exact halfway candidates
                1 => ((rng.next_u64() & 0xFFFFFF) << 28) | 1,
                _ => rng.next_u64() & 0xFFFFFFFFFFFFF,
            } & 0xFFFFFFFFFFFFF;
            ((rng.next_u64() & 1) << 63) | (e << 52) | m
        }
        _ => {
            dist.hit("v_float_random");
            rng.next_u64()
        }
    };
    if f64::from_bits(b).is_finite() { b } else { b & !(1u64 << 62) }
}

fn rand_string(rng: &mut Rng, dist: &mut Dist) -> String {
    const POOL: [char; 16] = [
        'a', 'Z', '0', ' ', '"', '\\', '\n', '\u{0}', '\u{7f}', '\u{e9}', '\u{301}', '\u{4e2d}', '\u{1f600}',
        '\u{10ffff}', '\u{d7ff}', '\u{e000}',
    ];
    let n = match rng.below(10) {
        0 => 0,
        1..=5 => 1,
        6 | 7 => 2,
        _ => 3 + rng.below(6),
    };
    dist.hit(match n {
        0 => "v_str_len0",
        1 => "v_str_len1",
        2 => "v_str_len2",
        _ => "v_str_long",
    });
    (0..n)
        .map(|_| {
            if rng.chance(1, 2) {
                *rng.pick(&POOL)
            } else {
                loop {
                    if let Some(c) = char::from_u32((rng.next_u64() % 0x110000) as u32) {
                        break c;
                    }
                }
            }
        })
        .collect()
}

fn enum_ty(rng: &mut Rng) -> (Sexp, Vec<&'static str>) {
    let (n, items): (&str, Vec<&'static str>) = match rng.below(3) {
        0 => ("Color", Color::items().iter().map(|i| i.name).collect()),
        1 => ("Mode", Mode::items().iter().map(|i| i.name).collect()),
        _ => ("Single", Single::items().iter().map(|i| i.name).collect()),
    };
    (node("enum", vec![atom(n), list(items.iter().map(|s| st(*s)).collect())]), items)
}

fn gen_random(rng: &mut Rng, dist: &mut Dist) -> Sexp {
    let kind = match rng.below(20) {
        0..=11 => "parse",
        12..=16 => "rt",
        _ => "valid",
    };
    let family = rng.below(20);
    match family {
        // ---------------------------------------------------------------- integer scalars
        0..=9 => {
            let &(name, bits, signed, nz) = rng.pick(&INT_TYPES);
            dist.hit(&format!("ty_int{bits}_{kind}"));
            let (lo, hi) = lo_hi(bits, signed);
            if kind == "rt" {
                let mut v = match rng.below(4) {
                    0 => lo + rng.below(3) as i128,
                    1 => hi - rng.below(3) as i128,
                    2 => rng.range(-2, 2) as i128,
                    _ => rand_int(rng),
                }
                .clamp(lo, hi);
                if nz && v == 0 {
                    v = 1;
                }
                return node("rt", vec![ty_int(name), num(v)]);
            }
            let v = match rng.below(20) {
                0..=5 => {
                    dist.hit("v_int_own_boundary");
                    let b = *rng.pick(&[lo, hi, 0]);
                    vint(b + rng.range(-2, 2) as i128)
                }
                6..=9 => {
                    dist.hit("v_int_interesting");
                    vint(*rng.pick(&interesting_ints()))
                }
                10..=13 => {
                    dist.hit("v_int_random");
                    vint(rand_int(rng))
                }
                14..=16 => {
                    dist.hit("v_float_for_int");
                    match rng.below(3) {
                        0 => vfloat(rng.range(lo.max(-70000) as i64, hi.min(70000) as i64) as f64),
                        1 => vfloat(*rng.pick(&[0.0, -0.0, 1.0, 127.0, 0.5, 1e300, 1.8446744073709552e19])),
                        _ => node("float", vec![num(rand_float_bits(rng, dist))]),
                    }
                }
                _ => other_kind(rng, dist),
            };
            if kind == "valid" && v.as_atom() == Some("none") {
                return node("valid", vec![ty_int(name), atom("null")]);
            }
            node(kind, vec![ty_int(name), v])
        }
        // ---------------------------------------------------------------- floats
        10..=12 => {
            let ty = if rng.chance(1, 2) { "f64" } else { "f32" };
            dist.hit(&format!("ty_{ty}_{kind}"));
            if kind == "rt" {
                // every class of Rust float, non-finite included
                let r = if ty == "f64" {
                    let b = match rng.below(8) {
                        0 => *rng.pick(&[0x7FF0000000000000u64, 0xFFF0000000000000, 0x7FF8000000000000, 0x7FF0000000000001]),
                        1 | 2 => *rng.pick(&FLOAT_BITS),
                        _ => rng.next_u64(),
                    };
                    dist.hit(if f64::from_bits(b).is_finite() { "rt_float_finite" } else { "rt_float_nonfinite" });
                    num(b)
                } else {
                    let b = match rng.below(8) {
                        0 => *rng.pick(&[0x7F800000u32, 0xFF800000, 0x7FC00000, 0x7F800001]),
                        1 | 2 => *rng.pick(&[0u32, 0x80000000, 1, 0x007FFFFF, 0x00800000, 0x7F7FFFFF, 0x3F800000, 0x3DCCCCCD]),
                        _ => rng.next_u64() as u32,
                    };
                    dist.hit(if f32::from_bits(b).is_finite() { "rt_float_finite" } else { "rt_float_nonfinite" });
                    num(b)
                };
                return node("rt", vec![atom(ty), r]);
            }
            let v = match rng.below(10) {
                0..=4 => node("float", vec![num(rand_float_bits(rng, dist))]),
                5 | 6 => {
                    dist.hit("v_int_for_float");
                    if rng.chance(1, 2) { vint(*rng.pick(&interesting_ints())) } else { vint(rand_int(rng)) }
                }
                _ => other_kind(rng, dist),
            };
            if kind == "valid" && v.as_atom() == Some("none") {
                return node("valid", vec![atom(ty), atom("null")]);
            }
            node(kind, vec![atom(ty), v])
        }
        // ---------------------------------------------------------------- bool / strings / char
        13..=15 => {
            let ty = *rng.pick(&["bool", "string", "boxstr", "arcstr", "char", "char"]);
            let kind = if kind == "valid" && (ty == "boxstr" || ty == "arcstr") { "parse" } else { kind };
            dist.hit(&format!("ty_{ty}_{kind}"));
            if kind == "rt" {
                let r = match ty {
                    "bool" => rng.chance(1, 2).show(),
                    "char" => loop {
                        let s = rand_string(rng, dist);
                        if let Some(c) = s.chars().next() {
                            break st(c.to_string());
                        }
                    },
                    _ => st(rand_string(rng, dist)),
                };
                return node("rt", vec![atom(ty), r]);
            }
            let v = match rng.below(10) {
                0..=5 => {
                    if ty == "bool" {
                        node("bool", vec![rng.chance(1, 2).show()])
                    } else {
                        vstr(&rand_string(rng, dist))
                    }
                }
                6 => vint(rng.range(-1, 2) as i128),
                7 => vfloat(*rng.pick(&[0.0, 1.0, 0.5])),
                _ => other_kind(rng, dist),
            };
            if kind == "valid" && v.as_atom() == Some("none") {
                return node("valid", vec![atom(ty), atom("null")]);
            }
            node(kind, vec![atom(ty), v])
        }
        // ---------------------------------------------------------------- ID
        16 | 17 => {
            dist.hit(&format!("ty_id_{kind}"));
            if kind == "rt" {
                let s = if rng.chance(1, 3) { rand_int(rng).to_string() } else { rand_string(rng, dist) };
                return node("rt", vec![atom("id"), st(s)]);
            }
            let v = match rng.below(10) {
                0..=2 => vstr(&rand_string(rng, dist)),
                3 | 4 => {
                    dist.hit("v_int_for_id");
                    vint(*rng.pick(&interesting_ints()))
                }
                5 => vint(rand_int(rng)),
                6 => {
                    dist.hit("v_float_for_id");
                    vfloat(*rng.pick(&[4.0, 0.0, -1.0, 0.5, 1e19]))
                }
                _ => other_kind(rng, dist),
            };
            if kind == "valid" && v.as_atom() == Some("none") {
                return node("valid", vec![atom("id"), atom("null")]);
            }
            node(kind, vec![atom("id"), v])
        }
        // ---------------------------------------------------------------- derived enums
        _ => {
            let kind = if kind == "valid" { "parse" } else { kind };
            let (ty, items) = enum_ty(rng);
            dist.hit(&format!("ty_enum_{kind}"));
            if kind == "rt" {
                return node("rt", vec![ty, num(rng.below(items.len()))]);
            }
            let name: String = match rng.below(6) {
                0..=2 => {
                    dist.hit("v_enum_item");
                    items[rng.below(items.len())].to_string()
                }
                3 => {
                    dist.hit("v_enum_near_miss");
                    let s = items[rng.below(items.len())];
                    match rng.below(4) {
                        0 => s.to_lowercase(),
                        1 => s.to_uppercase(),
                        2 => format!("{s}_"),
                        _ => s[..s.len() - 1].to_string(),
                    }
                }
                _ => {
                    dist.hit("v_enum_foreign");
                    rng.pick(&["RED", "fastPath", "ONLY", "slow", "SlowPath", "slowPath", "Red", "", "x", "SHOUTING"]).to_string()
                }
            };
            let v = match rng.below(8) {
                0..=3 => node("enum", vec![st(name)]),
                4 | 5 => vstr(&name),
                6 => vint(rng.range(0, 3) as i128),
                _ => other_kind(rng, dist),
            };
            node(kind, vec![ty, v])
        }
    }
}


// ------------------------------------------------------------------ generator of stream `schema`

fn int_info(name: &str) -> (i128, i128) {
    let t = INT_TYPES.iter().find(|t| t.0 == name).expect("integer type");
    lo_hi(t.1, t.2)
}

fn order_sexp(order: &[&str]) -> Sexp {
    list(order.iter().map(|x| st(*x)).collect())
}

/// the fixed part: every schema x field x lit/var x boundaries of the type and of i64/u64;
/// every ordered pair (first registered, position type) x the values that tell the views apart
fn schema_fixed() -> Vec<Sexp> {
    let mut v = vec![];
    for sname in SCHEMAS {
        let order = schema_order(sname).expect("schema");
        for ty in &order {
            let (lo, hi) = int_info(ty);
            let mut vals = vec![lo - 1, lo, hi, hi + 1, 0, -1, i64::MAX as i128, i64::MAX as i128 + 1, NUM_MAX, NUM_MIN];
            vals.retain(|x| (NUM_MIN..=NUM_MAX).contains(x));
            vals.sort();
            vals.dedup();
            for via in ["lit", "var"] {
                for x in &vals {
                    v.push(node("sch", vec![atom(sname), order_sexp(&order), ty_int(ty), atom(via), vint(*x)]));
                }
            }
        }
    }
    for first in INT_TYPES.iter() {
        for t in INT_TYPES.iter() {
            let order: Vec<&str> = if first.0 == t.0 { vec![t.0] } else { vec![first.0, t.0] };
            for x in [-1i128, 1, 1 << 63, NUM_MAX] {
                v.push(node("reg", vec![order_sexp(&order), ty_int(t.0), vint(x)]));
            }
        }
    }
    v
}

thread_local! {
    static SCHEMA_FIXED: Vec<Sexp> = schema_fixed();
}

fn schema_value(rng: &mut Rng, dist: &mut Dist, lo: i128, hi: i128, json: bool) -> Sexp {
    match rng.below(20) {
        0..=5 => {
            dist.hit("v_int_own_boundary");
            let b = *rng.pick(&[lo, hi, 0]);
            vint(b + rng.range(-2, 2) as i128)
        }
        6..=8 => {
            dist.hit("v_int_interesting");
            vint(*rng.pick(&interesting_ints()))
        }
        9..=11 => {
            // the band the two 64-bit views disagree on
            dist.hit("v_int_64bit_band");
            match rng.below(4) {
                0 => vint(i64::MAX as i128 + rng.range(-2, 3) as i128),
                1 => vint(NUM_MAX - rng.below(3) as i128),
                2 => vint(i64::MAX as i128 + 1 + (rng.next_u64() >> 1) as i128),
                _ => vint(-1 - (rng.next_u64() >> (1 + rng.below(63))) as i128),
            }
        }
        12..=14 => {
            dist.hit("v_int_random");
            vint(rand_int(rng))
        }
        15 | 16 => {
            dist.hit("v_float_for_int");
            match rng.below(3) {
                0 => vfloat(rng.range(lo.max(-70000) as i64, hi.min(70000) as i64) as f64),
                1 => vfloat(*rng.pick(&[0.0, -0.0, 1.0, 127.0, 0.5, 1e300, 1.8446744073709552e19, 9.223372036854775807e18])),
                _ => node("float", vec![num(rand_float_bits(rng, dist))]),
            }
        }
        _ => {
            dist.hit("v_other_kind");
            match rng.below(7) {
                0 => atom("null"),
                1 => node("bool", vec![atom(if rng.chance(1, 2) { "true" } else { "false" })]),
                2 if !json => node("enum", vec![st(*rng.pick(&["RED", "A", "X1"]))]),
                3 => node("list", if rng.chance(1, 3) { vec![] } else { vec![vint(rng.range(-3, 300) as i128)] }),
                4 => node("obj", if rng.chance(1, 3) { vec![] } else { vec![list(vec![st("a"), vint(rng.range(0, 9) as i128)])] }),
                5 => vstr(*rng.pick(&["1", "0", "-1", "127", "true", "1.0", "", "RED"])),
                _ => vstr(&rng.range(-70000, 70000).to_string()),
            }
        }
    }
}

fn gen_schema(rng: &mut Rng, i: usize, dist: &mut Dist) -> Sexp {
    let fixed = SCHEMA_FIXED.with(|f| f.get(i).cloned());
    if let Some(c) = fixed {
        dist.hit("fixed");
        return c;
    }
    dist.hit("random");
    if rng.chance(7, 10) {
        let sname = *rng.pick(&SCHEMAS);
        let order = schema_order(sname).expect("schema");
        let ty = *rng.pick(&order);
        let via = *rng.pick(&["lit", "lit", "var", "var", "def"]);
        dist.hit(&format!("sch_{sname}_{via}"));
        let (lo, hi) = int_info(ty);
        let v = schema_value(rng, dist, lo, hi, via == "var");
        node("sch", vec![atom(sname), order_sexp(&order), ty_int(ty), atom(via), v])
    } else {
        let n = 1 + rng.below(4);
        let mut order: Vec<&str> = vec![];
        while order.len() < n {
            let t = rng.pick(&INT_TYPES).0;
            if !order.contains(&t) {
                order.push(t);
            }
        }
        let ty = *rng.pick(&order);
        let first = INT_TYPES.iter().find(|t| t.0 == order[0]).unwrap();
        dist.hit(if first.2 { "reg_first_signed" } else { "reg_first_unsigned" });
        let (lo, hi) = int_info(ty);
        let v = schema_value(rng, dist, lo, hi, false);
        node("reg", vec![order_sexp(&order), ty_int(ty), v])
    }
}

fn gen_case(rng: &mut Rng, i: usize, o: &Opts, dist: &mut Dist) -> Sexp {
    if o.stream == "schema" {
        return gen_schema(rng, i, dist);
    }
    let mut k = i;
    for b in exhaustive_blocks(&o.tier) {
        if k < b.count {
            dist.hit("exhaustive");
            return (b.make)(k);
        }
        k -= b.count;
    }
    dist.hit("random");
    gen_random(rng, dist)
}

fn main() {
    main_loop(&mut gen_case, &mut run);
}
