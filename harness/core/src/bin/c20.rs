//! C20 — the response cache policy is never looser than the data it contains.
//!
//! Case:   (case TAG SCHEMA HINTS (req DOC OPNAME VARS TEXT) …)
//!   TAG     schema variant ("v0".."v3"): the same type graph with different cache hints
//!   SCHEMA  description of that schema read back from the real registry (SDL export)
//!   HINTS   (hint TYPE FIELD|none PUBLIC MAXAGE)… — cache hints are not part of SDL; the table
//!           is produced by the same macro invocation that writes the derive attributes
//!   req     one request of the batch (1 request = `BatchRequest::Single`)
//! Output: (out (cc PUBLIC MAXAGE HEADER|none)… (batch PUBLIC MAXAGE HEADER|none))
//!   one `cc` per response (`Response.cache_control`, or `(rejected)` if the request was refused),
//!   `batch` = `BatchResponse::cache_control()`.

#![allow(dead_code)]

#[path = "../family.rs"]
mod family;

use agvh::*;
use async_graphql::{BatchRequest, BatchResponse, CacheControl, EmptyMutation, EmptySubscription, Interface, Object, Schema, Union};
use family::{DocN, GV, SchemaD, SelN, gen_request, print_doc, vars_from_sexp, vars_sexp};

/// (type, field or "", public, max_age as stored in the registry)
type HintRow = (&'static str, &'static str, bool, i32);

trait Variant {
    fn sdl(&self) -> String;
    fn hints(&self) -> Vec<HintRow>;
    fn exec(&self, b: BatchRequest) -> BatchResponse;
}

/// One schema variant.  Every `(max_age, private, no_cache)` triple is written once and goes both
/// into the derive attribute and into the hint table shipped with the case.
macro_rules! variant {
    ($m:ident;
     Query = ($qm:literal, $qp:literal, $qn:literal), A = ($am:literal, $ap:literal, $an:literal),
     B = ($bm:literal, $bp:literal, $bn:literal), C = ($cm:literal, $cp:literal, $cn:literal);
     Query.a = ($qam:literal, $qap:literal, $qan:literal), Query.i = ($qim:literal, $qip:literal, $qin:literal),
     Query.u = ($qum:literal, $qup:literal, $qun:literal), Query.n = ($qnm:literal, $qnp:literal, $qnn:literal),
     A.x = ($axm:literal, $axp:literal, $axn:literal), A.y = ($aym:literal, $ayp:literal, $ayn:literal),
     A.b = ($abm:literal, $abp:literal, $abn:literal),
     B.x = ($bxm:literal, $bxp:literal, $bxn:literal), B.z = ($bzm:literal, $bzp:literal, $bzn:literal),
     C.y = ($cym:literal, $cyp:literal, $cyn:literal), C.w = ($cwm:literal, $cwp:literal, $cwn:literal)) => {
        mod $m {
            use super::*;
            pub struct A;
            pub struct B;
            pub struct C;

            #[derive(Interface)]
            #[graphql(field(name = "x", ty = "i64"))]
            pub enum I {
                A(A),
                B(B),
            }
            #[derive(Union)]
            pub enum U {
                A(A),
                C(C),
            }

            #[Object(cache_control(max_age = $am, private = $ap, no_cache = $an))]
            impl A {
                #[graphql(cache_control(max_age = $axm, private = $axp, no_cache = $axn))]
                async fn x(&self) -> i64 { 1 }
                #[graphql(cache_control(max_age = $aym, private = $ayp, no_cache = $ayn))]
                async fn y(&self) -> Option<String> { Some("a".into()) }
                #[graphql(cache_control(max_age = $abm, private = $abp, no_cache = $abn))]
                async fn b(&self) -> Option<B> { Some(B) }
                async fn i(&self) -> Option<I> { Some(I::B(B)) }
                async fn us(&self) -> Vec<U> { vec![U::C(C)] }
            }
            #[Object(cache_control(max_age = $bm, private = $bp, no_cache = $bn))]
            impl B {
                #[graphql(cache_control(max_age = $bxm, private = $bxp, no_cache = $bxn))]
                async fn x(&self) -> i64 { 2 }
                #[graphql(cache_control(max_age = $bzm, private = $bzp, no_cache = $bzn))]
                async fn z(&self) -> i64 { 3 }
                async fn u(&self) -> Option<U> { Some(U::A(A)) }
                async fn c(&self) -> Option<C> { Some(C) }
            }
            #[Object(cache_control(max_age = $cm, private = $cp, no_cache = $cn))]
            impl C {
                #[graphql(cache_control(max_age = $cym, private = $cyp, no_cache = $cyn))]
                async fn y(&self) -> Option<String> { None }
                #[graphql(cache_control(max_age = $cwm, private = $cwp, no_cache = $cwn))]
                async fn w(&self) -> i64 { 4 }
                async fn a(&self) -> Option<A> { Some(A) }
                async fn is(&self) -> Vec<I> { vec![I::A(A), I::B(B)] }
            }
            pub struct Query;
            #[Object(cache_control(max_age = $qm, private = $qp, no_cache = $qn))]
            impl Query {
                #[graphql(cache_control(max_age = $qam, private = $qap, no_cache = $qan))]
                async fn a(&self) -> Option<A> { Some(A) }
                async fn b(&self) -> Option<B> { Some(B) }
                async fn c(&self) -> Option<C> { Some(C) }
                #[graphql(cache_control(max_age = $qim, private = $qip, no_cache = $qin))]
                async fn i(&self) -> Option<I> { Some(I::A(A)) }
                async fn is(&self) -> Vec<I> { vec![I::B(B), I::A(A)] }
                #[graphql(cache_control(max_age = $qum, private = $qup, no_cache = $qun))]
                async fn u(&self) -> Option<U> { Some(U::C(C)) }
                async fn us(&self) -> Vec<U> { vec![U::A(A), U::C(C)] }
                #[graphql(cache_control(max_age = $qnm, private = $qnp, no_cache = $qnn))]
                async fn n(&self) -> i64 { 0 }
            }

            pub struct V(pub Schema<Query, EmptyMutation, EmptySubscription>);
            pub fn build() -> V {
                V(Schema::build(Query, EmptyMutation, EmptySubscription).finish())
            }
            fn row(t: &'static str, f: &'static str, m: usize, p: bool, n: bool) -> HintRow {
                // the derive macro's own conversion (derive/src/object.rs): `usize as i32`, -1 for no_cache
                (t, f, !p, if n { -1 } else { m as i32 })
            }
            impl Variant for V {
                fn sdl(&self) -> String { self.0.sdl() }
                fn exec(&self, b: BatchRequest) -> BatchResponse { spin_on(self.0.execute_batch(b)) }
                fn hints(&self) -> Vec<HintRow> {
                    vec![
                        row("Query", "", $qm, $qp, $qn), row("A", "", $am, $ap, $an),
                        row("B", "", $bm, $bp, $bn), row("C", "", $cm, $cp, $cn),
                        row("Query", "a", $qam, $qap, $qan), row("Query", "i", $qim, $qip, $qin),
                        row("Query", "u", $qum, $qup, $qun), row("Query", "n", $qnm, $qnp, $qnn),
                        row("A", "x", $axm, $axp, $axn), row("A", "y", $aym, $ayp, $ayn),
                        row("A", "b", $abm, $abp, $abn),
                        row("B", "x", $bxm, $bxp, $bxn), row("B", "z", $bzm, $bzp, $bzn),
                        row("C", "y", $cym, $cyp, $cyn), row("C", "w", $cwm, $cwp, $cwn),
                    ]
                }
            }
        }
    };
}

// v0: nothing at the root; A private, B short-lived, C no-cache field: everything interesting sits
//     behind the interface I = {A, B} and the union U = {A, C}
variant!(v0;
    Query = (0, false, false), A = (0, true, false), B = (10, false, false), C = (300, false, false);
    Query.a = (0, false, false), Query.i = (0, false, false), Query.u = (0, false, false), Query.n = (0, false, false),
    A.x = (0, false, false), A.y = (40, false, false), A.b = (0, false, false),
    B.x = (5, false, false), B.z = (0, false, false),
    C.y = (0, false, false), C.w = (0, false, true));
// v1: hints everywhere, root has a max-age
variant!(v1;
    Query = (600, false, false), A = (120, false, false), B = (60, true, false), C = (30, false, false);
    Query.a = (90, false, false), Query.i = (0, true, false), Query.u = (45, false, false), Query.n = (1, false, false),
    A.x = (7, false, false), A.y = (0, false, true), A.b = (200, false, false),
    B.x = (0, true, false), B.z = (2147483647, false, false),
    C.y = (15, true, false), C.w = (3, false, false));
// v2: only field hints on the objects behind abstract types
variant!(v2;
    Query = (0, false, false), A = (0, false, false), B = (0, false, false), C = (0, false, false);
    Query.a = (0, false, false), Query.i = (50, false, false), Query.u = (0, false, false), Query.n = (0, false, true),
    A.x = (20, true, false), A.y = (0, false, false), A.b = (0, false, false),
    B.x = (0, false, true), B.z = (9, false, false),
    C.y = (0, false, false), C.w = (8, true, false));
// v3: no-cache object, private root
variant!(v3;
    Query = (1000, true, false), A = (0, false, true), B = (0, false, false), C = (77, false, false);
    Query.a = (0, false, false), Query.i = (0, false, false), Query.u = (500, false, false), Query.n = (0, false, false),
    A.x = (0, false, false), A.y = (0, false, false), A.b = (11, false, false),
    B.x = (13, false, false), B.z = (0, false, false),
    C.y = (0, false, false), C.w = (0, false, false));

const TAGS: [&str; 4] = ["v0", "v1", "v2", "v3"];

fn variant(tag: &str) -> Box<dyn Variant> {
    match tag {
        "v0" => Box::new(v0::build()),
        "v1" => Box::new(v1::build()),
        "v2" => Box::new(v2::build()),
        "v3" => Box::new(v3::build()),
        t => panic!("unknown schema variant {t}"),
    }
}

fn hints_sexp(h: &[HintRow]) -> Sexp {
    list(
        h.iter()
            .map(|(t, f, p, m)| {
                node(
                    "hint",
                    vec![st(*t), if f.is_empty() { atom("none") } else { st(*f) }, atom(if *p { "true" } else { "false" }), num(*m)],
                )
            })
            .collect(),
    )
}

fn rename_spreads(ss: &mut [SelN], pre: &str) {
    for s in ss {
        match s {
            SelN::Field { sels, .. } => rename_spreads(sels, pre),
            SelN::Inline { sels, .. } => rename_spreads(sels, pre),
            SelN::Spread { name, .. } => *name = format!("{pre}{name}"),
        }
    }
}

fn gen_req(sd: &SchemaD, rng: &mut Rng, dist: &mut Dist) -> Sexp {
    let (mut doc, vars): (DocN, Vec<(String, GV)>) = gen_request(sd, rng, dist, "query", true);
    let mut opname = doc.ops[0].name.clone();
    if rng.chance(1, 6) {
        // a second operation in the same document (never executed, but the validator walks it)
        let (mut d2, _) = gen_request(sd, rng, dist, "query", true);
        rename_spreads(&mut d2.ops[0].sels, "G");
        for f in &mut d2.frags {
            rename_spreads(&mut f.sels, "G");
            f.name = format!("G{}", f.name);
        }
        doc.ops[0].name = Some("Op".into());
        opname = Some("Op".into());
        d2.ops[0].name = Some("Other".into());
        doc.ops.push(d2.ops.remove(0));
        doc.frags.append(&mut d2.frags);
        dist.hit("doc_second_operation");
    }
    let text = print_doc(&mut doc);
    node("req", vec![doc.to_sexp(), opname.map(st).unwrap_or(atom("none")), vars_sexp(&vars), st(text)])
}

fn fld(name: &str, sels: Vec<SelN>) -> SelN {
    SelN::Field { alias: None, name: name.into(), args: vec![], dirs: vec![], sels, pos: (0, 0) }
}
fn spread(name: &str) -> SelN {
    SelN::Spread { name: name.into(), dirs: vec![], pos: (0, 0) }
}
fn inline(cond: Option<&str>, sels: Vec<SelN>) -> SelN {
    SelN::Inline { cond: cond.map(|c| c.to_string()), dirs: vec![], sels, pos: (0, 0) }
}
fn frag(name: &str, cond: &str, sels: Vec<SelN>) -> family::FragN {
    family::FragN { name: name.into(), cond: cond.into(), sels }
}

/// hand-written cases that open every stream: (variant, requests as (selections, fragments))
fn fixed() -> Vec<(&'static str, Vec<(Vec<SelN>, Vec<family::FragN>)>)> {
    vec![
        // a private object (A) and a short-lived one (B) behind an interface-typed field
        ("v0", vec![(vec![fld("i", vec![fld("x", vec![])])], vec![])]),
        // hints below a named fragment on a concrete type spread inside a union-typed selection
        ("v2", vec![(vec![fld("u", vec![spread("F")])], vec![frag("F", "C", vec![fld("a", vec![fld("x", vec![])])])])]),
        // selections on object types only: the policy is exactly the combination
        ("v1", vec![(vec![fld("a", vec![fld("x", vec![]), fld("y", vec![])]), fld("n", vec![])], vec![])]),
        ("v1", vec![(vec![fld("__typename", vec![])], vec![])]),
        ("v3", vec![(vec![fld("b", vec![fld("z", vec![]), fld("c", vec![fld("w", vec![])])])], vec![])]),
        // union member with a no-cache field, reached through a list
        ("v0", vec![(vec![fld("us", vec![inline(Some("C"), vec![fld("w", vec![])])])], vec![])]),
        // interface-typed list, fragment on the interface itself
        ("v1", vec![(vec![fld("is", vec![spread("F")])], vec![frag("F", "I", vec![fld("x", vec![])])])]),
        // named fragment on an object spread inside an interface-typed selection
        ("v2", vec![(vec![fld("i", vec![spread("F")])], vec![frag("F", "A", vec![fld("x", vec![])])])]),
        // a batch: the batch policy combines the items
        (
            "v3",
            vec![
                (vec![fld("n", vec![])], vec![]),
                (vec![fld("b", vec![fld("x", vec![])])], vec![]),
                (vec![fld("c", vec![fld("w", vec![])])], vec![]),
            ],
        ),
        ("v0", vec![(vec![fld("b", vec![fld("z", vec![])])], vec![]), (vec![fld("c", vec![fld("w", vec![])])], vec![])]),
    ]
}

fn gen_case(rng: &mut Rng, i: usize, _o: &Opts, dist: &mut Dist) -> Sexp {
    thread_local! {
        static SDS: Vec<(SchemaD, Vec<HintRow>)> = TAGS.iter().map(|t| { let v = variant(t); (SchemaD::from_sdl(&v.sdl()), v.hints()) }).collect();
    }
    SDS.with(|sds| {
        let fx = fixed();
        if i < fx.len() {
            let (tag, reqs) = &fx[i];
            let k = TAGS.iter().position(|t| t == tag).unwrap();
            let (sd, hints) = &sds[k];
            dist.hit("fixed_case");
            let mut xs = vec![st(*tag), sd.to_sexp(), hints_sexp(hints)];
            for (sels, frags) in reqs {
                let mut doc = DocN { ops: vec![family::OpN { ty: "query".into(), name: None, vars: vec![], sels: sels.clone() }], frags: frags.clone() };
                let text = print_doc(&mut doc);
                xs.push(node("req", vec![doc.to_sexp(), atom("none"), vars_sexp(&[]), st(text)]));
            }
            return node("case", xs);
        }
        let k = rng.below(TAGS.len());
        let (sd, hints) = &sds[k];
        dist.hit(&format!("schema_{}", TAGS[k]));
        let nreq = match rng.below(10) {
            0 => 2,
            1 => 3,
            _ => 1,
        };
        dist.hit(&format!("batch_{nreq}"));
        let mut xs = vec![st(TAGS[k]), sd.to_sexp(), hints_sexp(hints)];
        for _ in 0..nreq {
            xs.push(gen_req(sd, rng, dist));
        }
        node("case", xs)
    })
}

fn cc_sexp(tag: &str, c: &CacheControl) -> Sexp {
    node(
        tag,
        vec![atom(if c.public { "true" } else { "false" }), num(c.max_age), c.value().map(st).unwrap_or(atom("none"))],
    )
}

fn run(case: &Sexp, dist: &mut Dist) -> Sexp {
    let a = case.args();
    let v = variant(a[0].as_str().expect("tag"));
    let mut reqs = vec![];
    for r in &a[3..] {
        let ra = r.args();
        let vars = vars_from_sexp(&ra[2]);
        let mut req = async_graphql::Request::new(ra[3].as_str().expect("text"));
        if let Some(n) = ra[1].as_str() {
            req = req.operation_name(n);
        }
        let mut vs = async_graphql::Variables::default();
        for (k, val) in &vars {
            vs.insert(async_graphql::Name::new(k), val.to_avalue());
        }
        reqs.push(req.variables(vs));
    }
    let batch = if reqs.len() == 1 { BatchRequest::Single(reqs.pop().unwrap()) } else { BatchRequest::Batch(reqs) };
    let resp = v.exec(batch);
    let total = resp.cache_control();
    let items: Vec<&async_graphql::Response> = match &resp {
        BatchResponse::Single(r) => vec![r],
        BatchResponse::Batch(rs) => rs.iter().collect(),
    };
    let mut out = vec![];
    for r in items {
        if !r.errors.is_empty() {
            dist.hit("rejected");
            if std::env::var("AGV_DEBUG").is_ok() {
                eprintln!("{:?}", r.errors.iter().map(|e| e.message.clone()).collect::<Vec<_>>());
            }
            out.push(node("rejected", vec![]));
        } else {
            dist.hit(if r.cache_control.public { "policy_public" } else { "policy_private" });
            dist.hit(match r.cache_control.max_age {
                -1 => "policy_no_cache",
                0 => "policy_no_max_age",
                _ => "policy_max_age",
            });
            out.push(cc_sexp("cc", &r.cache_control));
        }
    }
    out.push(cc_sexp("batch", &total));
    node("out", out)
}

fn main() {
    main_loop(&mut gen_case, &mut run);
}
