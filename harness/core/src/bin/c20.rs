//! C20 — the response cache policy is never looser than the data it contains.
//!
//! Case:   (case TAG SCHEMA HINTS (req DOC OPNAME VARS TEXT) …)
//!   TAG     schema variant: "v0".."v3" = the same type graph with different cache hints;
//!           "zoo" = one schema using every way of DECLARING a hint (see `mod zoo`)
//!   SCHEMA  description of that schema read back from the real registry (SDL export)
//!   HINTS   (hint TYPE FIELD|none PUBLIC MAXAGE)… — what the harness SOURCE declares, never read
//!           from the registry: v0..v3 from the literals of the macro invocation that also writes
//!           the derive attributes, zoo from the hand-written table `zoo::DECLARED` next to the
//!           declarations;  (partsonly TYPE PUBLIC MAXAGE)… — for a `#[derive(MergedObject)]` that
//!           carries a hint of its own: the combination of the hints of its parts alone
//!   req     one request of the batch (1 request = `BatchRequest::Single`)
//! Output: (out (cc PUBLIC MAXAGE HEADER|none)… (batch PUBLIC MAXAGE HEADER|none)
//!              (stream PUBLIC MAXAGE HEADER|none) (reg (hint TYPE FIELD|none PUBLIC MAXAGE)…))
//!   one `cc` per response (`Response.cache_control`, or `(rejected)` if the request was refused),
//!   `batch` = `BatchResponse::cache_control()`, `stream` = the policy of the first response of
//!   `Schema::execute_stream` for the first request, `reg` = every non-default hint the derive
//!   macros REGISTERED (Registry built by `create_type_info` of the roots; object and interface
//!   types, their fields), in the order of the declared table, unknown entries last.

#![allow(dead_code)]

#[path = "../family.rs"]
mod family;

use agvh::*;
use async_graphql::registry::{MetaType, Registry};
use async_graphql::{BatchRequest, BatchResponse, CacheControl, EmptyMutation, EmptySubscription, Interface, Object, OutputType, Schema, Union};
use futures_util::StreamExt;
use family::{DocN, GV, SchemaD, SelN, gen_request_b, print_doc, vars_from_sexp, vars_sexp};

/// (type, field or "", public, max_age as stored in the registry)
type HintRow = (&'static str, &'static str, bool, i32);

trait Variant {
    fn sdl(&self) -> String;
    /// the hints DECLARED in this file
    fn hints(&self) -> Vec<HintRow>;
    /// merged objects with a hint of their own: (type, public, max_age) of their parts alone
    fn parts_only(&self) -> Vec<(&'static str, bool, i32)> {
        vec![]
    }
    /// the non-default hints the derive macros registered: (type, field or "", public, max_age)
    fn registered(&self) -> Vec<(String, String, bool, i32)>;
    fn exec(&self, b: BatchRequest) -> BatchResponse;
    /// first response of `Schema::execute_stream`
    fn exec_stream(&self, r: async_graphql::Request) -> Option<async_graphql::Response>;
}

/// every non-default hint in the registry the derive-generated `create_type_info` of the roots builds
fn registry_hints<Q: OutputType, M: OutputType>() -> Vec<(String, String, bool, i32)> {
    let mut reg = Registry::default();
    Q::create_type_info(&mut reg);
    M::create_type_info(&mut reg);
    let dflt = CacheControl::default();
    let mut out = vec![];
    for (name, t) in &reg.types {
        if name.starts_with("__") {
            continue;
        }
        let fields = match t {
            MetaType::Object { fields, cache_control, .. } => {
                if *cache_control != dflt {
                    out.push((name.clone(), String::new(), cache_control.public, cache_control.max_age));
                }
                fields
            }
            MetaType::Interface { fields, .. } => fields,
            _ => continue,
        };
        for (fname, f) in fields {
            if f.cache_control != dflt {
                out.push((name.clone(), fname.clone(), f.cache_control.public, f.cache_control.max_age));
            }
        }
    }
    out
}

/// One schema variant.  Every `(max_age, private, no_cache)` triple is written once and goes both
/// into the derive attribute and into the hint table shipped with the case.
macro_rules! variant {
    ($m:ident;
     Query = ($qm:literal, $qp:literal, $qn:literal), A = ($am:literal, $ap:literal, $an:literal),
     B = ($bm:literal, $bp:literal, $bn:literal), C = ($cm:literal, $cp:literal, $cn:literal);
     Query.a = ($qam:literal, $qap:literal, $qan:literal), Query.i = ($qim:literal, $qip:literal, $qin:literal),
     Query.u = ($qum:literal, $qup:literal, $qun:literal), Query.n = ($qnm:literal, $qnp:literal, $qnn:literal),
     A.x = ($axm:literal, $axp:literal, $axn:literal), A.y = ($aym:literal, $ayp:literal, $ayn:literal),
     A.b = ($abm:literal, $abp:literal, $abn:literal),
     B.x = ($bxm:literal, $bxp:literal, $bxn:literal), B.z = ($bzm:literal, $bzp:literal, $bzn:literal),
     C.y = ($cym:literal, $cyp:literal, $cyn:literal), C.w = ($cwm:literal, $cwp:literal, $cwn:literal)) => {
        mod $m {
            use super::*;
            pub struct A;
            pub struct B;
            pub struct C;

            #[derive(Interface)]
            #[graphql(field(name = "x", ty = "i64"))]
            pub enum I {
                A(A),
                B(B),
            }
            #[derive(Union)]
            pub enum U {
                A(A),
                C(C),
            }

            #[Object(cache_control(max_age = $am, private = $ap, no_cache = $an))]
            impl A {
                #[graphql(cache_control(max_age = $axm, private = $axp, no_cache = $axn))]
                async fn x(&self) -> i64 { 1 }
                #[graphql(cache_control(max_age = $aym, private = $ayp, no_cache = $ayn))]
                async fn y(&self) -> Option<String> { Some("a".into()) }
                #[graphql(cache_control(max_age = $abm, private = $abp, no_cache = $abn))]
                async fn b(&self) -> Option<B> { Some(B) }
                async fn i(&self) -> Option<I> { Some(I::B(B)) }
                async fn us(&self) -> Vec<U> { vec![U::C(C)] }
            }
            #[Object(cache_control(max_age = $bm, private = $bp, no_cache = $bn))]
            impl B {
                #[graphql(cache_control(max_age = $bxm, private = $bxp, no_cache = $bxn))]
                async fn x(&self) -> i64 { 2 }
                #[graphql(cache_control(max_age = $bzm, private = $bzp, no_cache = $bzn))]
                async fn z(&self) -> i64 { 3 }
                async fn u(&self) -> Option<U> { Some(U::A(A)) }
                async fn c(&self) -> Option<C> { Some(C) }
            }
            #[Object(cache_control(max_age = $cm, private = $cp, no_cache = $cn))]
            impl C {
                #[graphql(cache_control(max_age = $cym, private = $cyp, no_cache = $cyn))]
                async fn y(&self) -> Option<String> { None }
                #[graphql(cache_control(max_age = $cwm, private = $cwp, no_cache = $cwn))]
                async fn w(&self) -> i64 { 4 }
                async fn a(&self) -> Option<A> { Some(A) }
                async fn is(&self) -> Vec<I> { vec![I::A(A), I::B(B)] }
            }
            pub struct Query;
            #[Object(cache_control(max_age = $qm, private = $qp, no_cache = $qn))]
            impl Query {
                #[graphql(cache_control(max_age = $qam, private = $qap, no_cache = $qan))]
                async fn a(&self) -> Option<A> { Some(A) }
                async fn b(&self) -> Option<B> { Some(B) }
                async fn c(&self) -> Option<C> { Some(C) }
                #[graphql(cache_control(max_age = $qim, private = $qip, no_cache = $qin))]
                async fn i(&self) -> Option<I> { Some(I::A(A)) }
                async fn is(&self) -> Vec<I> { vec![I::B(B), I::A(A)] }
                #[graphql(cache_control(max_age = $qum, private = $qup, no_cache = $qun))]
                async fn u(&self) -> Option<U> { Some(U::C(C)) }
                async fn us(&self) -> Vec<U> { vec![U::A(A), U::C(C)] }
                #[graphql(cache_control(max_age = $qnm, private = $qnp, no_cache = $qnn))]
                async fn n(&self) -> i64 { 0 }
            }

            pub struct V(pub Schema<Query, EmptyMutation, EmptySubscription>);
            pub fn build() -> V {
                V(Schema::build(Query, EmptyMutation, EmptySubscription).finish())
            }
            fn row(t: &'static str, f: &'static str, m: usize, p: bool, n: bool) -> HintRow {
                // the derive macro's own conversion (derive/src/object.rs): `usize as i32`, -1 for no_cache
                (t, f, !p, if n { -1 } else { m as i32 })
            }
            impl Variant for V {
                fn sdl(&self) -> String { self.0.sdl() }
                fn exec(&self, b: BatchRequest) -> BatchResponse { spin_on(self.0.execute_batch(b)) }
                fn exec_stream(&self, r: async_graphql::Request) -> Option<async_graphql::Response> {
                    let mut s = self.0.execute_stream(r);
                    spin_on(s.next())
                }
                fn registered(&self) -> Vec<(String, String, bool, i32)> { registry_hints::<Query, EmptyMutation>() }
                fn hints(&self) -> Vec<HintRow> {
                    vec![
                        row("Query", "", $qm, $qp, $qn), row("A", "", $am, $ap, $an),
                        row("B", "", $bm, $bp, $bn), row("C", "", $cm, $cp, $cn),
                        row("Query", "a", $qam, $qap, $qan), row("Query", "i", $qim, $qip, $qin),
                        row("Query", "u", $qum, $qup, $qun), row("Query", "n", $qnm, $qnp, $qnn),
                        row("A", "x", $axm, $axp, $axn), row("A", "y", $aym, $ayp, $ayn),
                        row("A", "b", $abm, $abp, $abn),
                        row("B", "x", $bxm, $bxp, $bxn), row("B", "z", $bzm, $bzp, $bzn),
                        row("C", "y", $cym, $cyp, $cyn), row("C", "w", $cwm, $cwp, $cwn),
                    ]
                }
            }
        }
    };
}

// v0: nothing at the root; A private, B short-lived, C no-cache field: everything interesting sits
//     behind the interface I = {A, B} and the union U = {A, C}
variant!(v0;
    Query = (0, false, false), A = (0, true, false), B = (10, false, false), C = (300, false, false);
    Query.a = (0, false, false), Query.i = (0, false, false), Query.u = (0, false, false), Query.n = (0, false, false),
    A.x = (0, false, false), A.y = (40, false, false), A.b = (0, false, false),
    B.x = (5, false, false), B.z = (0, false, false),
    C.y = (0, false, false), C.w = (0, false, true));
// v1: hints everywhere, root has a max-age
variant!(v1;
    Query = (600, false, false), A = (120, false, false), B = (60, true, false), C = (30, false, false);
    Query.a = (90, false, false), Query.i = (0, true, false), Query.u = (45, false, false), Query.n = (1, false, false),
    A.x = (7, false, false), A.y = (0, false, true), A.b = (200, false, false),
    B.x = (0, true, false), B.z = (2147483647, false, false),
    C.y = (15, true, false), C.w = (3, false, false));
// v2: only field hints on the objects behind abstract types
variant!(v2;
    Query = (0, false, false), A = (0, false, false), B = (0, false, false), C = (0, false, false);
    Query.a = (0, false, false), Query.i = (50, false, false), Query.u = (0, false, false), Query.n = (0, false, true),
    A.x = (20, true, false), A.y = (0, false, false), A.b = (0, false, false),
    B.x = (0, false, true), B.z = (9, false, false),
    C.y = (0, false, false), C.w = (8, true, false));
// v3: no-cache object, private root
variant!(v3;
    Query = (1000, true, false), A = (0, false, true), B = (0, false, false), C = (77, false, false);
    Query.a = (0, false, false), Query.i = (0, false, false), Query.u = (500, false, false), Query.n = (0, false, false),
    A.x = (0, false, false), A.y = (0, false, false), A.b = (11, false, false),
    B.x = (13, false, false), B.z = (0, false, false),
    C.y = (0, false, false), C.w = (0, false, false));

/// The declaration zoo: one schema in which a cache hint is declared in every way the derive
/// macros offer.  `DECLARED` below is written BY HAND from the attributes in this module (the
/// registry is never consulted for it): the expected hint of every type and field.
///
///   `#[Object(cache_control(..))]` + method hints            Oa, P1, Query, Mutation (mutation root)
///   `#[derive(SimpleObject)]` + field hints                  So, P2, P3
///   SimpleObject + `#[ComplexObject]`, hints on both halves  Sc
///   generic SimpleObject, two concrete instantiations each   Gs<T> = GsOa / GsInt, Lv<T> = LvInt / LvSo
///   generic `#[Object]`, two concrete instantiations         Go<T> = GoInt / GoSo
///   `#[derive(MergedObject)]` of hinted parts                Mo (own hint private), Mp (no own hint),
///                                                            Mq (own max_age below its parts')
///   `#[derive(Interface)]` over hinted SimpleObjects         Zi = {So, Sc}, Zj = {GsOa, GsInt}
///   `#[derive(Union)]` over hinted types                     Zu = {Oa, Sc, GoInt}, Zv = {GsInt, Mo, LvInt, GoSo}
/// `#[Subscription]` takes no cache_control attribute and the dynamic schema API has no cache
/// hints at all (every `cache_control:` in src/dynamic is `Default::default()`), so neither has
/// a declaration to compare.
mod zoo {
    use super::*;
    use async_graphql::{ComplexObject, MergedObject, SimpleObject};

    pub struct Oa;
    #[Object(cache_control(max_age = 50))]
    impl Oa {
        #[graphql(cache_control(max_age = 7))]
        async fn x(&self) -> i64 { 1 }
        #[graphql(cache_control(private))]
        async fn p(&self) -> i64 { 2 }
        async fn n(&self) -> i64 { 3 }
        async fn so(&self) -> So { so() }
        #[graphql(cache_control(max_age = 45))]
        async fn zus(&self) -> Vec<Zu> { vec![Zu::Sc(sc()), Zu::GoInt(Go(4))] }
    }

    #[derive(SimpleObject)]
    #[graphql(cache_control(max_age = 40))]
    pub struct So {
        #[graphql(cache_control(max_age = 12))]
        x: i64,
        #[graphql(cache_control(no_cache))]
        live: i64,
        y: Option<String>,
    }
    fn so() -> So { So { x: 10, live: 11, y: None } }

    #[derive(SimpleObject)]
    #[graphql(complex, cache_control(max_age = 35))]
    pub struct Sc {
        #[graphql(cache_control(max_age = 9))]
        x: i64,
        w: i64,
    }
    #[ComplexObject]
    impl Sc {
        #[graphql(cache_control(private, max_age = 4))]
        async fn c(&self) -> i64 { 5 }
        async fn oa(&self) -> Oa { Oa }
        #[graphql(cache_control(max_age = 3))]
        async fn zi(&self) -> Zi { Zi::So(so()) }
    }
    fn sc() -> Sc { Sc { x: 20, w: 21 } }

    #[derive(SimpleObject)]
    #[graphql(concrete(name = "GsOa", params(Oa)), concrete(name = "GsInt", params(i64)), cache_control(private, max_age = 20))]
    pub struct Gs<T: OutputType> {
        #[graphql(cache_control(max_age = 5))]
        item: T,
        x: i64,
    }

    #[derive(SimpleObject)]
    #[graphql(concrete(name = "LvInt", params(i64)), concrete(name = "LvSo", params(So)), cache_control(no_cache))]
    pub struct Lv<T: OutputType> {
        #[graphql(cache_control(max_age = 5))]
        cur: T,
        k: i64,
    }

    pub struct Go<T>(T);
    #[Object(concrete(name = "GoInt", params(i64)), concrete(name = "GoSo", params(So)), cache_control(max_age = 25))]
    impl<T: OutputType> Go<T> {
        #[graphql(cache_control(max_age = 2))]
        async fn val(&self) -> &T { &self.0 }
        async fn n(&self) -> i64 { 6 }
    }

    pub struct P1;
    #[Object(cache_control(max_age = 70))]
    impl P1 {
        #[graphql(cache_control(max_age = 30))]
        async fn p1x(&self) -> i64 { 7 }
        async fn p1oa(&self) -> Oa { Oa }
    }
    #[derive(SimpleObject)]
    #[graphql(cache_control(max_age = 80))]
    pub struct P2 {
        #[graphql(cache_control(max_age = 6))]
        p2y: i64,
        p2n: i64,
    }
    #[derive(SimpleObject)]
    #[graphql(cache_control(max_age = 60))]
    pub struct P3 {
        p3z: i64,
    }
    fn p2() -> P2 { P2 { p2y: 8, p2n: 9 } }

    /// own hint `private`, parts max_age 70 and 80: an `Mo` object is private with max-age 70
    #[derive(MergedObject)]
    #[graphql(cache_control(private))]
    pub struct Mo(P1, P2);
    /// no hint of its own: the combination of its parts (max_age 80 and 60)
    #[derive(MergedObject)]
    pub struct Mp(P2, P3);
    /// own max_age 10 below the parts' (70 and 60)
    #[derive(MergedObject)]
    #[graphql(cache_control(max_age = 10))]
    pub struct Mq(P1, P3);

    #[derive(Interface)]
    #[graphql(field(name = "x", ty = "&i64"))]
    pub enum Zi {
        So(So),
        Sc(Sc),
    }
    #[derive(Interface)]
    #[graphql(field(name = "x", ty = "&i64"))]
    pub enum Zj {
        GsOa(Gs<Oa>),
        GsInt(Gs<i64>),
    }
    #[derive(Union)]
    pub enum Zu {
        Oa(Oa),
        Sc(Sc),
        GoInt(Go<i64>),
    }
    #[derive(Union)]
    pub enum Zv {
        GsInt(Gs<i64>),
        Mo(Mo),
        LvInt(Lv<i64>),
        GoSo(Go<So>),
    }

    pub struct Query;
    #[Object(cache_control(max_age = 900))]
    impl Query {
        #[graphql(cache_control(max_age = 300))]
        async fn oa(&self) -> Oa { Oa }
        #[graphql(cache_control(private))]
        async fn so(&self) -> Option<So> { Some(so()) }
        async fn sc(&self) -> Sc { sc() }
        async fn gsoa(&self) -> Gs<Oa> { Gs { item: Oa, x: 30 } }
        #[graphql(cache_control(max_age = 33))]
        async fn gsint(&self) -> Gs<i64> { Gs { item: 31, x: 32 } }
        async fn lvint(&self) -> Lv<i64> { Lv { cur: 33, k: 34 } }
        async fn lvso(&self) -> Option<Lv<So>> { Some(Lv { cur: so(), k: 35 }) }
        async fn goint(&self) -> Go<i64> { Go(36) }
        async fn goso(&self) -> Go<So> { Go(so()) }
        async fn mo(&self) -> Mo { Mo(P1, p2()) }
        async fn mp(&self) -> Mp { Mp(p2(), P3 { p3z: 37 }) }
        async fn mq(&self) -> Option<Mq> { Some(Mq(P1, P3 { p3z: 38 })) }
        #[graphql(cache_control(max_age = 100))]
        async fn zi(&self) -> Zi { Zi::Sc(sc()) }
        async fn zis(&self) -> Vec<Zi> { vec![Zi::Sc(sc()), Zi::So(so())] }
        async fn zj(&self) -> Option<Zj> { Some(Zj::GsOa(Gs { item: Oa, x: 39 })) }
        async fn zu(&self) -> Option<Zu> { Some(Zu::Sc(sc())) }
        async fn zus(&self) -> Vec<Zu> { vec![Zu::GoInt(Go(42)), Zu::Oa(Oa)] }
        async fn zv(&self) -> Vec<Zv> { vec![Zv::LvInt(Lv { cur: 40, k: 41 }), Zv::Mo(Mo(P1, p2())), Zv::GoSo(Go(so())), Zv::GsInt(Gs { item: 47, x: 48 })] }
        async fn n(&self) -> i64 { 0 }
    }

    pub struct Mutation;
    #[Object(cache_control(private, max_age = 15))]
    impl Mutation {
        async fn set(&self) -> Oa { Oa }
        #[graphql(cache_control(no_cache))]
        async fn bump(&self) -> i64 { 43 }
        async fn mo(&self) -> Mo { Mo(P1, p2()) }
        #[graphql(cache_control(max_age = 8))]
        async fn zv(&self) -> Zv { Zv::GsInt(Gs { item: 44, x: 45 }) }
        async fn n(&self) -> i64 { 46 }
    }

    const PUB: bool = true;
    const PRIV: bool = false;
    /// `no_cache` is stored as max_age -1
    const NO_CACHE: i32 = -1;

    /// THE DECLARED TABLE — hand-written from the attributes above: (type, field or "", public,
    /// max_age).  Every object type is listed, then every field with a hint.  A merged object
    /// carries the combination of its own hint and its parts' hints (its data is their data), and
    /// its fields carry the hints of the parts' fields.
    pub const DECLARED: &[HintRow] = &[
        ("Query", "", PUB, 900),
        ("Mutation", "", PRIV, 15),
        ("Oa", "", PUB, 50),
        ("So", "", PUB, 40),
        ("Sc", "", PUB, 35),
        ("GsOa", "", PRIV, 20),
        ("GsInt", "", PRIV, 20),
        ("LvInt", "", PUB, NO_CACHE),
        ("LvSo", "", PUB, NO_CACHE),
        ("GoInt", "", PUB, 25),
        ("GoSo", "", PUB, 25),
        ("Mo", "", PRIV, 70),
        ("Mp", "", PUB, 60),
        ("Mq", "", PUB, 10),
        ("Query", "oa", PUB, 300),
        ("Query", "so", PRIV, 0),
        ("Query", "gsint", PUB, 33),
        ("Query", "zi", PUB, 100),
        ("Mutation", "bump", PUB, NO_CACHE),
        ("Mutation", "zv", PUB, 8),
        ("Oa", "x", PUB, 7),
        ("Oa", "p", PRIV, 0),
        ("Oa", "zus", PUB, 45),
        ("So", "x", PUB, 12),
        ("So", "live", PUB, NO_CACHE),
        ("Sc", "x", PUB, 9),
        ("Sc", "c", PRIV, 4),
        ("Sc", "zi", PUB, 3),
        ("GsOa", "item", PUB, 5),
        ("GsInt", "item", PUB, 5),
        ("LvInt", "cur", PUB, 5),
        ("LvSo", "cur", PUB, 5),
        ("GoInt", "val", PUB, 2),
        ("GoSo", "val", PUB, 2),
        ("Mo", "p1x", PUB, 30),
        ("Mo", "p2y", PUB, 6),
        ("Mp", "p2y", PUB, 6),
        ("Mq", "p1x", PUB, 30),
    ];
    /// merged objects with a hint of their own: the combination of their parts' hints alone
    pub const PARTS_ONLY: &[(&str, bool, i32)] = &[("Mo", PUB, 70), ("Mq", PUB, 60)];

    pub struct V(pub Schema<Query, Mutation, EmptySubscription>);
    pub fn build() -> V {
        V(Schema::build(Query, Mutation, EmptySubscription).finish())
    }
    impl Variant for V {
        fn sdl(&self) -> String { self.0.sdl() }
        fn hints(&self) -> Vec<HintRow> { DECLARED.to_vec() }
        fn parts_only(&self) -> Vec<(&'static str, bool, i32)> { PARTS_ONLY.to_vec() }
        fn registered(&self) -> Vec<(String, String, bool, i32)> { registry_hints::<Query, Mutation>() }
        fn exec(&self, b: BatchRequest) -> BatchResponse { spin_on(self.0.execute_batch(b)) }
        fn exec_stream(&self, r: async_graphql::Request) -> Option<async_graphql::Response> {
            let mut s = self.0.execute_stream(r);
            spin_on(s.next())
        }
    }
}

const TAGS: [&str; 5] = ["v0", "v1", "v2", "v3", "zoo"];

fn variant(tag: &str) -> Box<dyn Variant> {
    match tag {
        "v0" => Box::new(v0::build()),
        "v1" => Box::new(v1::build()),
        "v2" => Box::new(v2::build()),
        "v3" => Box::new(v3::build()),
        "zoo" => Box::new(zoo::build()),
        t => panic!("unknown schema variant {t}"),
    }
}

fn hint_sexp(t: &str, f: &str, p: bool, m: i32) -> Sexp {
    node("hint", vec![st(t), if f.is_empty() { atom("none") } else { st(f) }, atom(if p { "true" } else { "false" }), num(m)])
}

fn hints_sexp(h: &[HintRow], parts: &[(&'static str, bool, i32)]) -> Sexp {
    let mut xs: Vec<Sexp> = h.iter().map(|(t, f, p, m)| hint_sexp(t, f, *p, *m)).collect();
    for (t, p, m) in parts {
        xs.push(node("partsonly", vec![st(*t), atom(if *p { "true" } else { "false" }), num(*m)]));
    }
    list(xs)
}

fn rename_spreads(ss: &mut [SelN], pre: &str) {
    for s in ss {
        match s {
            SelN::Field { sels, .. } => rename_spreads(sels, pre),
            SelN::Inline { sels, .. } => rename_spreads(sels, pre),
            SelN::Spread { name, .. } => *name = format!("{pre}{name}"),
        }
    }
}

fn gen_req(sd: &SchemaD, rng: &mut Rng, dist: &mut Dist) -> Sexp {
    // a schema with a mutation root: one request in five is a mutation
    fn op_ty(sd: &SchemaD, rng: &mut Rng, dist: &mut Dist) -> &'static str {
        if sd.mutation.is_some() && rng.chance(1, 5) {
            dist.hit("op_mutation");
            "mutation"
        } else {
            "query"
        }
    }
    // small requests too: private and no-cache are absorbing, large selections all end there
    fn size(rng: &mut Rng) -> (usize, usize) {
        *rng.pick(&[(2, 1), (4, 2), (7, 2), (14, 3)])
    }
    let ty1 = op_ty(sd, rng, dist);
    let (budget, depth) = size(rng);
    let (mut doc, vars): (DocN, Vec<(String, GV)>) = gen_request_b(sd, rng, dist, ty1, true, budget, depth);
    let mut opname = doc.ops[0].name.clone();
    if rng.chance(1, 6) {
        // a second operation in the same document (never executed, but the validator walks it)
        let ty2 = op_ty(sd, rng, dist);
        let (budget, depth) = size(rng);
        let (mut d2, _) = gen_request_b(sd, rng, dist, ty2, true, budget, depth);
        rename_spreads(&mut d2.ops[0].sels, "G");
        for f in &mut d2.frags {
            rename_spreads(&mut f.sels, "G");
            f.name = format!("G{}", f.name);
        }
        doc.ops[0].name = Some("Op".into());
        opname = Some("Op".into());
        d2.ops[0].name = Some("Other".into());
        doc.ops.push(d2.ops.remove(0));
        doc.frags.append(&mut d2.frags);
        dist.hit("doc_second_operation");
    }
    let text = print_doc(&mut doc);
    node("req", vec![doc.to_sexp(), opname.map(st).unwrap_or(atom("none")), vars_sexp(&vars), st(text)])
}

fn fld(name: &str, sels: Vec<SelN>) -> SelN {
    SelN::Field { alias: None, name: name.into(), args: vec![], dirs: vec![], sels, pos: (0, 0) }
}
fn spread(name: &str) -> SelN {
    SelN::Spread { name: name.into(), dirs: vec![], pos: (0, 0) }
}
fn inline(cond: Option<&str>, sels: Vec<SelN>) -> SelN {
    SelN::Inline { cond: cond.map(|c| c.to_string()), dirs: vec![], sels, pos: (0, 0) }
}
fn frag(name: &str, cond: &str, sels: Vec<SelN>) -> family::FragN {
    family::FragN { name: name.into(), cond: cond.into(), sels }
}

/// hand-written cases that open every stream: (variant, requests as (selections, fragments))
fn fixed() -> Vec<(&'static str, Vec<(Vec<SelN>, Vec<family::FragN>)>)> {
    let f0 = |n: &str| fld(n, vec![]);
    let q = |sels: Vec<SelN>| vec![(sels, vec![])];
    vec![
        // a private object (A) and a short-lived one (B) behind an interface-typed field
        ("v0", vec![(vec![fld("i", vec![fld("x", vec![])])], vec![])]),
        // hints below a named fragment on a concrete type spread inside a union-typed selection
        ("v2", vec![(vec![fld("u", vec![spread("F")])], vec![frag("F", "C", vec![fld("a", vec![fld("x", vec![])])])])]),
        // selections on object types only: the policy is exactly the combination
        ("v1", vec![(vec![fld("a", vec![fld("x", vec![]), fld("y", vec![])]), fld("n", vec![])], vec![])]),
        ("v1", vec![(vec![fld("__typename", vec![])], vec![])]),
        ("v3", vec![(vec![fld("b", vec![fld("z", vec![]), fld("c", vec![fld("w", vec![])])])], vec![])]),
        // union member with a no-cache field, reached through a list
        ("v0", vec![(vec![fld("us", vec![inline(Some("C"), vec![fld("w", vec![])])])], vec![])]),
        // interface-typed list, fragment on the interface itself
        ("v1", vec![(vec![fld("is", vec![spread("F")])], vec![frag("F", "I", vec![fld("x", vec![])])])]),
        // named fragment on an object spread inside an interface-typed selection
        ("v2", vec![(vec![fld("i", vec![spread("F")])], vec![frag("F", "A", vec![fld("x", vec![])])])]),
        // a batch: the batch policy combines the items
        (
            "v3",
            vec![
                (vec![fld("n", vec![])], vec![]),
                (vec![fld("b", vec![fld("x", vec![])])], vec![]),
                (vec![fld("c", vec![fld("w", vec![])])], vec![]),
            ],
        ),
        ("v0", vec![(vec![fld("b", vec![fld("z", vec![])])], vec![]), (vec![fld("c", vec![fld("w", vec![])])], vec![])]),
        // ---- the declaration zoo, one declaration form per case (all selections on object types:
        //      the policy must be exactly the combination of the DECLARED hints)
        // concrete instantiations of a generic SimpleObject (object-level hint private, 20)
        ("zoo", q(vec![fld("gsoa", vec![f0("x")])])),
        ("zoo", q(vec![fld("gsint", vec![f0("item")])])),
        ("zoo", q(vec![fld("gsoa", vec![fld("item", vec![f0("n")])])])),
        // ... and of a no_cache one
        ("zoo", q(vec![fld("lvint", vec![f0("k")])])),
        ("zoo", q(vec![fld("lvso", vec![fld("cur", vec![f0("y")])])])),
        // concrete instantiations of a generic #[Object]
        ("zoo", q(vec![fld("goint", vec![f0("n")]), fld("goso", vec![fld("val", vec![f0("x")])])])),
        // SimpleObject + ComplexObject: a hint on each half
        ("zoo", q(vec![fld("sc", vec![f0("w")])])),
        ("zoo", q(vec![fld("sc", vec![f0("x"), f0("c")])])),
        // merged objects: own hint private / none / a max_age below the parts'
        ("zoo", q(vec![fld("mo", vec![f0("p2n")])])),
        ("zoo", q(vec![fld("mp", vec![f0("p2y")])])),
        ("zoo", q(vec![fld("mq", vec![f0("p1x")])])),
        // derived interface / union over those types
        ("zoo", q(vec![fld("zi", vec![f0("x")])])),
        ("zoo", q(vec![fld("zus", vec![inline(Some("GoInt"), vec![f0("val")]), inline(Some("Oa"), vec![f0("p")])])])),
        ("zoo", q(vec![fld("zv", vec![inline(Some("GsInt"), vec![f0("item")]), inline(Some("Mo"), vec![f0("p1x")])])])),
        ("zoo", q(vec![fld("zj", vec![f0("x"), inline(Some("GsOa"), vec![fld("item", vec![f0("x")])])])])),
        ("zoo", q(vec![fld("so", vec![f0("live")]), f0("n")])),
        // a batch over the zoo
        ("zoo", vec![(vec![f0("n")], vec![]), (vec![fld("goint", vec![f0("val")])], vec![]), (vec![fld("mp", vec![f0("p3z")])], vec![])]),
    ]
}

/// hand-written mutation cases of the zoo (hints on the mutation root and its fields)
fn fixed_mutations() -> Vec<Vec<SelN>> {
    vec![
        vec![fld("n", vec![])],
        vec![fld("bump", vec![])],
        vec![fld("set", vec![fld("x", vec![])]), fld("mo", vec![fld("p2y", vec![])])],
        vec![fld("zv", vec![inline(Some("GsInt"), vec![fld("x", vec![])]), fld("__typename", vec![])])],
    ]
}

fn gen_case(rng: &mut Rng, i: usize, _o: &Opts, dist: &mut Dist) -> Sexp {
    thread_local! {
        static SDS: Vec<(SchemaD, Sexp)> = TAGS.iter().map(|t| { let v = variant(t); (SchemaD::from_sdl(&v.sdl()), hints_sexp(&v.hints(), &v.parts_only())) }).collect();
    }
    SDS.with(|sds| {
        let fx = fixed();
        let fm = fixed_mutations();
        if i < fx.len() + fm.len() {
            let (tag, reqs): (&str, Vec<(&str, Vec<SelN>, Vec<family::FragN>)>) = if i < fx.len() {
                (fx[i].0, fx[i].1.iter().map(|(s, f)| ("query", s.clone(), f.clone())).collect())
            } else {
                ("zoo", vec![("mutation", fm[i - fx.len()].clone(), vec![])])
            };
            let k = TAGS.iter().position(|t| *t == tag).unwrap();
            let (sd, hints) = &sds[k];
            dist.hit("fixed_case");
            let mut xs = vec![st(tag), sd.to_sexp(), hints.clone()];
            for (ty, sels, frags) in reqs {
                let mut doc = DocN { ops: vec![family::OpN { ty: ty.into(), name: None, vars: vec![], sels }], frags };
                let text = print_doc(&mut doc);
                xs.push(node("req", vec![doc.to_sexp(), atom("none"), vars_sexp(&[]), st(text)]));
            }
            return node("case", xs);
        }
        // the zoo gets half of the cases, v0..v3 share the rest
        let k = if rng.chance(1, 2) { TAGS.len() - 1 } else { rng.below(TAGS.len() - 1) };
        let (sd, hints) = &sds[k];
        dist.hit(&format!("schema_{}", TAGS[k]));
        let nreq = match rng.below(10) {
            0 => 2,
            1 => 3,
            _ => 1,
        };
        dist.hit(&format!("batch_{nreq}"));
        let mut xs = vec![st(TAGS[k]), sd.to_sexp(), hints.clone()];
        for _ in 0..nreq {
            xs.push(gen_req(sd, rng, dist));
        }
        node("case", xs)
    })
}

fn cc_sexp(tag: &str, c: &CacheControl) -> Sexp {
    node(
        tag,
        vec![atom(if c.public { "true" } else { "false" }), num(c.max_age), c.value().map(st).unwrap_or(atom("none"))],
    )
}

fn run(case: &Sexp, dist: &mut Dist) -> Sexp {
    let a = case.args();
    let v = variant(a[0].as_str().expect("tag"));
    let mut reqs = vec![];
    for r in &a[3..] {
        let ra = r.args();
        let vars = vars_from_sexp(&ra[2]);
        let mut req = async_graphql::Request::new(ra[3].as_str().expect("text"));
        if let Some(n) = ra[1].as_str() {
            req = req.operation_name(n);
        }
        let mut vs = async_graphql::Variables::default();
        for (k, val) in &vars {
            vs.insert(async_graphql::Name::new(k), val.to_avalue());
        }
        reqs.push(req.variables(vs));
    }
    let first = reqs.first().map(|r| {
        let mut q = async_graphql::Request::new(r.query.clone()).variables(r.variables.clone());
        q.operation_name = r.operation_name.clone();
        q
    });
    let batch = if reqs.len() == 1 { BatchRequest::Single(reqs.pop().unwrap()) } else { BatchRequest::Batch(reqs) };
    let resp = v.exec(batch);
    let total = resp.cache_control();
    let items: Vec<&async_graphql::Response> = match &resp {
        BatchResponse::Single(r) => vec![r],
        BatchResponse::Batch(rs) => rs.iter().collect(),
    };
    let mut out = vec![];
    for r in items {
        if !r.errors.is_empty() {
            dist.hit("rejected");
            if std::env::var("AGV_DEBUG").is_ok() {
                eprintln!("{:?}", r.errors.iter().map(|e| e.message.clone()).collect::<Vec<_>>());
            }
            out.push(node("rejected", vec![]));
        } else {
            dist.hit(if r.cache_control.public { "policy_public" } else { "policy_private" });
            dist.hit(match r.cache_control.max_age {
                -1 => "policy_no_cache",
                0 => "policy_no_max_age",
                _ => "policy_max_age",
            });
            out.push(cc_sexp("cc", &r.cache_control));
        }
    }
    out.push(cc_sexp("batch", &total));
    // the same policy must come out of the streaming entry point (first request of the case)
    match first.and_then(|r| v.exec_stream(r)) {
        Some(r) if r.errors.is_empty() => out.push(cc_sexp("stream", &r.cache_control)),
        _ => out.push(node("rejected", vec![])),
    }
    // what the derive macros registered, in the order of the declared table (unknown entries last)
    let declared: Vec<(String, String)> = a[2]
        .as_list()
        .unwrap_or(&[])
        .iter()
        .filter(|h| h.tag() == Some("hint"))
        .map(|h| {
            let ha = h.args();
            (ha[0].as_str().unwrap_or("").to_string(), ha[1].as_str().unwrap_or("").to_string())
        })
        .collect();
    // `create_type_info` also leaves the parts of merged objects in a bare registry (the schema
    // builder drops them as unused): keep the types of the schema (= of its SDL export)
    let in_schema: Vec<&str> = a[1].args().get(3).and_then(|t| t.as_list()).unwrap_or(&[]).iter().filter_map(|t| t.args().first()?.as_str()).collect();
    let mut reg = v.registered();
    reg.retain(|(t, _, _, _)| in_schema.contains(&t.as_str()));
    reg.sort_by_key(|(t, f, _, _)| (declared.iter().position(|(dt, df)| dt == t && df == f).unwrap_or(usize::MAX), t.clone(), f.clone()));
    for (t, f, p, m) in &reg {
        if declared.iter().any(|(dt, df)| dt == t && df == f) {
            dist.hit("registered_hint_declared");
        } else {
            dist.hit("registered_hint_undeclared");
        }
        let _ = (p, m);
    }
    out.push(node("reg", reg.iter().map(|(t, f, p, m)| hint_sexp(t, f, *p, *m)).collect()));
    node("out", out)
}

fn main() {
    main_loop(&mut gen_case, &mut run);
}
