//! C26 — multipart/mixed subscription bodies are well framed.
//!
//! Case    (mp OFFER…)     OFFER = (resp "json") | (tick) | (fin) | (both "json") | (bothfin)
//!   The real `create_multipart_mixed_stream` is driven by hand: its input is a stream fed from a
//!   queue, its `Timer` hands out futures that complete when the harness says so, and the stream
//!   is polled with a no-op waker.  For every offer the harness makes the named source(s) ready and
//!   polls the stream until it is pending (or finished), so the interleaving is exactly the case
//!   line; `both`/`bothfin` make two sources ready for the same poll (the `select!` race).
//!   "json" is the serde_json text of a `Response`; the Response fed to the stream is decoded from
//!   it (the generator only emits texts that are fixpoints of decode∘encode).
//! Output  (body "text" (delays N) (dur ok|bad) (done B) (order r|t|f …))      see Drive/C26.lean

use std::{
    collections::VecDeque,
    future::Future,
    pin::Pin,
    sync::{
        Arc, Mutex,
        atomic::{AtomicUsize, Ordering},
    },
    task::{Context, Poll},
    time::Duration,
};

use agvh::*;
use async_graphql::{Response, http::create_multipart_mixed_stream, runtime::Timer};
use futures_util::{Stream, StreamExt, future::BoxFuture};

// ------------------------------------------------------------------ controllable environment

#[derive(Default)]
struct Env {
    /// Some(resp) = an item, None = end of stream; empty = pending
    queue: Mutex<VecDeque<Option<Response>>>,
    /// number of timer firings not yet consumed
    ticks: AtomicUsize,
    delays: AtomicUsize,
    bad_duration: AtomicUsize,
    order: Mutex<Vec<&'static str>>,
}

struct Input(Arc<Env>);

impl Stream for Input {
    type Item = Response;
    fn poll_next(self: Pin<&mut Self>, _cx: &mut Context<'_>) -> Poll<Option<Response>> {
        match self.0.queue.lock().unwrap().pop_front() {
            Some(Some(r)) => {
                self.0.order.lock().unwrap().push("r");
                Poll::Ready(Some(r))
            }
            Some(None) => {
                self.0.order.lock().unwrap().push("f");
                Poll::Ready(None)
            }
            None => Poll::Pending,
        }
    }
}

struct ManualTimer(Arc<Env>, Duration);

struct Delay(Arc<Env>);

impl Future for Delay {
    type Output = ();
    fn poll(self: Pin<&mut Self>, _cx: &mut Context<'_>) -> Poll<()> {
        let n = self.0.ticks.load(Ordering::SeqCst);
        if n > 0 {
            self.0.ticks.store(n - 1, Ordering::SeqCst);
            self.0.order.lock().unwrap().push("t");
            Poll::Ready(())
        } else {
            Poll::Pending
        }
    }
}

impl Timer for ManualTimer {
    fn delay(&self, duration: Duration) -> BoxFuture<'static, ()> {
        self.0.delays.fetch_add(1, Ordering::SeqCst);
        if duration != self.1 {
            self.0.bad_duration.fetch_add(1, Ordering::SeqCst);
        }
        Box::pin(Delay(self.0.clone()))
    }
}

fn run(case: &Sexp, dist: &mut Dist) -> Sexp {
    assert_eq!(case.tag(), Some("mp"), "bad case");
    let env = Arc::new(Env::default());
    let interval = Duration::from_millis(7321);
    let mut stream = create_multipart_mixed_stream(Input(env.clone()), ManualTimer(env.clone(), interval), interval);
    let waker = futures_util::task::noop_waker();
    let mut cx = Context::from_waker(&waker);
    let mut bytes: Vec<u8> = vec![];
    let mut done = false;
    let mut chunks = 0u64;
    let decode = |s: &Sexp| -> Response {
        serde_json::from_str::<Response>(s.as_str().expect("payload")).expect("payload is not a Response")
    };
    // the stream is lazy: nothing happens before the first poll
    let mut pump = |stream: &mut futures_util::stream::BoxStream<'_, bytes::Bytes>, done: &mut bool| {
        let mut guard = 0;
        while !*done {
            match stream.poll_next_unpin(&mut cx) {
                Poll::Ready(Some(b)) => {
                    chunks += 1;
                    bytes.extend_from_slice(&b)
                }
                Poll::Ready(None) => *done = true,
                Poll::Pending => break,
            }
            guard += 1;
            assert!(guard < 10_000, "stream does not settle");
        }
    };
    pump(&mut stream, &mut done);
    for offer in case.args() {
        if done {
            break;
        }
        match offer.tag() {
            Some("resp") => env.queue.lock().unwrap().push_back(Some(decode(&offer.args()[0]))),
            Some("tick") => {
                env.ticks.fetch_add(1, Ordering::SeqCst);
            }
            Some("fin") => env.queue.lock().unwrap().push_back(None),
            Some("both") => {
                env.queue.lock().unwrap().push_back(Some(decode(&offer.args()[0])));
                env.ticks.fetch_add(1, Ordering::SeqCst);
            }
            Some("bothfin") => {
                env.queue.lock().unwrap().push_back(None);
                env.ticks.fetch_add(1, Ordering::SeqCst);
            }
            _ => panic!("bad offer"),
        }
        let seen = env.order.lock().unwrap().len();
        pump(&mut stream, &mut done);
        if matches!(offer.tag(), Some("both") | Some("bothfin")) {
            let ord = env.order.lock().unwrap();
            dist.hit(&format!("race_{}_{}", offer.tag().unwrap(), ord[seen..].join("")));
        }
    }
    drop(stream);
    dist.add("chunks", chunks);
    let text = match String::from_utf8(bytes) {
        Ok(t) => st(t),
        Err(_) => atom("not-utf8"),
    };
    let order: Vec<Sexp> = env.order.lock().unwrap().iter().map(|s| atom(*s)).collect();
    node(
        "body",
        vec![
            text,
            node("delays", vec![num(env.delays.load(Ordering::SeqCst))]),
            node("dur", vec![atom(if env.bad_duration.load(Ordering::SeqCst) == 0 { "ok" } else { "bad" })]),
            node("done", vec![atom(if done { "true" } else { "false" })]),
            node("order", order),
        ],
    )
}

// ------------------------------------------------------------------ generator

const STRINGS: [&str; 16] = [
    "",
    "a",
    "hello world",
    "\r\n--graphql--\r\n",
    "\r\n--graphql\r\nContent-Type: application/json\r\n\r\n{}",
    "--graphql",
    "\n--graphql--",
    "\r",
    "line1\r\nline2",
    "\"quoted\" \\ back",
    "é ☃ \u{1F600}",
    "\u{0}\u{1}\u{1f}\u{7f}",
    "\u{2028}\u{2029}",
    "{}",
    "tab\tsep",
    "Content-Type: application/json",
];

fn gen_string(rng: &mut Rng, dist: &mut Dist) -> String {
    let s = *rng.pick(&STRINGS);
    if s.contains('\r') || s.contains('\n') {
        dist.hit("string_with_line_break");
    }
    if rng.chance(1, 4) {
        format!("{}{}", s, rng.pick(&STRINGS))
    } else {
        s.to_string()
    }
}

fn gen_json(rng: &mut Rng, depth: usize, dist: &mut Dist) -> serde_json::Value {
    use serde_json::Value as J;
    let k = rng.below(if depth == 0 { 6 } else { 9 });
    match k {
        0 => J::Null,
        1 => J::Bool(rng.chance(1, 2)),
        2 => J::from(rng.range(-1000, 1000)),
        3 => J::from(*rng.pick(&[0.5f64, -1.25, 1e21, 3.0])),
        4 | 5 => J::String(gen_string(rng, dist)),
        6 => J::Array((0..rng.below(4)).map(|_| gen_json(rng, depth - 1, dist)).collect()),
        _ => {
            let mut m = serde_json::Map::new();
            for _ in 0..rng.below(4) {
                let key = if rng.chance(1, 5) { gen_string(rng, dist) } else { format!("f{}", rng.below(5)) };
                m.insert(key, gen_json(rng, depth - 1, dist));
            }
            J::Object(m)
        }
    }
}

fn gen_payload(rng: &mut Rng, dist: &mut Dist) -> String {
    use serde_json::{Value as J, json};
    let mut m = serde_json::Map::new();
    let shape = rng.below(10);
    if shape < 8 {
        m.insert("data".into(), gen_json(rng, 3, dist));
    }
    if shape >= 6 {
        dist.hit("payload_with_errors");
        let errs: Vec<J> = (0..1 + rng.below(2))
            .map(|_| {
                let mut e = serde_json::Map::new();
                e.insert("message".into(), J::String(gen_string(rng, dist)));
                if rng.chance(1, 2) {
                    e.insert("locations".into(), json!([{"line": rng.range(1, 9), "column": rng.range(1, 40)}]));
                }
                if rng.chance(1, 2) {
                    e.insert("path".into(), json!([gen_string(rng, dist), rng.range(0, 3)]));
                }
                if rng.chance(1, 3) {
                    e.insert("extensions".into(), json!({ "code": gen_string(rng, dist) }));
                }
                J::Object(e)
            })
            .collect();
        m.insert("errors".into(), J::Array(errs));
    }
    if rng.chance(1, 5) {
        dist.hit("payload_with_extensions");
        m.insert("extensions".into(), json!({ gen_string(rng, dist): gen_json(rng, 2, dist) }));
    }
    // canonical text = what serde_json writes for the decoded Response (iterate to a fixpoint)
    let mut text = J::Object(m).to_string();
    for _ in 0..3 {
        let r: Response = match serde_json::from_str(&text) {
            Ok(r) => r,
            Err(_) => {
                dist.hit("payload_fallback");
                return "{\"data\":null}".into();
            }
        };
        let t2 = serde_json::to_string(&r).unwrap();
        if t2 == text {
            return text;
        }
        text = t2;
    }
    dist.hit("payload_fallback");
    "{\"data\":null}".into()
}

/// all sequences over {resp, tick} of length 0..=6, each once ended by `fin` and once left open
fn exhaustive(i: usize) -> Option<(Vec<bool>, bool)> {
    let mut idx = i;
    for len in 0..=6usize {
        let count = (1usize << len) * 2;
        if idx < count {
            let fin = idx % 2 == 0;
            let bits = idx / 2;
            return Some(((0..len).map(|k| bits >> k & 1 == 1).collect(), fin));
        }
        idx -= count;
    }
    None
}

fn gen_case(rng: &mut Rng, i: usize, o: &Opts, dist: &mut Dist) -> Sexp {
    let mut offers = vec![];
    let resp = |rng: &mut Rng, dist: &mut Dist, tag: &str| node(tag, vec![st(gen_payload(rng, dist))]);
    if let Some((seq, fin)) = exhaustive(i) {
        dist.hit("exhaustive_le6");
        for is_resp in seq {
            if is_resp {
                offers.push(resp(rng, dist, "resp"));
            } else {
                offers.push(node("tick", vec![]));
            }
        }
        if fin {
            offers.push(node("fin", vec![]));
        }
        return node("mp", offers);
    }
    dist.hit("random");
    let max_len = if o.tier == "thorough" { 40 } else { 14 };
    let len = match i % 3 {
        0 => rng.range(0, 4),
        1 => rng.range(3, 9),
        _ => rng.range(7, max_len),
    };
    let p_tick = *rng.pick(&[10usize, 35, 60, 90]);
    let races = rng.chance(1, 2);
    for _ in 0..len {
        let w = rng.below(100);
        if races && w < 20 {
            dist.hit("offer_both");
            offers.push(resp(rng, dist, "both"));
        } else if rng.below(100) < p_tick {
            dist.hit("offer_tick");
            offers.push(node("tick", vec![]));
        } else {
            dist.hit("offer_resp");
            offers.push(resp(rng, dist, "resp"));
        }
    }
    match rng.below(10) {
        0 | 1 => dist.hit("left_open"),
        2 | 3 if races => {
            dist.hit("offer_bothfin");
            offers.push(node("bothfin", vec![]))
        }
        _ => {
            dist.hit("offer_fin");
            offers.push(node("fin", vec![]))
        }
    }
    node("mp", offers)
}

fn main() {
    main_loop(&mut gen_case, &mut run);
}
