//! C14 — reported source positions are exact line and column numbers.
//!
//! Case kinds
//!   (doc TEXT (o1 o2 …) (NAMES…))   parse_query(TEXT); every `Positioned<_>.pos` of the tree in the
//!                            order the parser assigns them; oi = char offset of the token the
//!                            i-th position refers to (known to the generator)
//!   (synerr TEXT o)          TEXT has an illegal character at char offset o (token boundary)
//!   (valerr TEXT o)          executing TEXT gives a validation error located at offset o
//!   (execerr TEXT o)         executing TEXT gives a resolver error located at offset o
//! Output
//!   (ok (l c) (l c) …) | (err l c) | (errs (l c) …) | (reject MSG)

use agvh::*;
use async_graphql::{EmptyMutation, EmptySubscription, Object, Schema};
use async_graphql_parser::{
    Pos, Positioned, parse_query,
    types::{
        Directive, DocumentOperations, ExecutableDocument, Field, Selection, SelectionSet, TypeCondition,
        VariableDefinition,
    },
};
use async_graphql_value::{ConstValue, Name, Value};

// ------------------------------------------------------------------ generator

struct B<'a> {
    text: String,
    nchars: usize,
    offs: Vec<usize>,
    rng: &'a mut Rng,
    dist: &'a mut Dist,
    uniq: usize,
}

const TERMS: [&str; 3] = ["\n", "\r\n", "\r"];

impl<'a> B<'a> {
    fn raw(&mut self, s: &str) {
        self.text.push_str(s);
        self.nchars += s.chars().count();
    }
    /// mark: the next token starts a node that carries a position
    fn mark(&mut self) {
        self.offs.push(self.nchars);
    }
    fn ws_piece(&mut self) {
        let k = self.rng.below(14);
        match k {
            0..=3 => self.raw(" "),
            4 => {
                self.dist.hit("sep_lf");
                self.raw("\n")
            }
            5 => {
                self.dist.hit("sep_crlf");
                self.raw("\r\n")
            }
            6 | 7 => {
                self.dist.hit("sep_cr");
                self.raw("\r")
            }
            8 => self.raw("\t"),
            9 => self.raw(","),
            10 => {
                self.dist.hit("sep_bom");
                self.raw("\u{feff}")
            }
            _ => {
                self.dist.hit("sep_comment");
                let body: [&str; 6] = ["# c", "#", "#é", "# \u{1F600} x", "#\t\"q\"", "# a,b"];
                let b = *self.rng.pick(&body);
                self.raw(b);
                let t = *self.rng.pick(&TERMS);
                self.raw(t);
            }
        }
    }
    /// separator that may be empty
    fn s0(&mut self) {
        let n = [0, 0, 1, 1, 2, 3][self.rng.below(6)];
        for _ in 0..n {
            self.ws_piece();
        }
    }
    /// non-empty separator
    fn s1(&mut self) {
        let n = 1 + [0, 0, 1, 2][self.rng.below(4)];
        for _ in 0..n {
            self.ws_piece();
        }
    }
    /// whitespace only (no comment): required inside `type_condition`
    fn ws_only(&mut self) {
        let n = 1 + self.rng.below(3);
        for _ in 0..n {
            let p: [&str; 7] = [" ", "\n", "\r\n", "\r", "\t", ",", "\u{feff}"];
            let s = *self.rng.pick(&p);
            self.raw(s);
        }
    }
    fn name(&mut self, prefix: &str) -> String {
        self.uniq += 1;
        format!("{}{}", prefix, self.uniq)
    }
    fn tok(&mut self, s: &str) {
        self.raw(s);
    }

    fn value(&mut self, depth: usize, constant: bool) {
        // only an outermost value is a `Positioned` node of the tree (position of its first token)
        self.mark();
        self.inner_value(depth, constant)
    }

    fn inner_value(&mut self, depth: usize, constant: bool) {
        let k = self.rng.below(if depth == 0 { 7 } else { 9 });
        match k {
            0 if !constant => {
                self.tok("$");
                self.s0();
                let n = self.name("v");
                self.tok(&n);
            }
            0 | 1 => {
                let nums = ["0", "-1", "42", "3.5", "1e3", "-0.5E-2"];
                let n = *self.rng.pick(&nums);
                self.tok(n)
            }
            2 => {
                self.dist.hit("string_value");
                let ss = ["\"\"", "\"a b\"", "\"é\u{1F600}\"", "\"\\n\\u00e9\"", "\"#no comment\""];
                let s = *self.rng.pick(&ss);
                self.tok(s)
            }
            3 => {
                self.dist.hit("block_string");
                let ss = [
                    "\"\"\"x\"\"\"",
                    "\"\"\"\n  a\n  b\n\"\"\"",
                    "\"\"\"a\r\nb\"\"\"",
                    "\"\"\"a\rb\r\"\"\"",
                    "\"\"\"é\n\u{1F600}\"\"\"",
                ];
                let s = *self.rng.pick(&ss);
                self.tok(s)
            }
            4 => {
                let b = *self.rng.pick(&["true", "false"]);
                self.tok(b)
            }
            5 => self.tok("null"),
            6 => {
                let n = self.name("E");
                self.tok(&n)
            }
            7 => {
                self.tok("[");
                let n = self.rng.below(3);
                for _ in 0..n {
                    self.s0();
                    self.inner_value(depth - 1, constant);
                    self.s1();
                }
                self.s0();
                self.tok("]");
            }
            _ => {
                self.tok("{");
                let n = self.rng.below(3);
                for _ in 0..n {
                    self.s0();
                        let k = self.name("k");
                    self.tok(&k);
                    self.s0();
                    self.tok(":");
                    self.s0();
                    self.inner_value(depth - 1, constant);
                    self.s1();
                }
                self.s0();
                self.tok("}");
            }
        }
    }

    fn arguments(&mut self, constant: bool) {
        self.tok("(");
        let n = 1 + self.rng.below(2);
        for _ in 0..n {
            self.s0();
            self.mark();
            let a = self.name("a");
            self.tok(&a);
            self.s0();
            self.tok(":");
            self.s0();
            self.value(2, constant);
            self.s1();
        }
        self.s0();
        self.tok(")");
    }

    fn directives(&mut self) {
        let n = [0, 0, 0, 1, 2][self.rng.below(5)];
        for _ in 0..n {
            self.s0();
            self.mark();
            self.dist.hit("directive");
            self.tok("@");
            self.s0();
            self.mark();
            let d = self.name("d");
            self.tok(&d);
            if self.rng.chance(1, 2) {
                self.s0();
                self.arguments(false);
            }
        }
    }

    fn type_condition(&mut self) {
        self.mark();
        self.tok("on");
        self.ws_only();
        self.mark();
        let t = self.name("T");
        self.tok(&t);
    }

    fn selection_set(&mut self, depth: usize) {
        self.mark();
        self.tok("{");
        let n = 1 + self.rng.below(3);
        for _ in 0..n {
            self.s0();
            self.selection(depth);
            self.s1();
        }
        self.s0();
        self.tok("}");
    }

    fn selection(&mut self, depth: usize) {
        self.mark(); // Positioned<Selection>
        let k = self.rng.below(if depth == 0 { 6 } else { 10 });
        if k < 6 || depth == 0 {
            // field
            self.dist.hit("field");
            self.mark();
            if self.rng.chance(1, 3) {
                self.mark();
                let a = self.name("al");
                self.tok(&a);
                self.s0();
                self.tok(":");
                self.s0();
            }
            self.mark();
            let f = self.name("f");
            self.tok(&f);
            if self.rng.chance(1, 3) {
                self.s0();
                self.arguments(false);
            }
            self.directives();
            if depth > 0 && self.rng.chance(1, 2) {
                self.s0();
                self.selection_set(depth - 1);
            }
        } else if k < 8 {
            self.dist.hit("spread");
            self.mark();
            self.tok("...");
            self.s0();
            self.mark();
            let f = self.name("Fr");
            self.tok(&f);
            self.directives();
        } else {
            self.dist.hit("inline");
            self.mark();
            self.tok("...");
            self.s0();
            if self.rng.chance(2, 3) {
                self.type_condition();
            }
            self.directives();
            self.s0();
            self.selection_set(depth - 1);
        }
    }

    fn operation(&mut self, idx: usize, shorthand: bool) {
        self.mark(); // operation_definition
        if shorthand {
            self.selection_set(3);
            return;
        }
        let ty = *self.rng.pick(&["query", "mutation", "subscription"]);
        self.tok(ty);
        self.s1();
        self.tok(&format!("Op{idx}"));
        if self.rng.chance(1, 2) {
            self.s0();
            self.tok("(");
            let n = 1 + self.rng.below(2);
            for _ in 0..n {
                self.s0();
                self.mark(); // variable_definition
                self.dist.hit("vardef");
                self.tok("$");
                self.s0();
                self.mark();
                let v = self.name("v");
                self.tok(&v);
                self.s0();
                self.tok(":");
                self.s0();
                self.mark();
                let t = *self.rng.pick(&["Int", "[Int!]!", "String!", "[[X]]"]);
                self.tok(t);
                self.directives();
                if self.rng.chance(1, 2) {
                    self.s0();
                    self.tok("=");
                    self.s0();
                    self.value(2, true);
                }
                self.s1();
            }
            self.s0();
            self.tok(")");
        }
        self.directives();
        self.s0();
        self.selection_set(3);
    }

    fn fragment(&mut self, idx: usize) {
        self.mark();
        self.tok("fragment");
        self.s1();
        self.tok(&format!("Fd{idx}"));
        self.s1();
        self.type_condition();
        self.directives();
        self.s0();
        self.selection_set(2);
    }
}

fn gen_doc(rng: &mut Rng, dist: &mut Dist) -> (String, Vec<usize>, Vec<String>) {
    let mut b = B { text: String::new(), nchars: 0, offs: vec![], rng, dist, uniq: 0 };
    b.s0();
    let nops = 1 + b.rng.below(2);
    let nfr = b.rng.below(3);
    let shorthand = nops == 1 && b.rng.chance(1, 3);
    // definitions in a random order; the walker looks them up by name, so record per-definition offsets
    let mut order: Vec<(bool, usize)> = (0..nops).map(|i| (true, i)).chain((0..nfr).map(|i| (false, i))).collect();
    b.rng.shuffle(&mut order);
    // the walker visits the definitions in document order, looking them up by name
    let mut names = vec![];
    for (is_op, i) in order {
        if is_op {
            b.operation(i, shorthand);
            names.push(format!("Op{i}"));
        } else {
            b.fragment(i);
            names.push(format!("Fd{i}"));
        }
        b.s1();
    }
    (b.text, b.offs, names)
}

// ------------------------------------------------------------------ AST walk (same order as the parser assigns positions)

struct W(Vec<Pos>);

impl W {
    fn p(&mut self, p: Pos) {
        self.0.push(p)
    }
    fn name(&mut self, n: &Positioned<Name>) {
        self.p(n.pos)
    }
    fn const_value(&mut self, v: &Positioned<ConstValue>) {
        self.p(v.pos);
    }
    fn value(&mut self, v: &Positioned<Value>) {
        self.p(v.pos);
    }
    fn directives(&mut self, ds: &[Positioned<Directive>]) {
        for d in ds {
            self.p(d.pos);
            self.name(&d.node.name);
            for (n, v) in &d.node.arguments {
                self.name(n);
                self.value(v);
            }
        }
    }
    fn type_condition(&mut self, t: &Positioned<TypeCondition>) {
        self.p(t.pos);
        self.name(&t.node.on);
    }
    fn selection_set(&mut self, s: &Positioned<SelectionSet>) {
        self.p(s.pos);
        for sel in &s.node.items {
            self.p(sel.pos);
            match &sel.node {
                Selection::Field(f) => self.field(f),
                Selection::FragmentSpread(fs) => {
                    self.p(fs.pos);
                    self.name(&fs.node.fragment_name);
                    self.directives(&fs.node.directives);
                }
                Selection::InlineFragment(f) => {
                    self.p(f.pos);
                    if let Some(tc) = &f.node.type_condition {
                        self.type_condition(tc);
                    }
                    self.directives(&f.node.directives);
                    self.selection_set(&f.node.selection_set);
                }
            }
        }
    }
    fn field(&mut self, f: &Positioned<Field>) {
        self.p(f.pos);
        if let Some(a) = &f.node.alias {
            self.name(a);
        }
        self.name(&f.node.name);
        for (n, v) in &f.node.arguments {
            self.name(n);
            self.value(v);
        }
        self.directives(&f.node.directives);
        // an absent selection set is `Positioned::default()`: nothing to report
        if !f.node.selection_set.node.items.is_empty() {
            self.selection_set(&f.node.selection_set);
        }
    }
    fn vardef(&mut self, v: &Positioned<VariableDefinition>) {
        self.p(v.pos);
        self.name(&v.node.name);
        self.p(v.node.var_type.pos);
        self.directives(&v.node.directives);
        if let Some(d) = &v.node.default_value {
            self.const_value(d);
        }
    }
}

fn walk(doc: &ExecutableDocument, names: &[String]) -> Vec<Pos> {
    let mut w = W(vec![]);
    for n in names {
        if n.starts_with("Op") {
            let op = match &doc.operations {
                DocumentOperations::Single(op) => op,
                DocumentOperations::Multiple(m) => m.get(n.as_str()).expect("operation by name"),
            };
            w.p(op.pos);
            for v in &op.node.variable_definitions {
                w.vardef(v);
            }
            w.directives(&op.node.directives);
            w.selection_set(&op.node.selection_set);
        } else {
            let f = doc.fragments.get(n.as_str()).expect("fragment by name");
            w.p(f.pos);
            w.type_condition(&f.node.type_condition);
            w.directives(&f.node.directives);
            w.selection_set(&f.node.selection_set);
        }
    }
    w.0
}

// ------------------------------------------------------------------ schema for validation / execution error positions

struct Obj;
#[Object]
impl Obj {
    async fn ok(&self) -> i32 {
        1
    }
    async fn fail(&self) -> async_graphql::Result<i32> {
        Err("boom".into())
    }
    async fn obj(&self) -> Obj {
        Obj
    }
}
struct Query;
#[Object]
impl Query {
    async fn ok(&self) -> i32 {
        1
    }
    async fn fail(&self) -> async_graphql::Result<Option<i32>> {
        Err("boom".into())
    }
    async fn obj(&self) -> Obj {
        Obj
    }
}

/// `{ obj { obj { X } } }` with random ignored text before every token; X is `nope` (validation
/// error) or `fail` (execution error); returns the text and the char offset of X.
fn gen_errdoc(rng: &mut Rng, dist: &mut Dist, field: &str) -> (String, usize) {
    let mut b = B { text: String::new(), nchars: 0, offs: vec![], rng, dist, uniq: 0 };
    b.s0();
    b.tok("{");
    let depth = b.rng.below(3);
    for _ in 0..depth {
        b.s0();
        if b.rng.chance(1, 2) {
            b.tok("ok");
            b.s1();
        }
        b.tok("obj");
        b.s0();
        b.tok("{");
    }
    b.s0();
    b.mark();
    b.tok(field);
    b.s1();
    if b.rng.chance(1, 2) {
        b.tok("ok");
    }
    for _ in 0..=depth {
        b.s0();
        b.tok("}");
    }
    b.s0();
    (b.text, b.offs[0])
}

fn gen_case(rng: &mut Rng, _i: usize, _o: &Opts, dist: &mut Dist) -> Sexp {
    let k = rng.below(10);
    match k {
        0 => {
            dist.hit("kind_synerr");
            // a valid document cut at a token boundary, then an illegal character
            let (text, offs, _) = gen_doc(rng, &mut Dist::default());
            let cut = *rng.pick(&offs);
            let mut t: String = text.chars().take(cut).collect();
            t.push(*rng.pick(&['%', '^', '~', '?', '\u{e9}']));
            node("synerr", vec![st(t), num(cut)])
        }
        1 => {
            dist.hit("kind_valerr");
            let (t, o) = gen_errdoc(rng, dist, "nope");
            node("valerr", vec![st(t), num(o)])
        }
        2 => {
            dist.hit("kind_execerr");
            let (t, o) = gen_errdoc(rng, dist, "fail");
            node("execerr", vec![st(t), num(o)])
        }
        _ => {
            dist.hit("kind_doc");
            let (text, offs, names) = gen_doc(rng, dist);
            dist.add("positions", offs.len() as u64);
            node("doc", vec![st(text), list(offs.into_iter().map(num).collect()), list(names.into_iter().map(st).collect())])
        }
    }
}

fn pos_sexp(p: Pos) -> Sexp {
    list(vec![num(p.line), num(p.column)])
}

fn run(case: &Sexp, _dist: &mut Dist) -> Sexp {
    let a = case.args();
    let text = a[0].as_str().unwrap();
    match case.tag().unwrap() {
        "doc" => {
            let names: Vec<String> = a[2].as_list().unwrap().iter().map(|x| x.as_str().unwrap().to_string()).collect();
            match parse_query(text) {
                Ok(doc) => {
                    let ps = walk(&doc, &names);
                    node("ok", ps.into_iter().map(pos_sexp).collect())
                }
                Err(e) => node("reject", vec![st(e.to_string())]),
            }
        }
        "synerr" => match parse_query(text) {
            Ok(_) => node("accepted", vec![]),
            Err(e) => {
                let ps: Vec<Pos> = e.positions().collect();
                node("errs", ps.into_iter().take(1).map(pos_sexp).collect())
            }
        },
        "valerr" | "execerr" => {
            let schema = Schema::new(Query, EmptyMutation, EmptySubscription);
            let resp = spin_on(schema.execute(text));
            let mut ps = vec![];
            for e in &resp.errors {
                for l in &e.locations {
                    ps.push(pos_sexp(*l));
                }
            }
            node("errs", ps)
        }
        t => panic!("unknown case kind {t}"),
    }
}

fn main() {
    main_loop(&mut gen_case, &mut run);
}
