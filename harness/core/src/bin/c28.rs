//! C28 — DataLoader delivers correct batched results under every interleaving.
//!
//! The real `DataLoader` is driven by a deterministic executor that lives in this file:
//!   * the `Spawn` implementation only collects the spawned futures (task i = i-th spawn);
//!   * the `Timer` implementation hands out futures that become ready when the schedule says so;
//!   * the `Loader` implementation logs the key set it receives and then waits on a gate, so
//!     that "the loader answers batch i with …" is an explicit action of the schedule;
//!   * every future is polled by hand with a no-op waker, only when the schedule says so.
//!
//! Case
//!   (c28 (max M) (delay D) (cache none|map) (feed (k v)…) (acts A…))
//! Actions (a no-op when not applicable — the model defines the same)
//!   (load r k…)            create `load_many([k…])` as request r and poll it once
//!   (run i)                first poll of spawned task i
//!   (fire i)               the timer task i waits on elapses; task i is polled
//!   (done i (okall B))     the loader call of task i returns {k ↦ B+k | k requested}; task i polled
//!   (done i (ok (k v)…) (extra (k v)…))   … returns the listed pairs restricted to the requested
//!                          keys plus the `extra` pairs unconditionally
//!   (done i (err E))       … fails with error E
//!   (cancel r)             drop the future of request r
//!   (enall 0|1)            enable_all_cache      (entype 0|1)   enable_cache::<K>
//!   (feed (k v)…)          feed_many             (clear)        clear::<K>
//!   (drain)                run every unstarted task, fire every timer, answer every batch (okall 1000)
//! After every action all live request futures are polled (in creation order).
//! Output: one event list per action, then cache content, waiting requests, number of tasks
//!   (out ((call i k…) (timer i D) (ok r (k v)…) (err r E) …)… (cache (k v)…) (wait r…) (tasks n))
//! Keys in `call` are sorted; `(dup i)` is emitted if the slice handed to the loader repeats a key.

use std::{
    collections::{BTreeMap, HashMap},
    future::Future,
    pin::Pin,
    sync::{
        Arc, Mutex,
        atomic::{AtomicBool, AtomicUsize, Ordering},
    },
    task::{Context, Poll},
    time::Duration,
};

use agvh::*;
use async_graphql::dataloader::{CacheFactory, DataLoader, HashMapCache, Loader};
use futures_util::task::{FutureObj, Spawn, SpawnError};

type Res = Result<HashMap<u32, u32>, u32>;
type BoxFut<T> = Pin<Box<dyn Future<Output = T> + Send>>;

#[derive(Clone, Debug)]
enum Resp {
    OkAll(u32),
    Ok(Vec<(u32, u32)>, Vec<(u32, u32)>),
    Err(u32),
}

#[derive(Default)]
struct Sh {
    cur: AtomicUsize,
    tasks: Mutex<Vec<Option<BoxFut<()>>>>,
    timers: Mutex<BTreeMap<usize, Arc<AtomicBool>>>,
    gates: Mutex<BTreeMap<usize, Arc<Mutex<Option<Resp>>>>>,
    events: Mutex<Vec<Sexp>>,
}

struct Sp(Arc<Sh>);
impl Spawn for Sp {
    fn spawn_obj(&self, future: FutureObj<'static, ()>) -> Result<(), SpawnError> {
        self.0.tasks.lock().unwrap().push(Some(Box::pin(future)));
        Ok(())
    }
}

struct Tm(Arc<Sh>);
struct FlagFut(Arc<AtomicBool>);
impl Future for FlagFut {
    type Output = ();
    fn poll(self: Pin<&mut Self>, _: &mut Context<'_>) -> Poll<()> {
        if self.0.load(Ordering::SeqCst) { Poll::Ready(()) } else { Poll::Pending }
    }
}
impl async_graphql::runtime::Timer for Tm {
    fn delay(&self, d: Duration) -> futures_util::future::BoxFuture<'static, ()> {
        let tid = self.0.cur.load(Ordering::SeqCst);
        let flag = Arc::new(AtomicBool::new(false));
        self.0.timers.lock().unwrap().insert(tid, flag.clone());
        self.0.events.lock().unwrap().push(node("timer", vec![num(tid), num(d.as_millis())]));
        Box::pin(FlagFut(flag))
    }
}

struct GL(Arc<Sh>);
struct GateFut(Arc<Mutex<Option<Resp>>>);
impl Future for GateFut {
    type Output = Resp;
    fn poll(self: Pin<&mut Self>, _: &mut Context<'_>) -> Poll<Resp> {
        match self.0.lock().unwrap().clone() {
            Some(r) => Poll::Ready(r),
            None => Poll::Pending,
        }
    }
}
impl Loader<u32> for GL {
    type Value = u32;
    type Error = u32;
    async fn load(&self, keys: &[u32]) -> Result<HashMap<u32, u32>, u32> {
        let tid = self.0.cur.load(Ordering::SeqCst);
        let mut ks = keys.to_vec();
        ks.sort();
        let mut ev = vec![num(tid)];
        ev.extend(ks.iter().map(num));
        let mut evs = vec![node("call", ev)];
        if ks.windows(2).any(|w| w[0] == w[1]) {
            evs.push(node("dup", vec![num(tid)]));
        }
        self.0.events.lock().unwrap().extend(evs);
        let gate = Arc::new(Mutex::new(None));
        self.0.gates.lock().unwrap().insert(tid, gate.clone());
        match GateFut(gate).await {
            Resp::OkAll(b) => Ok(ks.iter().map(|k| (*k, b + *k)).collect()),
            Resp::Ok(pairs, extra) => {
                let mut m: HashMap<u32, u32> = HashMap::new();
                for (k, v) in pairs {
                    if ks.contains(&k) {
                        m.insert(k, v);
                    }
                }
                for (k, v) in extra {
                    m.insert(k, v);
                }
                Ok(m)
            }
            Resp::Err(e) => Err(e),
        }
    }
}

/// the operations of `DataLoader<GL, C>` the schedule uses, independent of the cache factory
trait Dl: Send + Sync {
    fn load(self: Arc<Self>, keys: Vec<u32>) -> BoxFut<Res>;
    fn feed(&self, kv: Vec<(u32, u32)>);
    fn clear(&self);
    fn enall(&self, b: bool);
    fn entype(&self, b: bool);
    fn cached(&self) -> Vec<(u32, u32)>;
}
impl<C: CacheFactory> Dl for DataLoader<GL, C> {
    fn load(self: Arc<Self>, keys: Vec<u32>) -> BoxFut<Res> {
        Box::pin(async move { self.load_many(keys).await })
    }
    fn feed(&self, kv: Vec<(u32, u32)>) {
        block_on(self.feed_many(kv))
    }
    fn clear(&self) {
        DataLoader::clear::<u32>(self)
    }
    fn enall(&self, b: bool) {
        self.enable_all_cache(b)
    }
    fn entype(&self, b: bool) {
        block_on(self.enable_cache::<u32>(b))
    }
    fn cached(&self) -> Vec<(u32, u32)> {
        let mut v: Vec<(u32, u32)> = block_on(self.get_cached_values::<u32>()).into_iter().collect();
        v.sort();
        v
    }
}

struct Exec {
    sh: Arc<Sh>,
    dl: Arc<dyn Dl>,
    started: Vec<bool>,
    reqs: Vec<(u32, Option<BoxFut<Res>>)>, // creation order; None = completed or cancelled
    waiting: Vec<u32>,
}

fn poll_once<T>(f: &mut BoxFut<T>) -> Poll<T> {
    let waker = futures_util::task::noop_waker();
    let mut cx = Context::from_waker(&waker);
    f.as_mut().poll(&mut cx)
}

fn pairs(xs: &[Sexp]) -> Vec<(u32, u32)> {
    xs.iter()
        .filter_map(|p| {
            let l = p.as_list()?;
            Some((l.first()?.as_usize()? as u32, l.get(1)?.as_usize()? as u32))
        })
        .collect()
}

impl Exec {
    fn new(max: usize, delay: u64, cache: &str, feed: Vec<(u32, u32)>) -> Exec {
        let sh = Arc::new(Sh::default());
        let dl: Arc<dyn Dl> = match cache {
            "map" => Arc::new(
                DataLoader::with_cache(GL(sh.clone()), Sp(sh.clone()), Tm(sh.clone()), HashMapCache::default())
                    .max_batch_size(max)
                    .delay(Duration::from_millis(delay)),
            ),
            _ => Arc::new(
                DataLoader::new(GL(sh.clone()), Sp(sh.clone()), Tm(sh.clone()))
                    .max_batch_size(max)
                    .delay(Duration::from_millis(delay)),
            ),
        };
        // always issued (possibly empty): creates the per-key-type entry, as `feed_many` does
        dl.feed(feed);
        Exec { sh, dl, started: vec![], reqs: vec![], waiting: vec![] }
    }

    fn ntasks(&self) -> usize {
        self.sh.tasks.lock().unwrap().len()
    }

    fn poll_task(&mut self, i: usize) {
        let f = self.sh.tasks.lock().unwrap().get_mut(i).and_then(|s| s.take());
        if let Some(mut f) = f {
            self.sh.cur.store(i, Ordering::SeqCst);
            let done = poll_once(&mut f).is_ready();
            self.sh.cur.store(usize::MAX, Ordering::SeqCst);
            if !done {
                self.sh.tasks.lock().unwrap()[i] = Some(f);
            }
        }
    }

    fn unstarted(&self) -> Vec<usize> {
        let n = self.ntasks();
        (0..n).filter(|i| !self.started.get(*i).copied().unwrap_or(false)).collect()
    }
    fn timers_waiting(&self) -> Vec<usize> {
        self.sh.timers.lock().unwrap().iter().filter(|(_, f)| !f.load(Ordering::SeqCst)).map(|(i, _)| *i).collect()
    }
    fn inflight(&self) -> Vec<usize> {
        self.sh.gates.lock().unwrap().iter().filter(|(_, g)| g.lock().unwrap().is_none()).map(|(i, _)| *i).collect()
    }

    fn run(&mut self, i: usize) {
        if i < self.ntasks() {
            while self.started.len() <= i {
                self.started.push(false);
            }
            if !self.started[i] {
                self.started[i] = true;
                self.poll_task(i);
            }
        }
    }
    fn fire(&mut self, i: usize) {
        let f = self.sh.timers.lock().unwrap().get(&i).cloned();
        if let Some(f) = f {
            if !f.swap(true, Ordering::SeqCst) {
                self.poll_task(i);
            }
        }
    }
    fn done(&mut self, i: usize, r: Resp) {
        let g = self.sh.gates.lock().unwrap().get(&i).cloned();
        if let Some(g) = g {
            let fresh = {
                let mut s = g.lock().unwrap();
                if s.is_none() {
                    *s = Some(r);
                    true
                } else {
                    false
                }
            };
            if fresh {
                self.poll_task(i);
            }
        }
    }

    fn poll_requests(&mut self) {
        let mut got: Vec<(u32, Sexp)> = vec![];
        for (r, slot) in self.reqs.iter_mut() {
            if let Some(f) = slot {
                if let Poll::Ready(res) = poll_once(f) {
                    *slot = None;
                    self.waiting.retain(|x| x != r);
                    let ev = match res {
                        Ok(m) => {
                            let mut v: Vec<(u32, u32)> = m.into_iter().collect();
                            v.sort();
                            let mut xs = vec![num(*r)];
                            xs.extend(v.iter().map(|(k, v)| list(vec![num(k), num(v)])));
                            node("ok", xs)
                        }
                        Err(e) => node("err", vec![num(*r), num(e)]),
                    };
                    got.push((*r, ev));
                }
            }
        }
        // deliveries of one step are listed by request id
        got.sort_by_key(|x| x.0);
        self.sh.events.lock().unwrap().extend(got.into_iter().map(|x| x.1));
    }

    /// applies one action, returns its event list
    fn apply(&mut self, a: &Sexp) -> Sexp {
        let args = a.args();
        let n0 = |i: usize| args.get(i).and_then(|x| x.as_usize());
        match a.tag().unwrap_or("") {
            "load" => {
                if let Some(r) = n0(0) {
                    let r = r as u32;
                    if !self.reqs.iter().any(|(x, _)| *x == r) {
                        let keys: Vec<u32> = args[1..].iter().filter_map(|k| k.as_usize()).map(|k| k as u32).collect();
                        let f = self.dl.clone().load(keys);
                        self.reqs.push((r, Some(f)));
                        self.waiting.push(r);
                    }
                }
            }
            "run" => {
                if let Some(i) = n0(0) {
                    self.run(i)
                }
            }
            "fire" => {
                if let Some(i) = n0(0) {
                    self.fire(i)
                }
            }
            "done" => {
                if let (Some(i), Some(r)) = (n0(0), args.get(1)) {
                    let resp = match r.tag().unwrap_or("") {
                        "okall" => Resp::OkAll(r.args().first().and_then(|x| x.as_usize()).unwrap_or(0) as u32),
                        "ok" => Resp::Ok(pairs(r.args()), args.get(2).map(|e| pairs(e.args())).unwrap_or_default()),
                        _ => Resp::Err(r.args().first().and_then(|x| x.as_usize()).unwrap_or(0) as u32),
                    };
                    self.done(i, resp)
                }
            }
            "cancel" => {
                if let Some(r) = n0(0) {
                    let r = r as u32;
                    for (x, slot) in self.reqs.iter_mut() {
                        if *x == r {
                            *slot = None;
                        }
                    }
                    self.waiting.retain(|x| *x != r);
                }
            }
            "enall" => self.dl.enall(n0(0).unwrap_or(1) != 0),
            "entype" => self.dl.entype(n0(0).unwrap_or(1) != 0),
            "feed" => self.dl.feed(pairs(args)),
            "clear" => self.dl.clear(),
            "drain" => {
                for i in self.unstarted() {
                    self.run(i)
                }
                for i in self.timers_waiting() {
                    self.fire(i)
                }
                for i in self.inflight() {
                    self.done(i, Resp::OkAll(1000))
                }
            }
            _ => {}
        }
        self.poll_requests();
        list(std::mem::take(&mut *self.sh.events.lock().unwrap()))
    }

    fn finish(&self) -> Vec<Sexp> {
        let c = self.dl.cached();
        vec![
            node("cache", c.iter().map(|(k, v)| list(vec![num(k), num(v)])).collect()),
            node("wait", self.waiting.iter().map(num).collect()),
            node("tasks", vec![num(self.ntasks())]),
        ]
    }
}

fn field<'a>(c: &'a Sexp, name: &str) -> &'a [Sexp] {
    for x in c.args() {
        if x.tag() == Some(name) {
            return x.args();
        }
    }
    &[]
}

fn exec_of(c: &Sexp) -> Exec {
    let max = field(c, "max").first().and_then(|x| x.as_usize()).unwrap_or(1000);
    let delay = field(c, "delay").first().and_then(|x| x.as_usize()).unwrap_or(1) as u64;
    let cache = field(c, "cache").first().and_then(|x| x.as_atom()).unwrap_or("none").to_string();
    Exec::new(max, delay, &cache, pairs(field(c, "feed")))
}

fn run(c: &Sexp, _d: &mut Dist) -> Sexp {
    let mut ex = exec_of(c);
    let mut out = vec![];
    for a in field(c, "acts") {
        out.push(ex.apply(a));
    }
    out.extend(ex.finish());
    node("out", out)
}

// ------------------------------------------------------------------ generator

fn header(max: usize, delay: u64, cache: &str, feed: &[(u32, u32)]) -> Vec<Sexp> {
    vec![
        node("max", vec![num(max)]),
        node("delay", vec![num(delay)]),
        node("cache", vec![atom(cache)]),
        node("feed", feed.iter().map(|(k, v)| list(vec![num(k), num(v)])).collect()),
    ]
}

fn mk_case(hdr: &[Sexp], acts: Vec<Sexp>) -> Sexp {
    let mut v = hdr.to_vec();
    v.push(node("acts", acts));
    node("c28", v)
}

fn load_act(r: u32, ks: &[u32]) -> Sexp {
    let mut v = vec![num(r)];
    v.extend(ks.iter().map(num));
    node("load", v)
}

/// The generators drive the real executor to learn which actions are enabled; a panic of the
/// library there must not take the whole harness down (it would only be reported as a broken
/// tie without a failing input).
fn apply_guarded(ex: &mut Exec, a: &Sexp) -> bool {
    std::panic::catch_unwind(std::panic::AssertUnwindSafe(|| {
        ex.apply(a);
    }))
    .is_ok()
}

/// All complete schedules for the given requests (issued in order) under one configuration:
/// depth-first over the actions the *real* executor state enables (next load / first poll of a
/// spawned task / timer / loader answer), replaying the prefix on a fresh DataLoader each time.
fn enumerate(hdr: &[Sexp], pre: &[Sexp], reqs: &[Vec<u32>], with_err: bool, cap: usize, out: &mut Vec<Sexp>) {
    fn rec(hdr: &[Sexp], reqs: &[Vec<u32>], with_err: bool, cap: usize, acts: &mut Vec<Sexp>, issued: usize, out: &mut Vec<Sexp>) {
        if out.len() >= cap {
            return;
        }
        let case = mk_case(hdr, acts.clone());
        let mut ex = exec_of(&case);
        for a in acts.iter() {
            if !apply_guarded(&mut ex, a) {
                // the real loader panicked while the schedule was being explored: hand the
                // schedule out as a case, `run` reports the panic and the judge names it
                out.push(case);
                return;
            }
        }
        let mut next: Vec<(Sexp, usize)> = vec![];
        if issued < reqs.len() {
            next.push((load_act(issued as u32, &reqs[issued]), issued + 1));
        }
        for i in ex.unstarted() {
            next.push((node("run", vec![num(i)]), issued));
        }
        for i in ex.timers_waiting() {
            next.push((node("fire", vec![num(i)]), issued));
        }
        for i in ex.inflight() {
            next.push((node("done", vec![num(i), node("okall", vec![num(100 * (i + 1))])]), issued));
            if with_err {
                next.push((node("done", vec![num(i), node("err", vec![num(i + 1)])]), issued));
            }
        }
        if next.is_empty() {
            let mut a = acts.clone();
            a.push(node("drain", vec![]));
            out.push(mk_case(hdr, a));
            return;
        }
        for (a, iss) in next {
            acts.push(a);
            rec(hdr, reqs, with_err, cap, acts, iss, out);
            acts.pop();
        }
    }
    let mut acts = pre.to_vec();
    rec(hdr, reqs, with_err, cap, &mut acts, 0, out);
}

const SUBSETS: [&[u32]; 7] = [&[1], &[2], &[3], &[1, 2], &[1, 3], &[2, 3], &[1, 2, 3]];

/// cache modes of the exhaustive part: (factory, initial feed, flag actions issued first)
fn modes() -> Vec<(&'static str, Vec<(u32, u32)>, Vec<Sexp>)> {
    vec![
        ("none", vec![], vec![]),
        ("map", vec![(1, 91)], vec![]),
        ("map", vec![(1, 91)], vec![node("enall", vec![num(0)])]),
        ("map", vec![(1, 91)], vec![node("entype", vec![num(0)])]),
    ]
}

fn exhaustive(tier: &str, rng: &mut Rng, budget: usize) -> Vec<Sexp> {
    let mut all = vec![];
    // two requests: every ordered pair of non-empty key subsets, batch sizes 1..3, all cache modes
    for max in 1..=3usize {
        for (cache, feed, pre) in modes() {
            let hdr = header(max, 1, cache, &feed);
            for a in SUBSETS {
                for b in SUBSETS {
                    enumerate(&hdr, &pre, &[a.to_vec(), b.to_vec()], false, usize::MAX, &mut all);
                }
            }
        }
    }
    // three requests: every (batch size, cache mode, ordered triple of key subsets) in a seeded
    // random order, all schedules of each, until the budget is used up (`thorough` has room for
    // all of them when the answers are ok; one combination in four also branches on errors)
    let mut combos: Vec<(usize, usize, usize, usize, usize)> = vec![];
    for max in 1..=3usize {
        for m in 0..4usize {
            for a in 0..7usize {
                for b in 0..7usize {
                    for c in 0..7usize {
                        combos.push((max, m, a, b, c));
                    }
                }
            }
        }
    }
    rng.shuffle(&mut combos);
    let ms = modes();
    let mut done_combos = 0u64;
    for (max, m, a, b, c) in combos {
        if all.len() >= budget {
            break;
        }
        let (cache, feed, pre) = &ms[m];
        let hdr = header(max, 1, cache, feed);
        let reqs = vec![SUBSETS[a].to_vec(), SUBSETS[b].to_vec(), SUBSETS[c].to_vec()];
        let with_err = tier == "thorough" && rng.chance(1, 8);
        // a combination with more schedules than the cap contributes its first `cap` (depth-first order)
        let cap = (all.len() + 3000).min(budget);
        enumerate(&hdr, pre, &reqs, with_err, cap, &mut all);
        done_combos += 1;
    }
    if std::env::var("AGV_C28_STATS").is_ok() {
        eprintln!("three-request combinations enumerated: {done_combos} of 4116, schedules {}", all.len());
    }
    all.truncate(budget);
    all
}

/// a random schedule guided by what the real executor state enables; ~8% blind actions
fn random_case(rng: &mut Rng, d: &mut Dist, big: bool) -> Sexp {
    let nkeys = if big { 3 + rng.below(4) } else { 3 } as u32;
    let max = match rng.below(10) {
        0 => 0,
        1..=6 => 1 + rng.below(4),
        7 | 8 => 4 + rng.below(4),
        _ => 1000,
    };
    let cache = if rng.chance(3, 5) { "map" } else { "none" };
    let mut feed = vec![];
    if rng.chance(1, 2) {
        for k in 1..=nkeys {
            if rng.chance(1, 3) {
                feed.push((k, 90 + k));
            }
        }
    }
    let delay = *rng.pick(&[0u64, 1, 5]);
    let hdr = header(max, delay, cache, &feed);
    d.hit(&format!("cache_{cache}"));
    d.hit(&format!("max_{}", if max > 7 { "big".to_string() } else { max.to_string() }));
    let mut ex = exec_of(&mk_case(&hdr, vec![]));
    let mut acts = vec![];
    let steps = if big { 8 + rng.below(28) } else { 4 + rng.below(12) };
    let mut next_r = 0u32;
    let mut nbatch = 0u32;
    for _ in 0..steps {
        let un = ex.unstarted();
        let tw = ex.timers_waiting();
        let fl = ex.inflight();
        // weighted choice among the kinds of action that are applicable in the current state
        let mut w: Vec<(usize, usize)> = vec![(0, 30), (5, 3), (6, 3), (7, 2), (8, 6)];
        if !un.is_empty() {
            w.push((1, 22));
        }
        if !tw.is_empty() {
            w.push((2, 22));
        }
        if !fl.is_empty() {
            w.push((3, 26));
        }
        if !ex.waiting.is_empty() {
            w.push((4, 5));
        }
        let total: usize = w.iter().map(|x| x.1).sum();
        let mut pickw = rng.below(total);
        let mut kind = 0;
        for (kd, wt) in &w {
            if pickw < *wt {
                kind = *kd;
                break;
            }
            pickw -= *wt;
        }
        let k = [0usize, 30, 45, 60, 78, 84, 88, 91, 95][kind];
        let a = if k < 30 {
            let n = match rng.below(8) {
                0 => 0,
                1..=4 => 1,
                5 | 6 => 2,
                _ => 1 + rng.below(nkeys as usize + 1),
            };
            let ks: Vec<u32> = (0..n).map(|_| 1 + rng.below(nkeys as usize) as u32).collect();
            d.hit(match n {
                0 => "load_empty",
                1 => "load_one",
                _ => "load_many",
            });
            next_r += 1;
            load_act(next_r - 1, &ks)
        } else if k < 45 && !un.is_empty() {
            node("run", vec![num(*rng.pick(&un))])
        } else if k < 60 && !tw.is_empty() {
            node("fire", vec![num(*rng.pick(&tw))])
        } else if k < 78 && !fl.is_empty() {
            let i = *rng.pick(&fl);
            nbatch += 1;
            match rng.below(10) {
                0..=4 => node("done", vec![num(i), node("okall", vec![num(100 * nbatch)])]),
                5 | 6 => {
                    d.hit("resp_err");
                    node("done", vec![num(i), node("err", vec![num(nbatch)])])
                }
                _ => {
                    d.hit("resp_partial_or_extra");
                    let mut ps = vec![];
                    for k in 1..=nkeys {
                        if rng.chance(2, 3) {
                            ps.push(list(vec![num(k), num(100 * nbatch + k)]));
                        }
                    }
                    let mut ex_ = vec![];
                    if rng.chance(1, 3) {
                        let k = 1 + rng.below(nkeys as usize + 1) as u32;
                        ex_.push(list(vec![num(k), num(100 * nbatch + 50 + k)]));
                    }
                    node("done", vec![num(i), node("ok", ps), node("extra", ex_)])
                }
            }
        } else if k < 84 && !ex.waiting.is_empty() {
            d.hit("cancel");
            node("cancel", vec![num(*rng.pick(&ex.waiting))])
        } else if k < 88 {
            d.hit("flag");
            node(if rng.chance(1, 2) { "enall" } else { "entype" }, vec![num(rng.below(2))])
        } else if k < 91 {
            d.hit("feed_or_clear");
            if rng.chance(2, 3) {
                let k = 1 + rng.below(nkeys as usize) as u32;
                node("feed", vec![list(vec![num(k), num(80 + k)])])
            } else {
                node("clear", vec![])
            }
        } else if k < 93 {
            d.hit("drain_mid");
            node("drain", vec![])
        } else {
            // blind action: may well be inapplicable (both sides must agree that it is a no-op)
            d.hit("blind");
            let i = rng.below(4);
            match rng.below(4) {
                0 => node("run", vec![num(i)]),
                1 => node("fire", vec![num(i)]),
                2 => node("done", vec![num(i), node("okall", vec![num(7)])]),
                _ => node("cancel", vec![num(i)]),
            }
        };
        if !apply_guarded(&mut ex, &a) {
            // see `enumerate`: a panic of the real code during generation ends the case here
            d.hit("generator_panic");
            acts.push(a);
            return mk_case(&hdr, acts);
        }
        acts.push(a);
    }
    if rng.chance(3, 4) {
        d.hit("drain_end");
        acts.push(node("drain", vec![]));
    }
    d.add("tasks_spawned", ex.ntasks() as u64);
    d.add("requests", next_r as u64);
    mk_case(&hdr, acts)
}

fn main() {
    let mut ex_cases: Option<Vec<Sexp>> = None;
    let mut gen_case = |rng: &mut Rng, i: usize, o: &Opts, d: &mut Dist| -> Sexp {
        if ex_cases.is_none() {
            let mut r = Rng::new(o.seed ^ 0xC28);
            let budget = o.n * 7 / 10;
            let v = exhaustive(&o.tier, &mut r, budget);
            ex_cases = Some(v);
        }
        let exs = ex_cases.as_ref().unwrap();
        if i < exs.len() {
            d.hit("exhaustive_schedule");
            exs[i].clone()
        } else {
            d.hit("random_schedule");
            let big = o.tier == "thorough" || rng.chance(1, 3);
            random_case(rng, d, big)
        }
    };
    main_loop(&mut gen_case, &mut run);
}
