//! C32 — connection cursors round-trip and pagination arguments are checked.
//!
//! Cursor type tags TY: i8 i16 i32 i64 i128 isize u8 u16 u32 u64 u128 usize bool char string id
//! (values: integers and booleans as atoms, char/string/id as quoted strings), `opq`
//! (`OpaqueCursor<serde_json::Value>`, value = the compact JSON text as a quoted string).
//!
//! Case kinds
//!   (rt TY V)                 `V.encode_cursor()` then `TY::decode_cursor` of that string
//!   (dec TY "s")              `TY::decode_cursor("s")`
//!   (flt f32|f64 BITS)        float with these bits: encode, decode, compare
//!   (opqdec "s" LABEL)        `OpaqueCursor::<Value>::decode_cursor("s")`; LABEL says what the
//!                             generator knows about the payload *if* "s" is valid base64:
//!                             valid (canonical compact JSON) | invalid (not JSON) | unknown
//!   (q TY A B F L)            the real `connection::query::<…>` with after A, before B (none or
//!                             ("s" LABEL)), first F, last L (none or an i32); the closure logs
//!                             what it receives
//!   (page TY (V…) HP HN)      execute a schema whose field returns `Connection<TY, i32>` with
//!                             these edge cursors; select pageInfo, edges.cursor, nodes
//! Output
//!   (enc "s" (ok V')) | (enc "s" (err KIND))
//!   (ok V) | (err KIND)
//!   (enc "s" same|diff|err)
//!   (called A' B' F' L') | (err KIND notcalled|called)      A',B' = none | (some V); F',L' = none | n
//!   (page HP HN START END (cursors…) (nodes…))            START, END = none | (some "s")

use std::{
    fmt::Display,
    sync::{
        Arc,
        atomic::{AtomicBool, Ordering},
    },
};

use agvh::*;
use async_graphql::{
    EmptyMutation, EmptySubscription, ID, Object, Schema,
    connection::{Connection, ConnectionNameType, CursorType, Edge, EdgeNameType, EmptyFields, OpaqueCursor, query},
};
use serde_json::Value as J;

// ------------------------------------------------------------------ cursor types

trait Cur: CursorType + Send + Sync + Sized + 'static {
    fn show(&self) -> Sexp;
    fn read(s: &Sexp) -> Option<Self>;
}

macro_rules! int_cur {
    ($($t:ty)*) => {$(
        impl Cur for $t {
            fn show(&self) -> Sexp { num(*self) }
            fn read(s: &Sexp) -> Option<Self> { s.as_atom()?.parse().ok() }
        }
    )*}
}
int_cur! { i8 i16 i32 i64 i128 isize u8 u16 u32 u64 u128 usize }

impl Cur for bool {
    fn show(&self) -> Sexp {
        atom(if *self { "true" } else { "false" })
    }
    fn read(s: &Sexp) -> Option<Self> {
        match s.as_atom()? {
            "true" => Some(true),
            "false" => Some(false),
            _ => None,
        }
    }
}
impl Cur for char {
    fn show(&self) -> Sexp {
        st(self.to_string())
    }
    fn read(s: &Sexp) -> Option<Self> {
        let mut it = s.as_str()?.chars();
        let c = it.next()?;
        if it.next().is_some() { None } else { Some(c) }
    }
}
impl Cur for String {
    fn show(&self) -> Sexp {
        st(self.clone())
    }
    fn read(s: &Sexp) -> Option<Self> {
        Some(s.as_str()?.to_string())
    }
}
impl Cur for ID {
    fn show(&self) -> Sexp {
        st(self.0.clone())
    }
    fn read(s: &Sexp) -> Option<Self> {
        Some(ID(s.as_str()?.to_string()))
    }
}
impl Cur for OpaqueCursor<J> {
    fn show(&self) -> Sexp {
        st(serde_json::to_string(&self.0).unwrap())
    }
    fn read(s: &Sexp) -> Option<Self> {
        Some(OpaqueCursor(serde_json::from_str(s.as_str()?).ok()?))
    }
}

/// error messages (Display of the cursor type's error, which is also what `query` puts into
/// the GraphQL error) mapped to a small enum
fn err_kind(msg: &str) -> Sexp {
    let k = match msg {
        "cannot parse integer from empty string" => "empty",
        "invalid digit found in string" => "invalid",
        "number too large to fit in target type" => "posoverflow",
        "number too small to fit in target type" => "negoverflow",
        "cannot parse char from empty string" => "empty",
        "too many characters in string" => "toomany",
        "provided string was not `true` or `false`" => "notbool",
        "The \"first\" parameter must be a non-negative number" => "first-negative",
        "The \"last\" parameter must be a non-negative number" => "last-negative",
        m if m.starts_with("Invalid symbol")
            || m.starts_with("Invalid input length")
            || m.starts_with("Invalid last symbol")
            || m.starts_with("Invalid padding") =>
        {
            "b64"
        }
        _ => return node("other", vec![st(msg)]),
    };
    atom(k)
}

fn is_opq_json_err(k: &Sexp) -> bool {
    matches!(k, Sexp::List(v) if v.first() == Some(&atom("other")))
}

/// for the opaque cursor every non-base64 error is a JSON error
fn err_out<C: Cur>(e: &C::Error, opq: bool) -> Sexp
where
    C::Error: Display,
{
    let k = err_kind(&e.to_string());
    if opq && is_opq_json_err(&k) { atom("json") } else { k }
}

fn res_out<C: Cur>(r: Result<C, C::Error>, opq: bool) -> Sexp
where
    C::Error: Display,
{
    match r {
        Ok(v) => node("ok", vec![v.show()]),
        Err(e) => node("err", vec![err_out::<C>(&e, opq)]),
    }
}

fn do_rt<C: Cur>(v: &Sexp, opq: bool) -> Sexp
where
    C::Error: Display,
{
    let Some(v) = C::read(v) else { return atom("bad-case") };
    let s = v.encode_cursor();
    let back = C::decode_cursor(&s);
    node("enc", vec![st(s), res_out::<C>(back, opq)])
}

fn do_dec<C: Cur>(s: &str, opq: bool) -> Sexp
where
    C::Error: Display,
{
    res_out::<C>(C::decode_cursor(s), opq)
}

fn opt_cursor_arg(s: &Sexp) -> Option<Option<String>> {
    match s {
        Sexp::Atom(a) if a == "none" => Some(None),
        Sexp::List(v) if !v.is_empty() => Some(Some(v[0].as_str()?.to_string())),
        _ => None,
    }
}
fn opt_i32_arg(s: &Sexp) -> Option<Option<i32>> {
    match s.as_atom()? {
        "none" => Some(None),
        a => Some(Some(a.parse().ok()?)),
    }
}
fn show_opt<T>(x: &Option<T>, f: impl Fn(&T) -> Sexp) -> Sexp {
    match x {
        None => atom("none"),
        Some(v) => node("some", vec![f(v)]),
    }
}

fn do_q<C: Cur>(a: &[Sexp], opq: bool) -> Sexp
where
    C::Error: Display + Send + Sync + 'static,
{
    let (Some(after), Some(before), Some(first), Some(last)) =
        (opt_cursor_arg(&a[0]), opt_cursor_arg(&a[1]), opt_i32_arg(&a[2]), opt_i32_arg(&a[3]))
    else {
        return atom("bad-case");
    };
    let called = Arc::new(AtomicBool::new(false));
    let c2 = called.clone();
    let log = Arc::new(std::sync::Mutex::new(None));
    let l2 = log.clone();
    let r = spin_on(query::<_, _, C, i32, _, _, _, _, _, async_graphql::Error>(
        after,
        before,
        first,
        last,
        |after: Option<C>, before: Option<C>, first: Option<usize>, last: Option<usize>| async move {
            c2.store(true, Ordering::SeqCst);
            *l2.lock().unwrap() = Some(node(
                "called",
                vec![
                    show_opt(&after, |v| v.show()),
                    show_opt(&before, |v| v.show()),
                    match first {
                        None => atom("none"),
                        Some(n) => num(n),
                    },
                    match last {
                        None => atom("none"),
                        Some(n) => num(n),
                    },
                ],
            ));
            Ok(Connection::<C, i32>::new(false, false))
        },
    ));
    let was_called = called.load(Ordering::SeqCst);
    match r {
        Ok(_) => log.lock().unwrap().take().unwrap_or(atom("ok-without-call")),
        Err(e) => {
            let k = err_kind(&e.message);
            let k = if opq && is_opq_json_err(&k) { atom("json") } else { k };
            node("err", vec![k, atom(if was_called { "called" } else { "notcalled" })])
        }
    }
}

// ------------------------------------------------------------------ executed connection fields

struct Q {
    vals: Vec<Sexp>,
    hp: bool,
    hn: bool,
}

/// all `Connection<_, i32>` would share the GraphQL name `IntConnection`: one name per field
struct N<const K: usize>;
impl<const K: usize> ConnectionNameType for N<K> {
    fn type_name<T: async_graphql::OutputType>() -> String {
        format!("Conn{K}")
    }
}
impl<const K: usize> EdgeNameType for N<K> {
    fn type_name<T: async_graphql::OutputType>() -> String {
        format!("Edge{K}")
    }
}
type Cn<C, const K: usize> = Connection<C, i32, EmptyFields, EmptyFields, N<K>, N<K>>;

fn build<C: Cur, const K: usize>(q: &Q) -> async_graphql::Result<Cn<C, K>> {
    let mut c = Connection::new(q.hp, q.hn);
    for (i, v) in q.vals.iter().enumerate() {
        let cur = C::read(v).ok_or_else(|| async_graphql::Error::new("bad-case"))?;
        c.edges.push(Edge::new(cur, i as i32));
    }
    Ok(c)
}

#[Object]
impl Q {
    async fn c_i8(&self) -> async_graphql::Result<Cn<i8, 1>> {
        build(self)
    }
    async fn c_i32(&self) -> async_graphql::Result<Cn<i32, 2>> {
        build(self)
    }
    async fn c_i64(&self) -> async_graphql::Result<Cn<i64, 3>> {
        build(self)
    }
    async fn c_i128(&self) -> async_graphql::Result<Cn<i128, 4>> {
        build(self)
    }
    async fn c_u16(&self) -> async_graphql::Result<Cn<u16, 5>> {
        build(self)
    }
    async fn c_u64(&self) -> async_graphql::Result<Cn<u64, 6>> {
        build(self)
    }
    async fn c_usize(&self) -> async_graphql::Result<Cn<usize, 7>> {
        build(self)
    }
    async fn c_bool(&self) -> async_graphql::Result<Cn<bool, 8>> {
        build(self)
    }
    async fn c_char(&self) -> async_graphql::Result<Cn<char, 9>> {
        build(self)
    }
    async fn c_string(&self) -> async_graphql::Result<Cn<String, 10>> {
        build(self)
    }
    async fn c_id(&self) -> async_graphql::Result<Cn<ID, 11>> {
        build(self)
    }
    async fn c_opq(&self) -> async_graphql::Result<Cn<OpaqueCursor<J>, 12>> {
        build(self)
    }
}

const PAGE_TYPES: [&str; 12] =
    ["i8", "i32", "i64", "i128", "u16", "u64", "usize", "bool", "char", "string", "id", "opq"];

fn do_page(ty: &str, vals: &[Sexp], hp: bool, hn: bool) -> Sexp {
    if !PAGE_TYPES.contains(&ty) {
        return atom("bad-case");
    }
    let schema = Schema::new(Q { vals: vals.to_vec(), hp, hn }, EmptyMutation, EmptySubscription);
    let field = format!("c{}{}", ty[..1].to_uppercase(), &ty[1..]);
    let q = format!(
        "{{ c: {field} {{ pageInfo {{ hasPreviousPage hasNextPage startCursor endCursor }} edges {{ cursor node }} nodes }} }}"
    );
    let resp = spin_on(schema.execute(q.as_str()));
    if !resp.errors.is_empty() {
        return node("errors", vec![st(resp.errors[0].message.clone())]);
    }
    let j = resp.data.into_json().unwrap();
    let c = &j["c"];
    let pi = &c["pageInfo"];
    let cur = |v: &J| match v {
        J::Null => atom("none"),
        J::String(s) => node("some", vec![st(s.clone())]),
        _ => atom("bad"),
    };
    let b = |v: &J| atom(if v.as_bool() == Some(true) { "true" } else { "false" });
    let edges = c["edges"].as_array().cloned().unwrap_or_default();
    node(
        "page",
        vec![
            b(&pi["hasPreviousPage"]),
            b(&pi["hasNextPage"]),
            cur(&pi["startCursor"]),
            cur(&pi["endCursor"]),
            list(edges.iter().map(|e| st(e["cursor"].as_str().unwrap_or("?"))).collect()),
            list(c["nodes"].as_array().cloned().unwrap_or_default().iter().map(|n| num(n.as_i64().unwrap_or(-1))).collect()),
        ],
    )
}

// ------------------------------------------------------------------ dispatch

macro_rules! dispatch {
    ($ty:expr, $f:ident, $($arg:expr),*) => {
        match $ty {
            "i8" => $f::<i8>($($arg),*, false),
            "i16" => $f::<i16>($($arg),*, false),
            "i32" => $f::<i32>($($arg),*, false),
            "i64" => $f::<i64>($($arg),*, false),
            "i128" => $f::<i128>($($arg),*, false),
            "isize" => $f::<isize>($($arg),*, false),
            "u8" => $f::<u8>($($arg),*, false),
            "u16" => $f::<u16>($($arg),*, false),
            "u32" => $f::<u32>($($arg),*, false),
            "u64" => $f::<u64>($($arg),*, false),
            "u128" => $f::<u128>($($arg),*, false),
            "usize" => $f::<usize>($($arg),*, false),
            "bool" => $f::<bool>($($arg),*, false),
            "char" => $f::<char>($($arg),*, false),
            "string" => $f::<String>($($arg),*, false),
            "id" => $f::<ID>($($arg),*, false),
            "opq" => $f::<OpaqueCursor<J>>($($arg),*, true),
            _ => atom("bad-case"),
        }
    };
}

fn run(case: &Sexp, _dist: &mut Dist) -> Sexp {
    let a = case.args();
    match case.tag() {
        Some("rt") if a.len() == 2 => {
            let ty = a[0].as_atom().unwrap_or("");
            dispatch!(ty, do_rt, &a[1])
        }
        Some("dec") if a.len() == 2 => {
            let ty = a[0].as_atom().unwrap_or("");
            let Some(s) = a[1].as_str() else { return atom("bad-case") };
            dispatch!(ty, do_dec, s)
        }
        Some("opqdec") if a.len() == 2 => {
            let Some(s) = a[0].as_str() else { return atom("bad-case") };
            do_dec::<OpaqueCursor<J>>(s, true)
        }
        Some("flt") if a.len() == 2 => {
            let Some(bits) = a[1].as_atom().and_then(|x| x.parse::<u64>().ok()) else {
                return atom("bad-case");
            };
            match a[0].as_atom() {
                Some("f64") => {
                    let x = f64::from_bits(bits);
                    let s = x.encode_cursor();
                    let v = match f64::decode_cursor(&s) {
                        Ok(y) if y.to_bits() == bits || (x.is_nan() && y.is_nan()) => "same",
                        Ok(_) => "diff",
                        Err(_) => "err",
                    };
                    node("enc", vec![st(s), atom(v)])
                }
                Some("f32") => {
                    let x = f32::from_bits(bits as u32);
                    let s = x.encode_cursor();
                    let v = match f32::decode_cursor(&s) {
                        Ok(y) if y.to_bits() == bits as u32 || (x.is_nan() && y.is_nan()) => "same",
                        Ok(_) => "diff",
                        Err(_) => "err",
                    };
                    node("enc", vec![st(s), atom(v)])
                }
                _ => atom("bad-case"),
            }
        }
        Some("q") if a.len() == 5 => {
            let ty = a[0].as_atom().unwrap_or("");
            dispatch!(ty, do_q, &a[1..])
        }
        Some("page") if a.len() == 4 => {
            let ty = a[0].as_atom().unwrap_or("");
            let Some(vs) = a[1].as_list() else { return atom("bad-case") };
            do_page(ty, vs, a[2].as_atom() == Some("true"), a[3].as_atom() == Some("true"))
        }
        _ => atom("bad-case"),
    }
}

// ------------------------------------------------------------------ generator

const INT_TYPES: [(&str, bool, u32); 12] = [
    ("i8", true, 8),
    ("i16", true, 16),
    ("i32", true, 32),
    ("i64", true, 64),
    ("i128", true, 128),
    ("isize", true, 64),
    ("u8", false, 8),
    ("u16", false, 16),
    ("u32", false, 32),
    ("u64", false, 64),
    ("u128", false, 128),
    ("usize", false, 64),
];

/// decimal text of a value in / near the range of the type (computed on i128/u128 text level so
/// that values one beyond the 128-bit limits can be produced as well)
fn gen_int_text(rng: &mut Rng, signed: bool, bits: u32, allow_outside: bool, dist: &mut Dist) -> String {
    let max: u128 = if signed { (1u128 << (bits - 1)) - 1 } else if bits == 128 { u128::MAX } else { (1u128 << bits) - 1 };
    let minmag: u128 = if signed { 1u128 << (bits - 1) } else { 0 };
    let plus1 = |m: u128| -> String {
        // decimal text of m + 1 without overflow
        match m.checked_add(1) {
            Some(x) => x.to_string(),
            None => "340282366920938463463374607431768211456".to_string(),
        }
    };
    match rng.below(if allow_outside { 12 } else { 8 }) {
        0 => "0".into(),
        1 => max.to_string(),
        2 => {
            if signed { format!("-{minmag}") } else { "1".into() }
        }
        3 => (max - rng.below(3) as u128).to_string(),
        4 => {
            if signed { format!("-{}", minmag - rng.below(3) as u128) } else { rng.below(10).to_string() }
        }
        5 => {
            let v = (rng.below(200) as u128).min(max);
            if signed && rng.chance(1, 2) { format!("-{}", v.min(minmag)) } else { v.to_string() }
        }
        6 | 7 => {
            let r = ((rng.next_u64() as u128) << 64) | rng.next_u64() as u128;
            let sh = rng.below(bits as usize) as u32;
            let v = (r >> (127 - sh.min(127))) & max;
            if signed && rng.chance(1, 2) && v > 0 { format!("-{v}") } else { v.to_string() }
        }
        8 => {
            dist.hit("int_over_by_one");
            plus1(max)
        }
        9 => {
            dist.hit("int_under_by_one");
            if signed { format!("-{}", plus1(minmag)) } else { "-1".into() }
        }
        10 => {
            dist.hit("int_huge");
            let n = 20 + rng.below(30);
            let mut s = String::new();
            if signed && rng.chance(1, 2) {
                s.push('-');
            }
            s.push((b'1' + rng.below(9) as u8) as char);
            for _ in 0..n {
                s.push((b'0' + rng.below(10) as u8) as char);
            }
            s
        }
        _ => {
            // ten times the limit / limit with an extra digit
            let mut s = max.to_string();
            s.push((b'0' + rng.below(10) as u8) as char);
            if signed && rng.chance(1, 2) { format!("-{s}") } else { s }
        }
    }
}

fn normalise_neg_zero(s: String) -> String {
    if s == "-0" { "0".into() } else { s }
}

const STRS: [&str; 16] = [
    "", "a", "abc", "0", "-1", " x ", "é", "日本", "\u{1F600}", "a\nb", "\u{0}", "e\u{301}", "true", "\"q\"", "a\\b",
    "\u{2028}",
];

fn gen_string(rng: &mut Rng) -> String {
    if rng.chance(1, 2) {
        return rng.pick(&STRS).to_string();
    }
    let n = rng.below(8);
    let alpha: Vec<char> = "ab01-+ _=/é\u{1F600}\n\"\\Zz9".chars().collect();
    (0..n).map(|_| *rng.pick(&alpha)).collect()
}

fn gen_json(rng: &mut Rng, depth: usize) -> J {
    let k = rng.below(if depth == 0 { 5 } else { 8 });
    match k {
        0 => J::Null,
        1 => J::Bool(rng.chance(1, 2)),
        2 => match rng.below(4) {
            0 => J::from(i64::MIN),
            1 => J::from(u64::MAX),
            2 => J::from(rng.range(-1000, 1000)),
            _ => J::from(rng.next_u64() as i64),
        },
        3 | 4 => J::String(gen_string(rng)),
        5 => J::Array((0..rng.below(4)).map(|_| gen_json(rng, depth - 1)).collect()),
        _ => {
            let mut m = serde_json::Map::new();
            for _ in 0..rng.below(4) {
                m.insert(gen_string(rng), gen_json(rng, depth - 1));
            }
            J::Object(m)
        }
    }
}

const B64: &[u8; 64] = b"ABCDEFGHIJKLMNOPQRSTUVWXYZabcdefghijklmnopqrstuvwxyz0123456789-_";

/// generator-side encoder (to build cursor strings around payloads that are not JSON)
fn b64(bytes: &[u8]) -> String {
    let mut o = String::new();
    for ch in bytes.chunks(3) {
        let n = (ch[0] as u32) << 16 | (*ch.get(1).unwrap_or(&0) as u32) << 8 | *ch.get(2).unwrap_or(&0) as u32;
        o.push(B64[(n >> 18) as usize & 63] as char);
        o.push(B64[(n >> 12) as usize & 63] as char);
        if ch.len() > 1 {
            o.push(B64[(n >> 6) as usize & 63] as char);
        }
        if ch.len() > 2 {
            o.push(B64[n as usize & 63] as char);
        }
    }
    o
}

/// an opaque cursor string and the label of its payload
fn gen_opq_string(rng: &mut Rng, dist: &mut Dist) -> (String, &'static str) {
    let j = gen_json(rng, 2);
    let text = serde_json::to_string(&j).unwrap();
    let canon = b64(text.as_bytes());
    match rng.below(12) {
        0..=3 => {
            dist.hit("opq_valid");
            (canon, "valid")
        }
        4 | 5 => {
            dist.hit("opq_payload_not_json");
            // a proper prefix of a bracketed/quoted value, or a complete value followed by junk
            let bracketed = matches!(j, J::Array(_) | J::Object(_) | J::String(_));
            let payload: String = if bracketed && rng.chance(2, 3) {
                let cs: Vec<char> = text.chars().collect();
                cs[..rng.below(cs.len())].iter().collect()
            } else {
                format!("{text}{}", rng.pick(&["x", "]", "}", ",", "\"", " 1"]))
            };
            (b64(payload.as_bytes()), "invalid")
        }
        6 => {
            dist.hit("opq_bad_symbol");
            let bad = *rng.pick(&['=', '+', '/', ' ', '\n', 'é', '.', '*', '\u{1F600}']);
            let mut cs: Vec<char> = canon.chars().collect();
            let at = rng.below(cs.len() + 1);
            if rng.chance(1, 2) && at < cs.len() {
                cs[at] = bad;
            } else {
                cs.insert(at, bad);
            }
            (cs.into_iter().collect(), "unknown")
        }
        7 => {
            dist.hit("opq_padding");
            (format!("{canon}{}", if rng.chance(1, 2) { "=" } else { "==" }), "unknown")
        }
        8 => {
            dist.hit("opq_bad_length");
            let mut s = canon;
            while s.len() % 4 != 1 {
                s.push(B64[rng.below(64)] as char);
            }
            (s, "unknown")
        }
        9 => {
            dist.hit("opq_trailing_bits");
            let mut cs: Vec<char> = canon.chars().collect();
            if cs.len() % 4 == 2 || cs.len() % 4 == 3 {
                let last = cs.len() - 1;
                let idx = B64.iter().position(|&b| b as char == cs[last]).unwrap();
                cs[last] = B64[idx | 1] as char; // low bit set: non-canonical trailing bits
            } else {
                cs.push('B'); // length 1 mod 4
            }
            (cs.into_iter().collect(), "unknown")
        }
        _ => {
            dist.hit("opq_random_alphabet");
            let n = rng.below(10);
            ((0..n).map(|_| B64[rng.below(64)] as char).collect(), "unknown")
        }
    }
}

const INT_JUNK: [&str; 22] = [
    "", "-", "+", "+-1", "--1", " 1", "1 ", "1_000", "0x10", "1e3", "1.0", "\u{663}", "\u{ff11}", "١٢", "12a", "a12",
    "- 1", "+ 1", "1\n", "\t1", "٣", "1,0",
];

fn gen_int_string(rng: &mut Rng, signed: bool, bits: u32, dist: &mut Dist) -> String {
    match rng.below(10) {
        0 | 1 => {
            dist.hit("dec_int_canonical_or_out_of_range");
            gen_int_text(rng, signed, bits, true, dist)
        }
        2 => {
            dist.hit("dec_int_plus_sign");
            format!("+{}", gen_int_text(rng, false, bits, true, dist))
        }
        3 => {
            dist.hit("dec_int_leading_zeros");
            let t = gen_int_text(rng, signed, bits, true, dist);
            let z = "0".repeat(1 + rng.below(45));
            match t.strip_prefix('-') {
                Some(d) => format!("-{z}{d}"),
                None => format!("{z}{t}"),
            }
        }
        4 => {
            dist.hit("dec_int_signed_zero");
            rng.pick(&["-0", "+0", "-00", "+000", "-0000000000000000000000000000000000000000000"]).to_string()
        }
        5 => {
            dist.hit("dec_int_minus_on_any");
            format!("-{}", gen_int_text(rng, false, bits, true, dist))
        }
        6 | 7 => {
            dist.hit("dec_int_junk");
            rng.pick(&INT_JUNK).to_string()
        }
        8 => {
            dist.hit("dec_int_junk_after_overflow");
            // a non-digit placed after the point where the accumulator already overflowed, or before
            let mut t = gen_int_text(rng, signed, bits, true, dist);
            let junk = *rng.pick(&['x', ' ', '-', '+', '.']);
            if rng.chance(1, 2) {
                t.push_str("99999");
                t.push(junk);
            } else {
                let at = rng.below(t.len() + 1);
                t.insert(at, junk);
            }
            t
        }
        _ => gen_string(rng),
    }
}

fn gen_value(rng: &mut Rng, ty: &str, dist: &mut Dist) -> Sexp {
    if let Some(&(_, signed, bits)) = INT_TYPES.iter().find(|t| t.0 == ty) {
        return atom(normalise_neg_zero(gen_int_text(rng, signed, bits, false, dist)));
    }
    match ty {
        "bool" => atom(if rng.chance(1, 2) { "true" } else { "false" }),
        "char" => {
            let cs = ['a', '0', ' ', '\n', '\u{0}', 'é', '日', '\u{1F600}', '\u{10FFFF}', '\u{d7ff}', '\u{e000}', '"', '\\', '\''];
            let c = if rng.chance(2, 3) {
                *rng.pick(&cs)
            } else {
                loop {
                    if let Some(c) = char::from_u32(rng.below(0x110000) as u32) {
                        break c;
                    }
                }
            };
            st(c.to_string())
        }
        "opq" => st(serde_json::to_string(&gen_json(rng, 3)).unwrap()),
        _ => st(gen_string(rng)),
    }
}

const ALL_TYPES: [&str; 17] = [
    "i8", "i16", "i32", "i64", "i128", "isize", "u8", "u16", "u32", "u64", "u128", "usize", "bool", "char", "string", "id",
    "opq",
];

fn gen_cursor_string(rng: &mut Rng, ty: &str, dist: &mut Dist) -> (String, &'static str) {
    if let Some(&(_, signed, bits)) = INT_TYPES.iter().find(|t| t.0 == ty) {
        return (gen_int_string(rng, signed, bits, dist), "na");
    }
    match ty {
        "bool" => (
            rng.pick(&["true", "false", "True", "FALSE", " true", "false ", "1", "0", "", "t", "truefalse", "yes"]).to_string(),
            "na",
        ),
        "char" => (
            rng.pick(&["", "a", "ab", "é", "\u{1F600}", "e\u{301}", " ", "\n", "\u{1F600}\u{1F600}", "abc", "\u{0}", "日本"])
                .to_string(),
            "na",
        ),
        "opq" => gen_opq_string(rng, dist),
        _ => (gen_string(rng), "na"),
    }
}

fn gen_case(rng: &mut Rng, _i: usize, _o: &Opts, dist: &mut Dist) -> Sexp {
    let k = rng.below(100);
    if k < 28 {
        let ty = *rng.pick(&ALL_TYPES);
        dist.hit("kind_rt");
        dist.hit(&format!("rt_{ty}"));
        node("rt", vec![atom(ty), gen_value(rng, ty, dist)])
    } else if k < 46 {
        let ty = *rng.pick(&ALL_TYPES[..16]);
        dist.hit("kind_dec");
        let (s, _) = gen_cursor_string(rng, ty, dist);
        node("dec", vec![atom(ty), st(s)])
    } else if k < 54 {
        dist.hit("kind_flt");
        let f64t = rng.chance(1, 2);
        let bits: u64 = if f64t {
            let sp: [u64; 12] = [
                0,
                0x8000_0000_0000_0000,
                f64::INFINITY.to_bits(),
                f64::NEG_INFINITY.to_bits(),
                f64::NAN.to_bits(),
                0xFFF8_0000_0000_0001,
                f64::MIN_POSITIVE.to_bits(),
                1,
                f64::MAX.to_bits(),
                f64::MIN.to_bits(),
                f64::EPSILON.to_bits(),
                0x000F_FFFF_FFFF_FFFF,
            ];
            match rng.below(4) {
                0 => {
                    dist.hit("flt_special");
                    *rng.pick(&sp)
                }
                1 => {
                    dist.hit("flt_integral");
                    let v = rng.range(-(1 << 53), 1 << 53) >> rng.below(50);
                    (v as f64).to_bits()
                }
                _ => rng.next_u64(),
            }
        } else {
            let sp: [u32; 10] = [
                0,
                0x8000_0000,
                f32::INFINITY.to_bits(),
                f32::NEG_INFINITY.to_bits(),
                f32::NAN.to_bits(),
                0xFFC0_0001,
                f32::MIN_POSITIVE.to_bits(),
                1,
                f32::MAX.to_bits(),
                f32::MIN.to_bits(),
            ];
            (match rng.below(4) {
                0 => {
                    dist.hit("flt_special");
                    *rng.pick(&sp)
                }
                1 => {
                    dist.hit("flt_integral");
                    let v = rng.range(-(1 << 24), 1 << 24) >> rng.below(22);
                    (v as f32).to_bits()
                }
                _ => rng.next_u64() as u32,
            }) as u64
        };
        node("flt", vec![atom(if f64t { "f64" } else { "f32" }), num(bits)])
    } else if k < 66 {
        dist.hit("kind_opqdec");
        let (s, label) = gen_opq_string(rng, dist);
        node("opqdec", vec![st(s), atom(label)])
    } else if k < 92 {
        dist.hit("kind_q");
        let ty = *rng.pick(&["usize", "i32", "i8", "u64", "i128", "string", "id", "bool", "char", "opq", "opq", "isize", "u8"]);
        let cur = |rng: &mut Rng, dist: &mut Dist, which: &str| -> Sexp {
            match rng.below(10) {
                0..=3 => atom("none"),
                4..=6 => {
                    // a cursor that the type itself produced
                    dist.hit(&format!("q_{which}_valid"));
                    let v = gen_value(rng, ty, dist);
                    let s = match ty {
                        "opq" => (b64(v.as_str().unwrap().as_bytes()), "valid"),
                        _ => (v.as_atom().or(v.as_str()).unwrap().to_string(), "na"),
                    };
                    list(vec![st(s.0), atom(s.1)])
                }
                _ => {
                    dist.hit(&format!("q_{which}_arbitrary"));
                    let (s, l) = gen_cursor_string(rng, ty, dist);
                    list(vec![st(s), atom(l)])
                }
            }
        };
        let after = cur(rng, dist, "after");
        let before = cur(rng, dist, "before");
        let cnt = |rng: &mut Rng, dist: &mut Dist, which: &str| -> Sexp {
            match rng.below(10) {
                0..=3 => atom("none"),
                4 | 5 => num(rng.below(50)),
                6 => num(0),
                7 => {
                    dist.hit(&format!("q_{which}_negative"));
                    num(*rng.pick(&[-1i64, -2, i32::MIN as i64, -100]))
                }
                8 => num(i32::MAX),
                _ => {
                    let v = rng.range(i32::MIN as i64, i32::MAX as i64);
                    if v < 0 {
                        dist.hit(&format!("q_{which}_negative"));
                    }
                    num(v)
                }
            }
        };
        let first = cnt(rng, dist, "first");
        let last = cnt(rng, dist, "last");
        if first != atom("none") && last != atom("none") {
            dist.hit("q_first_and_last");
        }
        node("q", vec![atom(ty), after, before, first, last])
    } else {
        dist.hit("kind_page");
        let ty = *rng.pick(&PAGE_TYPES);
        let n = [0, 0, 1, 1, 2, 3, 5][rng.below(7)];
        dist.hit(&format!("page_edges_{}", n.min(3)));
        let vals: Vec<Sexp> = (0..n).map(|_| gen_value(rng, ty, dist)).collect();
        let b = |x: bool| atom(if x { "true" } else { "false" });
        node("page", vec![atom(ty), list(vals), b(rng.chance(1, 2)), b(rng.chance(1, 2))])
    }
}

fn main() {
    main_loop(&mut gen_case, &mut run);
}
