//! C04 — see ../sched.rs (the scheduler streams are shared by C04 and C05).
//! Streams: `once` (C04: repeated response keys, mutations and queries, random schedules),
//! `order` (C05: queries, all completion orders up to 6 resolver occurrences, faults at
//! nullable positions), `nonnull` (C05: faults anywhere).

#[path = "../family.rs"]
mod family;
#[path = "../sched.rs"]
mod sched;

fn main() {
    agvh::main_loop(&mut sched::gen_case, &mut sched::run);
}
