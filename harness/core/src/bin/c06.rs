//! C06 — resolvers receive exactly the spec-coerced argument values.
//!
//! Case:   (case STREAM TABLE DOC VARS)
//!   STREAM  static | dynamic | static-fast | dynamic-fast
//!           which schema executes the request, and its validation mode: plain = the default
//!           `ValidationMode::Strict`, `-fast` = `ValidationMode::Fast` (ArgumentsOfCorrectType,
//!           DefaultValuesOfCorrectType, ProvidedNonNullArguments … are not run: the executor's
//!           own `InputType::parse` is the only guard)
//!   TABLE   the argument type table (Rust-side types of every argument and input field, with
//!           defaults), cross-checked against the SDL of the real schemas at start-up
//!   DOC     (doc ((op query none (vardefs…) () (fields…))) ())   — Core/Types.lean wire format
//!   VARS    (vars (NAME JSONVALUE) …)  variable values as they arrive from JSON
//! Output: (out STATUS (KEY OUTCOME) …) in document order
//!   STATUS   ok | reqerr (an error without path: nothing was executed) | fielderr
//!   OUTCOME  (seen (ARG RV) …) what the resolver received | err (field error, resolver not
//!            invoked) | none (not invoked, no error at that path)
//!   RV       undef | null | INT | (f "tok") | "str" | true | false | (e "NAME") | (list RV…)
//!            | (obj ("field" RV)…)      — the Rust value, `MaybeUndefined` printed tri-state

use std::sync::{Arc, Mutex};

use async_graphql::{
    Context, EmptyMutation, EmptySubscription, Enum, ID, InputObject, InputType, MaybeUndefined, Object,
    OneofObject, Schema, ValidationMode, Value as AValue, dynamic,
};
use async_graphql_parser::{parse_schema, types as pt};

use agvh::*;

// ------------------------------------------------------------------ values

#[derive(Clone, Debug, PartialEq)]
enum V {
    Var(String),
    Null,
    Int(i64),
    Float(String),
    Str(String),
    Bool(bool),
    Enum(String),
    List(Vec<V>),
    Obj(Vec<(String, V)>),
}

fn float_token(f: f64) -> String {
    serde_json::to_string(&f).unwrap()
}

impl V {
    fn to_sexp(&self) -> Sexp {
        match self {
            V::Var(n) => node("var", vec![st(n.clone())]),
            V::Null => atom("null"),
            V::Int(i) => num(i),
            V::Float(t) => node("f", vec![st(t.clone())]),
            V::Str(s) => st(s.clone()),
            V::Bool(b) => atom(if *b { "true" } else { "false" }),
            V::Enum(e) => node("e", vec![st(e.clone())]),
            V::List(xs) => node("list", xs.iter().map(|x| x.to_sexp()).collect()),
            V::Obj(fs) => node("obj", fs.iter().map(|(k, v)| list(vec![st(k.clone()), v.to_sexp()])).collect()),
        }
    }
    fn from_sexp(s: &Sexp) -> Option<V> {
        Some(match s {
            Sexp::Atom(a) if a == "null" => V::Null,
            Sexp::Atom(a) if a == "true" => V::Bool(true),
            Sexp::Atom(a) if a == "false" => V::Bool(false),
            Sexp::Atom(a) => V::Int(a.parse().ok()?),
            Sexp::Str(s) => V::Str(s.clone()),
            Sexp::List(_) => match s.tag()? {
                "var" => V::Var(s.args()[0].as_str()?.to_string()),
                "f" => V::Float(s.args()[0].as_str()?.to_string()),
                "e" => V::Enum(s.args()[0].as_str()?.to_string()),
                "list" => V::List(s.args().iter().map(V::from_sexp).collect::<Option<_>>()?),
                "obj" => V::Obj(
                    s.args()
                        .iter()
                        .map(|p| {
                            let l = p.as_list()?;
                            Some((l[0].as_str()?.to_string(), V::from_sexp(&l[1])?))
                        })
                        .collect::<Option<_>>()?,
                ),
                _ => return None,
            },
        })
    }
    /// GraphQL source text
    fn text(&self) -> String {
        match self {
            V::Var(n) => format!("${n}"),
            V::Null => "null".into(),
            V::Int(i) => i.to_string(),
            V::Float(t) => t.clone(),
            V::Str(s) => serde_json::to_string(s).unwrap(),
            V::Bool(b) => b.to_string(),
            V::Enum(e) => e.clone(),
            V::List(xs) => format!("[{}]", xs.iter().map(|x| x.text()).collect::<Vec<_>>().join(", ")),
            V::Obj(fs) => format!("{{{}}}", fs.iter().map(|(k, v)| format!("{k}: {}", v.text())).collect::<Vec<_>>().join(", ")),
        }
    }
    /// request-side value (variables, as decoded from JSON)
    fn to_avalue(&self) -> AValue {
        match self {
            V::Var(_) => AValue::Null,
            V::Null => AValue::Null,
            V::Int(i) => AValue::Number((*i).into()),
            V::Float(t) => AValue::Number(serde_json::Number::from_f64(t.parse().unwrap()).unwrap()),
            V::Str(s) => AValue::String(s.clone()),
            V::Bool(b) => AValue::Boolean(*b),
            V::Enum(e) => AValue::Enum(async_graphql::Name::new(e)),
            V::List(xs) => AValue::List(xs.iter().map(|x| x.to_avalue()).collect()),
            V::Obj(fs) => AValue::Object(fs.iter().map(|(k, v)| (async_graphql::Name::new(k), v.to_avalue())).collect()),
        }
    }
}

fn const_to_v(v: &async_graphql_value::ConstValue) -> V {
    use async_graphql_value::ConstValue as CV;
    match v {
        CV::Null => V::Null,
        CV::Number(n) => n.as_i64().map(V::Int).unwrap_or_else(|| V::Float(float_token(n.as_f64().unwrap()))),
        CV::String(s) => V::Str(s.clone()),
        CV::Boolean(b) => V::Bool(*b),
        CV::Enum(e) => V::Enum(e.to_string()),
        CV::List(xs) => V::List(xs.iter().map(const_to_v).collect()),
        CV::Object(m) => V::Obj(m.iter().map(|(k, v)| (k.to_string(), const_to_v(v))).collect()),
        CV::Binary(_) => V::Null,
    }
}

/// a Rust value as seen by a resolver (leafs through `to_value`)
fn leaf_echo(v: AValue) -> Sexp {
    match v {
        AValue::Null => atom("null"),
        AValue::Number(n) => {
            if let Some(i) = n.as_i64() {
                num(i)
            } else if let Some(u) = n.as_u64() {
                num(u)
            } else {
                node("f", vec![st(float_token(n.as_f64().unwrap()))])
            }
        }
        AValue::String(s) => st(s),
        AValue::Boolean(b) => atom(if b { "true" } else { "false" }),
        AValue::Enum(e) => node("e", vec![st(e.to_string())]),
        AValue::Binary(_) => atom("binary"),
        AValue::List(xs) => node("list", xs.into_iter().map(leaf_echo).collect()),
        AValue::Object(m) => node("obj", m.into_iter().map(|(k, v)| list(vec![st(k.to_string()), leaf_echo(v)])).collect()),
    }
}

// ------------------------------------------------------------------ types

#[derive(Clone, Debug, PartialEq)]
enum TR {
    Named(String),
    List(Box<TR>),
    NonNull(Box<TR>),
}
impl TR {
    fn to_sexp(&self) -> Sexp {
        match self {
            TR::Named(n) => st(n.clone()),
            TR::List(t) => node("list", vec![t.to_sexp()]),
            TR::NonNull(t) => node("nn", vec![t.to_sexp()]),
        }
    }
    fn text(&self) -> String {
        match self {
            TR::Named(n) => n.clone(),
            TR::List(t) => format!("[{}]", t.text()),
            TR::NonNull(t) => format!("{}!", t.text()),
        }
    }
    fn from_ast(t: &pt::Type) -> TR {
        let b = match &t.base {
            pt::BaseType::Named(n) => TR::Named(n.to_string()),
            pt::BaseType::List(inner) => TR::List(Box::new(TR::from_ast(inner))),
        };
        if t.nullable { b } else { TR::NonNull(Box::new(b)) }
    }
    fn is_nn(&self) -> bool {
        matches!(self, TR::NonNull(_))
    }
    fn nullable(&self) -> &TR {
        match self {
            TR::NonNull(t) => t,
            t => t,
        }
    }
    fn base(&self) -> &str {
        match self {
            TR::Named(n) => n,
            TR::List(t) | TR::NonNull(t) => t.base(),
        }
    }
}

/// Rust-side type of an argument or input field
#[derive(Clone, Debug, PartialEq)]
enum RTy {
    N(String),
    Opt(Box<RTy>),
    Mu(Box<RTy>),
    Vec(Box<RTy>),
}
impl RTy {
    /// "opt vec Int" = Option<Vec<i32>>
    fn p(s: &str) -> RTy {
        let ws: Vec<&str> = s.split_whitespace().collect();
        let mut t = RTy::N(ws[ws.len() - 1].to_string());
        for w in ws[..ws.len() - 1].iter().rev() {
            t = match *w {
                "opt" => RTy::Opt(Box::new(t)),
                "mu" => RTy::Mu(Box::new(t)),
                "vec" => RTy::Vec(Box::new(t)),
                _ => panic!("bad rty {s}"),
            };
        }
        t
    }
    fn gql(&self) -> TR {
        match self {
            RTy::N(n) => TR::NonNull(Box::new(TR::Named(n.clone()))),
            RTy::Opt(t) | RTy::Mu(t) => t.gql().nullable().clone(),
            RTy::Vec(t) => TR::NonNull(Box::new(TR::List(Box::new(t.gql())))),
        }
    }
    fn to_sexp(&self) -> Sexp {
        match self {
            RTy::N(n) => st(n.clone()),
            RTy::Opt(t) => node("opt", vec![t.to_sexp()]),
            RTy::Mu(t) => node("mu", vec![t.to_sexp()]),
            RTy::Vec(t) => node("vec", vec![t.to_sexp()]),
        }
    }
}

#[derive(Clone, Debug)]
struct ArgT {
    name: String,
    ty: RTy,
    default: Option<V>,
}
#[derive(Clone, Debug)]
enum NDef {
    Scalar,
    Enum(Vec<String>),
    Input { oneof: bool, fields: Vec<ArgT> },
}
#[derive(Clone, Debug)]
struct FieldT {
    name: String,
    args: Vec<ArgT>,
}
#[derive(Clone, Debug)]
struct Table {
    types: Vec<(String, NDef)>,
    fields: Vec<FieldT>,
}

fn a(name: &str, ty: &str, default: Option<V>) -> ArgT {
    ArgT { name: name.into(), ty: RTy::p(ty), default }
}
fn ints(xs: &[i64]) -> V {
    V::List(xs.iter().map(|i| V::Int(*i)).collect())
}

impl Table {
    fn is_input(&self, n: &str) -> bool {
        self.types.iter().any(|t| t.0 == n && matches!(t.1, NDef::Input { .. }))
    }
    fn find(&self, n: &str) -> &NDef {
        &self.types.iter().find(|t| t.0 == n).unwrap_or_else(|| panic!("type {n}")).1
    }
    fn args_sexp(args: &[ArgT]) -> Sexp {
        list(
            args.iter()
                .map(|x| {
                    node(
                        "a",
                        vec![
                            st(x.name.clone()),
                            x.ty.to_sexp(),
                            match &x.default {
                                Some(d) => node("some", vec![d.to_sexp()]),
                                None => atom("none"),
                            },
                        ],
                    )
                })
                .collect(),
        )
    }
    fn to_sexp(&self) -> Sexp {
        node(
            "table",
            vec![
                list(
                    self.types
                        .iter()
                        .map(|(n, d)| match d {
                            NDef::Scalar => node("scalar", vec![st(n.clone())]),
                            NDef::Enum(vs) => node("enum", vec![st(n.clone()), list(vs.iter().map(|v| st(v.clone())).collect())]),
                            NDef::Input { oneof, fields } => node(
                                "input",
                                vec![st(n.clone()), atom(if *oneof { "true" } else { "false" }), Table::args_sexp(fields)],
                            ),
                        })
                        .collect(),
                ),
                list(self.fields.iter().map(|f| node("fd", vec![st(f.name.clone()), Table::args_sexp(&f.args)])).collect()),
            ],
        )
    }
}

/// The argument type table: what the resolvers below declare (Rust types), written by hand and
/// checked against the SDL export of the real registry by `cross_check`.
fn table() -> Table {
    let scalars = ["Int", "Float", "String", "Boolean", "ID"];
    let mut types: Vec<(String, NDef)> = scalars.iter().map(|s| (s.to_string(), NDef::Scalar)).collect();
    types.push(("Color".into(), NDef::Enum(vec!["RED".into(), "GREEN".into(), "BLUE".into()])));
    types.push((
        "Inner".into(),
        NDef::Input {
            oneof: false,
            fields: vec![
                a("a", "Int", None),
                a("b", "Int", Some(V::Int(5))),
                a("c", "opt String", None),
                a("d", "mu Int", None),
                a("e", "vec Int", Some(ints(&[1, 2]))),
            ],
        },
    ));
    types.push((
        "Outer".into(),
        NDef::Input {
            oneof: false,
            fields: vec![
                a("inner", "Inner", None),
                a("oi", "opt Inner", None),
                a("col", "Color", Some(V::Enum("GREEN".into()))),
                a("xs", "opt vec opt Int", None),
                a("mu", "mu Inner", None),
                a("ids", "vec ID", None),
                a("ys", "vec opt Int", None),
            ],
        },
    ));
    types.push((
        "Pick".into(),
        NDef::Input {
            oneof: true,
            fields: vec![a("a", "opt Int", None), a("s", "opt String", None), a("inn", "opt Inner", None), a("l", "opt vec Int", None)],
        },
    ));
    // a oneof object below a struct, beside nullable siblings (a variable without runtime value
    // in `tag`/`n` makes ArgumentsOfCorrectType skip the whole argument)
    types.push((
        "Tagged".into(),
        NDef::Input {
            oneof: false,
            fields: vec![a("pick", "Pick", None), a("tag", "opt String", None), a("picks", "opt vec Pick", None), a("n", "mu Int", None)],
        },
    ));
    let f = |name: &str, args: Vec<ArgT>| FieldT { name: name.into(), args };
    let fields = vec![
        f("fInt", vec![a("x", "Int", None)]),
        f("fIntD", vec![a("x", "Int", Some(V::Int(7)))]),
        f("fOptInt", vec![a("x", "opt Int", None)]),
        f("fOptIntD", vec![a("x", "opt Int", Some(V::Int(3)))]),
        f("fMuInt", vec![a("x", "mu Int", None)]),
        f("fStr", vec![a("x", "String", None)]),
        f("fBool", vec![a("x", "opt Boolean", None)]),
        f("fId", vec![a("x", "ID", None)]),
        f("fFloat", vec![a("x", "Float", None)]),
        f("fEnum", vec![a("x", "Color", None)]),
        f("fEnumD", vec![a("x", "Color", Some(V::Enum("BLUE".into())))]),
        f("fList", vec![a("xs", "vec Int", None)]),
        f("fListOpt", vec![a("xs", "opt vec opt Int", None)]),
        f("fListD", vec![a("xs", "vec opt Int", Some(V::List(vec![V::Int(1), V::Null])))]),
        f("fNested", vec![a("xs", "vec vec Int", None)]),
        f("fNestedOpt", vec![a("xs", "opt vec opt vec opt Int", None)]),
        f("fEnumList", vec![a("xs", "opt vec Color", None)]),
        f("fMuList", vec![a("xs", "mu vec Int", None)]),
        f("fInner", vec![a("o", "Inner", None)]),
        f("fInnerOpt", vec![a("o", "opt Inner", None)]),
        f("fOuter", vec![a("o", "Outer", None)]),
        f("fInnerList", vec![a("os", "vec Inner", None)]),
        f("fPick", vec![a("p", "Pick", None)]),
        f("fPickOpt", vec![a("p", "opt Pick", None)]),
        f("fPickList", vec![a("ps", "vec Pick", None)]),
        f("fThree", vec![a("x", "Int", Some(V::Int(1))), a("y", "opt String", None), a("z", "mu Boolean", None)]),
        f("fTagged", vec![a("o", "Tagged", None)]),
    ];
    Table { types, fields }
}

// ------------------------------------------------------------------ the static schema (derive macros)

type Log = Arc<Mutex<Vec<(String, Sexp)>>>;

trait Echo {
    fn echo(&self) -> Sexp;
}
macro_rules! leaf_echo_impl {
    ($($t:ty),*) => { $( impl Echo for $t { fn echo(&self) -> Sexp { leaf_echo(InputType::to_value(self)) } } )* };
}
leaf_echo_impl!(i32, f64, String, bool, ID, Color);
impl<T: Echo> Echo for Option<T> {
    fn echo(&self) -> Sexp {
        match self {
            Some(x) => x.echo(),
            None => atom("null"),
        }
    }
}
impl<T: Echo> Echo for MaybeUndefined<T> {
    fn echo(&self) -> Sexp {
        match self {
            MaybeUndefined::Undefined => atom("undef"),
            MaybeUndefined::Null => atom("null"),
            MaybeUndefined::Value(x) => x.echo(),
        }
    }
}
impl<T: Echo> Echo for Vec<T> {
    fn echo(&self) -> Sexp {
        node("list", self.iter().map(|x| x.echo()).collect())
    }
}
fn obj_echo(fs: Vec<(&str, Sexp)>) -> Sexp {
    node("obj", fs.into_iter().map(|(k, v)| list(vec![st(k), v])).collect())
}

#[derive(Enum, Copy, Clone, Eq, PartialEq)]
enum Color {
    Red,
    Green,
    Blue,
}

#[derive(InputObject)]
struct Inner {
    a: i32,
    #[graphql(default = 5)]
    b: i32,
    c: Option<String>,
    d: MaybeUndefined<i32>,
    #[graphql(default_with = "vec![1, 2]")]
    e: Vec<i32>,
}
impl Echo for Inner {
    fn echo(&self) -> Sexp {
        obj_echo(vec![("a", self.a.echo()), ("b", self.b.echo()), ("c", self.c.echo()), ("d", self.d.echo()), ("e", self.e.echo())])
    }
}

#[derive(InputObject)]
struct Outer {
    inner: Inner,
    oi: Option<Inner>,
    #[graphql(default_with = "Color::Green")]
    col: Color,
    xs: Option<Vec<Option<i32>>>,
    mu: MaybeUndefined<Inner>,
    ids: Vec<ID>,
    ys: Vec<Option<i32>>,
}
impl Echo for Outer {
    fn echo(&self) -> Sexp {
        obj_echo(vec![
            ("inner", self.inner.echo()),
            ("oi", self.oi.echo()),
            ("col", self.col.echo()),
            ("xs", self.xs.echo()),
            ("mu", self.mu.echo()),
            ("ids", self.ids.echo()),
            ("ys", self.ys.echo()),
        ])
    }
}

#[derive(OneofObject)]
enum Pick {
    A(i32),
    S(String),
    Inn(Inner),
    L(Vec<i32>),
}
impl Echo for Pick {
    fn echo(&self) -> Sexp {
        match self {
            Pick::A(x) => obj_echo(vec![("a", x.echo())]),
            Pick::S(x) => obj_echo(vec![("s", x.echo())]),
            Pick::Inn(x) => obj_echo(vec![("inn", x.echo())]),
            Pick::L(x) => obj_echo(vec![("l", x.echo())]),
        }
    }
}

#[derive(InputObject)]
struct Tagged {
    pick: Pick,
    tag: Option<String>,
    picks: Option<Vec<Pick>>,
    n: MaybeUndefined<i32>,
}
impl Echo for Tagged {
    fn echo(&self) -> Sexp {
        obj_echo(vec![("pick", self.pick.echo()), ("tag", self.tag.echo()), ("picks", self.picks.echo()), ("n", self.n.echo())])
    }
}

fn rec(ctx: &Context<'_>, args: Vec<(&str, Sexp)>) -> Option<bool> {
    let key = ctx.field().alias().unwrap_or(ctx.field().name()).to_string();
    let log = ctx.data_unchecked::<Log>();
    log.lock().unwrap().push((key, node("seen", args.into_iter().map(|(k, v)| list(vec![st(k), v])).collect())));
    Some(true)
}

struct Query;

#[Object]
impl Query {
    async fn f_int(&self, ctx: &Context<'_>, x: i32) -> Option<bool> {
        rec(ctx, vec![("x", x.echo())])
    }
    async fn f_int_d(&self, ctx: &Context<'_>, #[graphql(default = 7)] x: i32) -> Option<bool> {
        rec(ctx, vec![("x", x.echo())])
    }
    async fn f_opt_int(&self, ctx: &Context<'_>, x: Option<i32>) -> Option<bool> {
        rec(ctx, vec![("x", x.echo())])
    }
    async fn f_opt_int_d(&self, ctx: &Context<'_>, #[graphql(default_with = "Some(3)")] x: Option<i32>) -> Option<bool> {
        rec(ctx, vec![("x", x.echo())])
    }
    async fn f_mu_int(&self, ctx: &Context<'_>, x: MaybeUndefined<i32>) -> Option<bool> {
        rec(ctx, vec![("x", x.echo())])
    }
    async fn f_str(&self, ctx: &Context<'_>, x: String) -> Option<bool> {
        rec(ctx, vec![("x", x.echo())])
    }
    async fn f_bool(&self, ctx: &Context<'_>, x: Option<bool>) -> Option<bool> {
        rec(ctx, vec![("x", x.echo())])
    }
    async fn f_id(&self, ctx: &Context<'_>, x: ID) -> Option<bool> {
        rec(ctx, vec![("x", x.echo())])
    }
    async fn f_float(&self, ctx: &Context<'_>, x: f64) -> Option<bool> {
        rec(ctx, vec![("x", x.echo())])
    }
    async fn f_enum(&self, ctx: &Context<'_>, x: Color) -> Option<bool> {
        rec(ctx, vec![("x", x.echo())])
    }
    async fn f_enum_d(&self, ctx: &Context<'_>, #[graphql(default_with = "Color::Blue")] x: Color) -> Option<bool> {
        rec(ctx, vec![("x", x.echo())])
    }
    async fn f_list(&self, ctx: &Context<'_>, xs: Vec<i32>) -> Option<bool> {
        rec(ctx, vec![("xs", xs.echo())])
    }
    async fn f_list_opt(&self, ctx: &Context<'_>, xs: Option<Vec<Option<i32>>>) -> Option<bool> {
        rec(ctx, vec![("xs", xs.echo())])
    }
    async fn f_list_d(&self, ctx: &Context<'_>, #[graphql(default_with = "vec![Some(1), None]")] xs: Vec<Option<i32>>) -> Option<bool> {
        rec(ctx, vec![("xs", xs.echo())])
    }
    async fn f_nested(&self, ctx: &Context<'_>, xs: Vec<Vec<i32>>) -> Option<bool> {
        rec(ctx, vec![("xs", xs.echo())])
    }
    async fn f_nested_opt(&self, ctx: &Context<'_>, xs: Option<Vec<Option<Vec<Option<i32>>>>>) -> Option<bool> {
        rec(ctx, vec![("xs", xs.echo())])
    }
    async fn f_enum_list(&self, ctx: &Context<'_>, xs: Option<Vec<Color>>) -> Option<bool> {
        rec(ctx, vec![("xs", xs.echo())])
    }
    async fn f_mu_list(&self, ctx: &Context<'_>, xs: MaybeUndefined<Vec<i32>>) -> Option<bool> {
        rec(ctx, vec![("xs", xs.echo())])
    }
    async fn f_inner(&self, ctx: &Context<'_>, o: Inner) -> Option<bool> {
        rec(ctx, vec![("o", o.echo())])
    }
    async fn f_inner_opt(&self, ctx: &Context<'_>, o: Option<Inner>) -> Option<bool> {
        rec(ctx, vec![("o", o.echo())])
    }
    async fn f_outer(&self, ctx: &Context<'_>, o: Outer) -> Option<bool> {
        rec(ctx, vec![("o", o.echo())])
    }
    async fn f_inner_list(&self, ctx: &Context<'_>, os: Vec<Inner>) -> Option<bool> {
        rec(ctx, vec![("os", os.echo())])
    }
    async fn f_pick(&self, ctx: &Context<'_>, p: Pick) -> Option<bool> {
        rec(ctx, vec![("p", p.echo())])
    }
    async fn f_pick_opt(&self, ctx: &Context<'_>, p: Option<Pick>) -> Option<bool> {
        rec(ctx, vec![("p", p.echo())])
    }
    async fn f_pick_list(&self, ctx: &Context<'_>, ps: Vec<Pick>) -> Option<bool> {
        rec(ctx, vec![("ps", ps.echo())])
    }
    async fn f_three(
        &self,
        ctx: &Context<'_>,
        #[graphql(default = 1)] x: i32,
        y: Option<String>,
        z: MaybeUndefined<bool>,
    ) -> Option<bool> {
        rec(ctx, vec![("x", x.echo()), ("y", y.echo()), ("z", z.echo())])
    }
    async fn f_tagged(&self, ctx: &Context<'_>, o: Tagged) -> Option<bool> {
        rec(ctx, vec![("o", o.echo())])
    }
}

type StaticSchema = Schema<Query, EmptyMutation, EmptySubscription>;
fn build_static(fast: bool) -> StaticSchema {
    let b = Schema::build(Query, EmptyMutation, EmptySubscription);
    if fast { b.validation_mode(ValidationMode::Fast).finish() } else { b.finish() }
}

// ------------------------------------------------------------------ the dynamic schema (same SDL, built from the table)

fn dyn_tref(t: &TR) -> dynamic::TypeRef {
    fn go(t: &TR) -> dynamic::TypeRef {
        match t {
            TR::Named(n) => dynamic::TypeRef::named(n.clone()),
            TR::List(i) => dynamic::TypeRef::List(Box::new(go(i))),
            TR::NonNull(i) => dynamic::TypeRef::NonNull(Box::new(go(i))),
        }
    }
    go(t)
}

fn build_dynamic(t: &Table, fast: bool) -> dynamic::Schema {
    let mut q = dynamic::Object::new("Query");
    for f in &t.fields {
        let arg_names: Vec<String> = f.args.iter().map(|x| x.name.clone()).collect();
        let mut fd = dynamic::Field::new(f.name.clone(), dynamic::TypeRef::named(dynamic::TypeRef::BOOLEAN), move |ctx| {
            let arg_names = arg_names.clone();
            dynamic::FieldFuture::new(async move {
                let key = ctx.ctx.field().alias().unwrap_or(ctx.ctx.field().name()).to_string();
                // what a dynamic resolver can observe: presence and the raw value of each argument
                let seen = arg_names
                    .iter()
                    .map(|n| {
                        let v = match ctx.args.get(n) {
                            Some(acc) => leaf_echo(acc.as_value().clone()),
                            None => atom("undef"),
                        };
                        list(vec![st(n.clone()), v])
                    })
                    .collect();
                ctx.ctx.data_unchecked::<Log>().lock().unwrap().push((key, node("seen", seen)));
                Ok(Some(AValue::Boolean(true)))
            })
        });
        for x in &f.args {
            let mut iv = dynamic::InputValue::new(x.name.clone(), dyn_tref(&x.ty.gql()));
            if let Some(d) = &x.default {
                iv = iv.default_value(d.to_avalue());
            }
            fd = fd.argument(iv);
        }
        q = q.field(fd);
    }
    let mut sb = dynamic::Schema::build("Query", None, None).register(q);
    if fast {
        sb = sb.validation_mode(ValidationMode::Fast);
    }
    for (n, d) in &t.types {
        match d {
            NDef::Scalar => {}
            NDef::Enum(vs) => {
                let mut e = dynamic::Enum::new(n.clone());
                for v in vs {
                    e = e.item(v.clone());
                }
                sb = sb.register(e);
            }
            NDef::Input { oneof, fields } => {
                let mut io = dynamic::InputObject::new(n.clone());
                if *oneof {
                    io = io.oneof();
                }
                for x in fields {
                    let mut iv = dynamic::InputValue::new(x.name.clone(), dyn_tref(&x.ty.gql()));
                    if let Some(d) = &x.default {
                        iv = iv.default_value(d.to_avalue());
                    }
                    io = io.field(iv);
                }
                sb = sb.register(io);
            }
        }
    }
    sb.finish().expect("dynamic schema")
}

// ------------------------------------------------------------------ table ↔ SDL

fn cross_check(t: &Table, sdl: &str, what: &str) {
    let doc = parse_schema(sdl).unwrap_or_else(|e| panic!("{what} SDL does not parse: {e}"));
    let check_args = |owner: &str, decl: &[ArgT], got: Vec<(String, TR, Option<V>)>| {
        let want: Vec<(String, TR, Option<V>)> = decl.iter().map(|x| (x.name.clone(), x.ty.gql(), x.default.clone())).collect();
        assert!(want == got, "{what}: table and SDL disagree on {owner}:\n table {want:?}\n sdl   {got:?}");
    };
    let mut seen = 0;
    for def in &doc.definitions {
        if let pt::TypeSystemDefinition::Type(td) = def {
            let name = td.node.name.node.to_string();
            let ivs = |xs: &[async_graphql::Positioned<pt::InputValueDefinition>]| {
                xs.iter()
                    .map(|x| (x.node.name.node.to_string(), TR::from_ast(&x.node.ty.node), x.node.default_value.as_ref().map(|d| const_to_v(&d.node))))
                    .collect::<Vec<_>>()
            };
            match &td.node.kind {
                pt::TypeKind::Object(o) if name == "Query" => {
                    let names: Vec<String> = o.fields.iter().map(|f| f.node.name.node.to_string()).collect();
                    let want: Vec<String> = t.fields.iter().map(|f| f.name.clone()).collect();
                    assert!(names == want, "{what}: Query fields {names:?} vs table {want:?}");
                    for (f, ft) in o.fields.iter().zip(&t.fields) {
                        check_args(&ft.name, &ft.args, ivs(&f.node.arguments));
                    }
                    seen += 1;
                }
                pt::TypeKind::Enum(e) => {
                    let vs: Vec<String> = e.values.iter().map(|v| v.node.value.node.to_string()).collect();
                    match t.find(&name) {
                        NDef::Enum(w) => assert!(*w == vs, "{what}: enum {name}"),
                        _ => panic!("{what}: {name} is not an enum in the table"),
                    }
                    seen += 1;
                }
                pt::TypeKind::InputObject(io) => {
                    let is_oneof = td.node.directives.iter().any(|d| d.node.name.node == "oneOf");
                    match t.find(&name) {
                        NDef::Input { oneof, fields } => {
                            assert!(*oneof == is_oneof, "{what}: oneOf flag of {name}");
                            check_args(&name, fields, ivs(&io.fields));
                        }
                        _ => panic!("{what}: {name} is not an input object in the table"),
                    }
                    seen += 1;
                }
                _ => {}
            }
        }
    }
    let want = 1 + t.types.iter().filter(|x| !matches!(x.1, NDef::Scalar)).count();
    assert!(seen == want, "{what}: SDL defines {seen} of the {want} table types");
}

// ------------------------------------------------------------------ generator

#[derive(Clone, Copy, PartialEq)]
enum Mode {
    /// document literal; variables allowed inside
    Lit(bool),
    /// JSON value of a variable (enums are strings)
    Json,
}

struct VarN {
    name: String,
    ty: TR,
    default: Option<V>,
}

struct G<'a> {
    rng: &'a mut Rng,
    t: &'a Table,
    dist: &'a mut Dist,
    vardefs: Vec<VarN>,
    vars: Vec<(String, V)>,
    badvars: bool,
    /// put variables WITHOUT runtime value (nullable, no default, not supplied) at nullable
    /// positions of the literal being generated
    want_hole: bool,
    holes: usize,
}

const INTS: [i64; 9] = [0, 1, -1, 7, 42, -300, 2147483647, -2147483648, 65536];
const FLOATS: [&str; 5] = ["0.5", "-1.25", "3.0", "1e+21", "2.5e-8"];
const STRS: [&str; 5] = ["", "a", "RED", "x y", "5"];

impl<'a> G<'a> {
    fn strengthen(&mut self, t: &TR) -> TR {
        match t {
            TR::NonNull(i) => TR::NonNull(Box::new(self.strengthen_inner(i))),
            other => {
                let s = self.strengthen_inner(other);
                if self.rng.chance(1, 4) { TR::NonNull(Box::new(s)) } else { s }
            }
        }
    }
    fn strengthen_inner(&mut self, t: &TR) -> TR {
        match t {
            TR::List(i) => TR::List(Box::new(self.strengthen(i))),
            other => other.clone(),
        }
    }

    /// a variable usable at a position of type `loc` (VariablesInAllowedPosition, spec §5.8.5)
    fn new_var(&mut self, loc: &TR, loc_has_default: bool) -> V {
        let name = format!("v{}", self.vardefs.len());
        let mut need_nn_default = false;
        let ty = if loc.is_nn() && (loc_has_default || self.rng.chance(1, 5)) && self.rng.chance(2, 3) {
            need_nn_default = !loc_has_default;
            self.strengthen_inner(loc.nullable())
        } else {
            self.strengthen(loc)
        };
        let default = if need_nn_default {
            Some(self.val_nn(ty.nullable(), Mode::Lit(false), 0))
        } else if !ty.is_nn() && self.rng.chance(1, 3) {
            Some(self.val(&ty, Mode::Lit(false), 0))
        } else if ty.is_nn() && self.rng.chance(1, 8) {
            Some(self.val(&ty, Mode::Lit(false), 0))
        } else {
            None
        };
        self.dist.hit(if default.is_some() { "var_with_default" } else { "var_without_default" });
        // how the value is supplied
        let roll = self.rng.below(100);
        if self.badvars && self.rng.chance(2, 5) {
            let v = self.bad_json(&ty);
            self.dist.hit("var_supplied_bad");
            self.vars.push((name.clone(), v));
        } else if roll < 55 {
            let v = self.val(&ty, Mode::Json, 0);
            self.dist.hit(if v == V::Null { "var_supplied_null" } else { "var_supplied_value" });
            self.vars.push((name.clone(), v));
        } else if roll < 70 && !ty.is_nn() {
            self.dist.hit("var_supplied_null");
            self.vars.push((name.clone(), V::Null));
        } else if !ty.is_nn() || default.is_some() || roll >= 94 {
            // omitted (a required variable without default only rarely: that is a client error)
            self.dist.hit(if ty.is_nn() && default.is_none() { "var_omitted_required" } else { "var_omitted" });
        } else {
            let v = self.val(&ty, Mode::Json, 0);
            self.dist.hit("var_supplied_value");
            self.vars.push((name.clone(), v));
        }
        self.vardefs.push(VarN { name: name.clone(), ty, default });
        V::Var(name)
    }

    /// a variable without runtime value: nullable type, no default, not supplied.  Inside an
    /// argument literal it makes ArgumentsOfCorrectType skip the whole argument (`into_const_with`
    /// fails), so whatever else the literal holds is checked by the executor's `parse` only.
    fn hole_var(&mut self, loc: &TR) -> V {
        let name = format!("v{}", self.vardefs.len());
        let ty = self.strengthen_inner(loc.nullable());
        self.dist.hit("var_hole");
        self.dist.hit("var_without_default");
        self.dist.hit("var_omitted");
        self.vardefs.push(VarN { name: name.clone(), ty, default: None });
        self.holes += 1;
        V::Var(name)
    }

    /// a value that is NOT a value of the leaf type `n` (scalar or enum); no list unless `lists`
    fn bad_leaf(&mut self, n: &str, m: Mode, lists: bool) -> V {
        let s = |x: &str| V::Str(x.into());
        let e = |x: &str| V::Enum(x.into());
        let f = |x: &str| V::Float(x.into());
        let mut c: Vec<V> = match n {
            "Int" => vec![s("7"), V::Bool(true), f("1.5"), f("3.0"), V::Int(2147483648), V::Int(-2147483649), V::Int(4294967296), e("RED")],
            "Float" => vec![s("1.5"), V::Bool(false), e("RED")],
            "String" => vec![V::Int(5), V::Bool(true), e("RED"), f("1.5")],
            "Boolean" => vec![V::Int(1), s("true"), e("YES")],
            "ID" => vec![V::Bool(true), f("1.5"), e("RED")],
            // an enum: unknown names, other kinds (a string NAMING a value is accepted by the library
            // also in a document literal, where the specification wants an enum token: not generated)
            _ => vec![e("PURPLE"), e("red"), s("PURPLE"), V::Int(0), V::Bool(true), f("1.5")],
        };
        if m == Mode::Json {
            c.retain(|v| !matches!(v, V::Enum(_)));
        }
        c.push(V::Obj(vec![]));
        c.push(V::Obj(vec![("a".into(), V::Int(1))]));
        if lists {
            c.push(V::List(vec![V::Obj(vec![])]));
        }
        self.rng.pick(&c).clone()
    }

    /// A value that is NOT a value of type `t`, type-directed and malformed in (at least) one
    /// place at any depth — the rest around it is well-formed and may hold variables (`m`):
    /// oneof objects with 0, 2, 3 members, a null member, an unknown member; input objects with
    /// an unknown key, a missing required field, a non-object; wrong leaf kinds, unknown enum
    /// values, out-of-range integers; lists with a wrong element, an object where a list of
    /// scalars is expected; null at non-null positions.  `lists` = a list value may be produced
    /// (false below a list type taken as its single item: `[]` would be a valid list there).
    fn bad(&mut self, t: &TR, m: Mode, depth: usize, lists: bool) -> V {
        if t.is_nn() && self.rng.chance(1, 8) {
            self.dist.hit("bad_null_at_non_null");
            return V::Null;
        }
        match t.nullable() {
            TR::NonNull(_) => unreachable!(),
            TR::List(i) => {
                let base_is_input = self.t.is_input(i.base());
                let roll = self.rng.below(10);
                if roll < 5 && lists {
                    self.dist.hit("bad_list_element");
                    let n = self.rng.below(3);
                    let mut xs: Vec<V> = (0..n).map(|_| self.pos(i, false, m, depth + 1)).collect();
                    let b = self.bad(i, m, depth + 1, true);
                    let at = self.rng.below(xs.len() + 1);
                    xs.insert(at, b);
                    V::List(xs)
                } else if roll < 8 || base_is_input {
                    self.dist.hit("bad_single_for_list");
                    self.bad(i, m, depth + 1, false)
                } else {
                    self.dist.hit("bad_object_for_list");
                    V::Obj(vec![("a".into(), V::Int(1))])
                }
            }
            TR::Named(n) => match self.t.find(n).clone() {
                NDef::Scalar | NDef::Enum(_) => {
                    self.dist.hit("bad_leaf");
                    self.bad_leaf(n, m, lists)
                }
                NDef::Input { oneof: true, fields } => {
                    let member = |g: &mut Self, f: &ArgT| -> (String, V) {
                        let nn = TR::NonNull(Box::new(f.ty.gql().nullable().clone()));
                        (f.name.clone(), g.pos(&nn, false, m, depth + 1))
                    };
                    let mut fs = fields.clone();
                    self.rng.shuffle(&mut fs);
                    match self.rng.below(9) {
                        0 => {
                            self.dist.hit("bad_oneof_0_members");
                            V::Obj(vec![])
                        }
                        1 | 2 => {
                            self.dist.hit("bad_oneof_2_members");
                            V::Obj(vec![member(self, &fs[0]), member(self, &fs[1])])
                        }
                        3 => {
                            self.dist.hit("bad_oneof_3_members");
                            V::Obj(vec![member(self, &fs[0]), member(self, &fs[1]), member(self, &fs[2])])
                        }
                        4 => {
                            self.dist.hit("bad_oneof_null_member");
                            V::Obj(vec![(fs[0].name.clone(), V::Null)])
                        }
                        5 => {
                            self.dist.hit("bad_oneof_unknown_member");
                            V::Obj(vec![("zz".into(), V::Int(1))])
                        }
                        6 => {
                            self.dist.hit("bad_oneof_known_and_unknown_member");
                            let mut o = vec![member(self, &fs[0]), ("zz".into(), V::Int(1))];
                            if self.rng.chance(1, 2) {
                                o.reverse();
                            }
                            V::Obj(o)
                        }
                        7 => {
                            self.dist.hit("bad_oneof_member_value");
                            let nn = TR::NonNull(Box::new(fs[0].ty.gql().nullable().clone()));
                            V::Obj(vec![(fs[0].name.clone(), self.bad(&nn, m, depth + 1, true))])
                        }
                        _ => {
                            self.dist.hit("bad_non_object_for_oneof");
                            let mut c = vec![V::Int(3), V::Str("a".into()), V::Bool(true)];
                            if lists {
                                c.push(V::List(vec![V::Int(1)]));
                            }
                            self.rng.pick(&c).clone()
                        }
                    }
                }
                NDef::Input { oneof: false, fields } => {
                    // a well-formed object first (all required fields, some optional ones) …
                    let victim = self.rng.below(fields.len());
                    let kind = self.rng.below(10);
                    if kind == 9 {
                        self.dist.hit("bad_non_object_for_input_object");
                        let mut c = vec![V::Int(3), V::Str("a".into()), V::Bool(true), V::Float("1.5".into())];
                        if m != Mode::Json {
                            c.push(V::Enum("RED".into()));
                        }
                        if lists {
                            c.push(V::List(vec![V::Int(1)]));
                        }
                        return self.rng.pick(&c).clone();
                    }
                    let required: Vec<usize> =
                        (0..fields.len()).filter(|k| fields[*k].ty.gql().is_nn() && fields[*k].default.is_none()).collect();
                    let dropped = if (4..6).contains(&kind) && !required.is_empty() { Some(*self.rng.pick(&required)) } else { None };
                    let mut out = vec![];
                    for (k, f) in fields.iter().enumerate() {
                        let ft = f.ty.gql();
                        if dropped == Some(k) {
                            continue;
                        }
                        if kind >= 6 && k == victim {
                            // … one of whose fields holds a malformed value
                            out.push((f.name.clone(), self.bad(&ft, m, depth + 1, true)));
                            continue;
                        }
                        let optional = !ft.is_nn() || f.default.is_some();
                        if optional && (depth > 2 || self.rng.chance(if self.want_hole { 1 } else { 2 }, 5)) {
                            continue;
                        }
                        out.push((f.name.clone(), self.pos(&ft, f.default.is_some(), m, depth + 1)));
                    }
                    if kind < 4 {
                        // … with an undeclared key
                        self.dist.hit("bad_unknown_key");
                        let k = self.rng.pick(&["zz", "zzz", "A", "Inner"]).to_string();
                        let v = self.rng.pick(&[V::Int(1), V::Null, V::Str("x".into()), V::Obj(vec![]), V::List(vec![])]).clone();
                        let at = self.rng.below(out.len() + 1);
                        out.insert(at, (k, v));
                    } else if dropped.is_some() {
                        self.dist.hit("bad_missing_required_field");
                    } else {
                        self.dist.hit("bad_field_value");
                    }
                    V::Obj(out)
                }
            },
        }
    }

    /// a JSON value that is NOT a value of the declared variable type
    fn bad_json(&mut self, t: &TR) -> V {
        if self.rng.chance(1, 2) {
            return self.bad(t, Mode::Json, 0, true);
        }
        match t {
            TR::NonNull(i) => {
                if self.rng.chance(1, 2) {
                    V::Null
                } else {
                    self.bad_json(i)
                }
            }
            TR::List(i) => {
                if i.is_nn() && self.rng.chance(1, 2) {
                    let ok = self.val(i, Mode::Json, 1);
                    V::List(vec![ok, V::Null])
                } else {
                    let b = self.bad_json(i);
                    if self.rng.chance(1, 2) { V::List(vec![b]) } else { b }
                }
            }
            TR::Named(n) => match n.as_str() {
                "Int" => self.rng.pick(&[V::Str("7".into()), V::Bool(true), V::Float("1.5".into()), V::Int(2147483648)]).clone(),
                "Float" => self.rng.pick(&[V::Str("1.5".into()), V::Bool(false)]).clone(),
                "String" => self.rng.pick(&[V::Int(5), V::Bool(true)]).clone(),
                "Boolean" => self.rng.pick(&[V::Int(1), V::Str("true".into())]).clone(),
                "ID" => self.rng.pick(&[V::Bool(true), V::Float("1.5".into())]).clone(),
                "Color" => self.rng.pick(&[V::Str("PURPLE".into()), V::Int(0)]).clone(),
                // a non-object value (scalar, string, list) where an input object is expected:
                // `is_valid_input_value` must refuse it (finding C06-non-object-passes-input-object-validation)
                "Pick" => self.rng.pick(&[V::Obj(vec![]), V::Obj(vec![("a".into(), V::Int(1)), ("s".into(), V::Str("x".into()))]), V::Obj(vec![("a".into(), V::Null)]), V::Int(3), V::Str("a".into()), V::List(vec![])]).clone(),
                _ => self.rng.pick(&[V::Int(3), V::Obj(vec![]), V::Obj(vec![("a".into(), V::Str("x".into()))]), V::Obj(vec![("a".into(), V::Int(1)), ("zz".into(), V::Int(1))]), V::Str("a".into()), V::Bool(true), V::List(vec![]), V::List(vec![V::Int(1)])]).clone(),
            },
        }
    }

    fn val(&mut self, t: &TR, m: Mode, depth: usize) -> V {
        match t {
            TR::NonNull(i) => self.val_nn(i, m, depth),
            other => {
                if self.rng.chance(1, 7) {
                    V::Null
                } else {
                    self.val_nn(other, m, depth)
                }
            }
        }
    }

    /// position-aware: may put a variable here
    fn pos(&mut self, t: &TR, has_default: bool, m: Mode, depth: usize) -> V {
        if m == Mode::Lit(true) && self.want_hole && (!t.is_nn() || has_default) && self.vardefs.len() < 6 && self.rng.chance(1, 2) {
            return self.hole_var(t);
        }
        if m == Mode::Lit(true) && self.vardefs.len() < 4 && self.rng.chance(1, 4) {
            self.dist.hit("nested_variable");
            return self.new_var(t, has_default);
        }
        self.val(t, m, depth)
    }

    fn val_nn(&mut self, t: &TR, m: Mode, depth: usize) -> V {
        match t {
            TR::NonNull(i) => self.val_nn(i, m, depth),
            TR::List(i) => {
                if self.rng.chance(1, 5) {
                    // list coercion: a single value stands for a one-element list
                    self.dist.hit("single_for_list");
                    self.val_nn(i, m, depth + 1)
                } else {
                    let n = if depth > 2 { self.rng.below(2) } else { self.rng.below(4) };
                    V::List((0..n).map(|_| self.pos(i, false, m, depth + 1)).collect())
                }
            }
            TR::Named(n) => match n.as_str() {
                "Int" => V::Int(*self.rng.pick(&INTS)),
                "Float" => {
                    if self.rng.chance(1, 3) {
                        V::Int(self.rng.range(-1000, 1000))
                    } else {
                        V::Float(self.rng.pick(&FLOATS).to_string())
                    }
                }
                "String" => V::Str(self.rng.pick(&STRS).to_string()),
                "Boolean" => V::Bool(self.rng.chance(1, 2)),
                "ID" => {
                    if self.rng.chance(1, 3) {
                        V::Int(self.rng.range(-5, 100000))
                    } else {
                        V::Str(self.rng.pick(&STRS).to_string())
                    }
                }
                _ => match self.t.find(n).clone() {
                    NDef::Enum(vs) => {
                        let v = self.rng.pick(&vs).clone();
                        if m == Mode::Json { V::Str(v) } else { V::Enum(v) }
                    }
                    NDef::Input { oneof: true, fields } => {
                        let f = self.rng.pick(&fields).clone();
                        let ft = f.ty.gql();
                        let nn = TR::NonNull(Box::new(ft.nullable().clone()));
                        V::Obj(vec![(f.name.clone(), self.pos(&nn, false, m, depth + 1))])
                    }
                    NDef::Input { oneof: false, fields } => {
                        let mut out = vec![];
                        for f in &fields {
                            let ft = f.ty.gql();
                            let optional = !ft.is_nn() || f.default.is_some();
                            if optional && (depth > 2 || self.rng.chance(2, 5)) {
                                continue;
                            }
                            out.push((f.name.clone(), self.pos(&ft, f.default.is_some(), m, depth + 1)));
                        }
                        if self.rng.chance(1, 3) {
                            self.rng.shuffle(&mut out);
                        }
                        V::Obj(out)
                    }
                    NDef::Scalar => unreachable!(),
                },
            },
        }
    }
}

fn gen_case(rng: &mut Rng, _i: usize, o: &Opts, dist: &mut Dist) -> Sexp {
    let t = table();
    // the validation mode is a dimension of the case: Strict (default) or Fast
    let fast = rng.chance(2, 5);
    let stream = match (o.stream.starts_with("dynamic"), fast) {
        (false, false) => "static",
        (false, true) => "static-fast",
        (true, false) => "dynamic",
        (true, true) => "dynamic-fast",
    };
    dist.hit(if fast { "mode_fast" } else { "mode_strict" });
    let mut g = G { rng, t: &t, dist, vardefs: vec![], vars: vec![], badvars: o.stream.ends_with("badvars"), want_hole: false, holes: 0 };
    let nf = 1 + g.rng.below(3);
    let mut sels = vec![];
    for k in 0..nf {
        let f = g.rng.pick(&t.fields).clone();
        g.dist.hit(&format!("field_{}", f.name));
        let mut args = vec![];
        for x in &f.args {
            let loc = x.ty.gql();
            let optional = !loc.is_nn() || x.default.is_some();
            let roll = g.rng.below(100);
            // malformed literals, which only the executor's own `InputType::parse` can refuse: in
            // Fast mode anywhere; in Strict mode beside a variable without runtime value (the
            // rule ArgumentsOfCorrectType skips such an argument) — and sometimes without one,
            // where strict validation must refuse the request
            let malform = roll >= 18 && g.rng.chance(if fast { 7 } else { 5 }, 20);
            let v = if optional && roll < 18 {
                g.dist.hit("arg_omitted");
                continue;
            } else if malform {
                let want_hole = if fast { g.rng.chance(1, 4) } else { g.rng.chance(5, 6) };
                let mut tries = 0;
                loop {
                    let (nd, nv, snap) = (g.vardefs.len(), g.vars.len(), g.dist.0.clone());
                    g.want_hole = want_hole;
                    g.holes = 0;
                    let vars_inside = want_hole || g.rng.chance(1, 2);
                    let v = g.bad(&loc, Mode::Lit(vars_inside), 0, true);
                    g.want_hole = false;
                    tries += 1;
                    if want_hole && g.holes == 0 && tries < 8 {
                        g.vardefs.truncate(nd);
                        g.vars.truncate(nv);
                        g.dist.0 = snap;
                        continue;
                    }
                    g.dist.hit(match (fast, g.holes > 0) {
                        (true, true) => "arg_malformed_fast_beside_hole",
                        (true, false) => "arg_malformed_fast",
                        (false, true) => "arg_malformed_strict_beside_hole",
                        (false, false) => "arg_malformed_strict",
                    });
                    break v;
                }
            } else if g.badvars && roll >= 45 && g.t.is_input(loc.base()) && g.rng.chance(1, 4) {
                // an INVALID document: a non-object literal where an input object is expected
                g.dist.hit("arg_literal_non_object_at_input_object");
                g.rng.pick(&[V::Int(5), V::Str("a".into()), V::Bool(false), V::Enum("RED".into()), V::Float("1.5".into()), V::List(vec![]), V::List(vec![V::Int(1)])]).clone()
            } else if roll < 45 {
                g.dist.hit("arg_whole_variable");
                g.new_var(&loc, x.default.is_some())
            } else if roll < 70 {
                g.dist.hit("arg_literal");
                g.val(&loc, Mode::Lit(false), 0)
            } else {
                g.dist.hit("arg_literal_with_variables");
                g.val(&loc, Mode::Lit(true), 0)
            };
            if v == V::Null {
                g.dist.hit("arg_explicit_null");
            }
            args.push((x.name.clone(), v));
        }
        sels.push(node(
            "field",
            vec![
                st(format!("k{k}")),
                st(f.name.clone()),
                list(args.iter().map(|(k, v)| list(vec![st(k.clone()), v.to_sexp()])).collect()),
                list(vec![]),
                list(vec![]),
                list(vec![num(0), num(0)]),
            ],
        ));
    }
    let vardefs = g
        .vardefs
        .iter()
        .map(|v| {
            node(
                "vardef",
                vec![
                    st(v.name.clone()),
                    v.ty.to_sexp(),
                    match &v.default {
                        Some(d) => node("some", vec![d.to_sexp()]),
                        None => atom("none"),
                    },
                ],
            )
        })
        .collect();
    let doc = node(
        "doc",
        vec![list(vec![node("op", vec![atom("query"), atom("none"), list(vardefs), list(vec![]), list(sels)])]), list(vec![])],
    );
    let vars = node("vars", g.vars.iter().map(|(k, v)| list(vec![st(k.clone()), v.to_sexp()])).collect());
    node("case", vec![atom(stream), t.to_sexp(), doc, vars])
}

// ------------------------------------------------------------------ runner

fn doc_text(doc: &Sexp) -> (String, Vec<String>) {
    let op = &doc.args()[0].as_list().unwrap()[0];
    let oa = op.args();
    let mut out = String::from("query");
    let vds = oa[2].as_list().unwrap();
    if !vds.is_empty() {
        let parts: Vec<String> = vds
            .iter()
            .map(|vd| {
                let x = vd.args();
                let ty = tr_from_sexp(&x[1]).text();
                let d = match x[2].tag() {
                    Some("some") => format!(" = {}", V::from_sexp(&x[2].args()[0]).unwrap().text()),
                    _ => String::new(),
                };
                format!("${}: {}{}", x[0].as_str().unwrap(), ty, d)
            })
            .collect();
        out += &format!("({})", parts.join(", "));
    }
    out += " {";
    let mut keys = vec![];
    for s in oa[4].as_list().unwrap() {
        let x = s.args();
        let alias = x[0].as_str().unwrap();
        keys.push(alias.to_string());
        out += &format!(" {}: {}", alias, x[1].as_str().unwrap());
        let args = x[2].as_list().unwrap();
        if !args.is_empty() {
            let parts: Vec<String> = args
                .iter()
                .map(|p| {
                    let l = p.as_list().unwrap();
                    format!("{}: {}", l[0].as_str().unwrap(), V::from_sexp(&l[1]).unwrap().text())
                })
                .collect();
            out += &format!("({})", parts.join(", "));
        }
    }
    out += " }";
    (out, keys)
}

fn tr_from_sexp(s: &Sexp) -> TR {
    match s {
        Sexp::Str(n) => TR::Named(n.clone()),
        _ => match s.tag().unwrap() {
            "list" => TR::List(Box::new(tr_from_sexp(&s.args()[0]))),
            "nn" => TR::NonNull(Box::new(tr_from_sexp(&s.args()[0]))),
            x => panic!("bad type {x}"),
        },
    }
}

thread_local! {
    static STATIC: StaticSchema = build_static(false);
    static DYNAMIC: dynamic::Schema = build_dynamic(&table(), false);
    static STATIC_FAST: StaticSchema = build_static(true);
    static DYNAMIC_FAST: dynamic::Schema = build_dynamic(&table(), true);
    static TABLE_LINE: String = table().to_sexp().to_string();
}

fn run(case: &Sexp, dist: &mut Dist) -> Sexp {
    let a = case.args();
    if TABLE_LINE.with(|t| *t != a[1].to_string()) {
        // a stored case whose table is not the one of the schema that will execute it
        return node("stale-table", vec![]);
    }
    let (text, keys) = doc_text(&a[2]);
    if std::env::var("AGV_DEBUG").is_ok() {
        eprintln!("{text}    {}", a[3]);
    }
    let mut vs = async_graphql::Variables::default();
    for p in a[3].args() {
        let l = p.as_list().unwrap();
        vs.insert(async_graphql::Name::new(l[0].as_str().unwrap()), V::from_sexp(&l[1]).unwrap().to_avalue());
    }
    let log: Log = Arc::new(Mutex::new(vec![]));
    let req = async_graphql::Request::new(text).variables(vs).data(log.clone());
    let resp = match a[0].as_atom().unwrap() {
        "static" => STATIC.with(|s| spin_on(s.execute(req))),
        "dynamic" => DYNAMIC.with(|s| spin_on(s.execute(req))),
        "static-fast" => STATIC_FAST.with(|s| spin_on(s.execute(req))),
        "dynamic-fast" => DYNAMIC_FAST.with(|s| spin_on(s.execute(req))),
        x => panic!("stream {x}"),
    };
    if std::env::var("AGV_DEBUG").is_ok() {
        eprintln!("  {:?}", resp.errors.iter().map(|e| (e.message.clone(), e.path.clone())).collect::<Vec<_>>());
    }
    let status = if resp.errors.is_empty() {
        "ok"
    } else if resp.errors.iter().any(|e| e.path.is_empty()) {
        "reqerr"
    } else {
        "fielderr"
    };
    dist.hit(&format!("status_{status}"));
    let log = log.lock().unwrap();
    let mut out = vec![atom(status)];
    for k in &keys {
        let seen: Vec<&Sexp> = log.iter().filter(|e| &e.0 == k).map(|e| &e.1).collect();
        let errs = resp
            .errors
            .iter()
            .filter(|e| matches!(e.path.first(), Some(async_graphql::PathSegment::Field(f)) if f == k))
            .count();
        let o = match (seen.len(), errs) {
            (1, 0) => seen[0].clone(),
            (0, 0) => atom("none"),
            (0, _) => atom("err"),
            (n, m) => node("odd", vec![num(n), num(m)]),
        };
        dist.hit(match &o {
            Sexp::List(_) => "field_seen",
            Sexp::Atom(x) if x == "err" => "field_err",
            _ => "field_not_invoked",
        });
        out.push(list(vec![st(k.clone()), o]));
    }
    node("out", out)
}

fn main() {
    let t = table();
    cross_check(&t, &build_static(false).sdl(), "static schema");
    cross_check(&t, &build_dynamic(&t, false).sdl(), "dynamic schema");
    cross_check(&t, &build_static(true).sdl(), "static schema (fast)");
    cross_check(&t, &build_dynamic(&t, true).sdl(), "dynamic schema (fast)");
    main_loop(&mut gen_case, &mut run);
}
