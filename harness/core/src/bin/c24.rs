//! C24 — multipart uploads bind files exactly as mapped and respect limits.
//!
//! JSON trees travel as  null | true | false | (i N) | (s "text") | (a J…) | (o ("key" J)…).
//!
//! Case
//!   (mp|one|exec (MFS MNF) (PART…))
//!       mp   → `receive_batch_body`, the decoded requests are printed
//!       one  → `receive_body` (single request only)
//!       exec → `receive_batch_body`, then every request is executed on the echo schema below
//!              (the `query` of the operations part is the echo mutation) and the files are
//!              read back through `Upload::value(ctx)`
//!   MFS, MNF = none | N          `MultipartOptions::max_file_size` / `max_num_files`
//!   PART =
//!     (ops single VARS) | (ops batch VARS…)   operations part, VARS = (o ("key" J)…): the text is
//!                              {"query":Q,"variables":VARS} resp. an array of these (compact JSON)
//!     (opsbad "text")          operations part with this raw text (not a request)
//!     (map ("key" "path"…)…)   map part: JSON object, members in this order
//!     (mapbad "text")          map part with this raw text (not a map of string lists)
//!     (file "name" "filename" none|"content/type" "content")
//!     (field "name" "content") part without filename
//!     (anon "filename" "content") part with filename but without name
//!
//! The body is written in exactly one way (see `build_body`; the Lean driver mirrors the byte
//! count): for every part
//!     --BOUNDARY CRLF Content-Disposition: form-data[; name="N"][; filename="F"] CRLF
//!     [Content-Type: T CRLF] CRLF content CRLF
//! and finally --BOUNDARY-- CRLF.
//!
//! Output
//!   (err KIND) | (single REQ) | (batch REQ…)          REQ = (req VARS (UP…))
//!   VARS canonical tree (keys sorted), UP = (up "filename" none|"ct" "content") in index order
//!   exec: (err KIND) | (single R) | (batch R…)         R = (echo A B CF CL) | (errors)
//!         A, CF = - | UP      B, CL = - | (l A…)

use std::io::{Read, Seek, SeekFrom};

use agvh::*;
use async_graphql::{
    BatchRequest, Context, EmptySubscription, InputObject, Object, ParseRequestError, Request, Schema, Upload,
    UploadValue,
    http::{MultipartOptions, receive_batch_body, receive_body},
};
use futures_util::AsyncReadExt;

const BOUNDARY: &str = "agvZ24ZboundaryZ";
const ECHO_QUERY: &str = "mutation($a: Upload, $b: [Upload], $c: In) { up(a: $a, b: $b, c: $c) }";
const PLAIN_QUERY: &str = "{q}";

// ------------------------------------------------------------------ JSON trees

#[derive(Clone, Debug, PartialEq)]
enum J {
    Null,
    Bool(bool),
    Int(i64),
    Str(String),
    Arr(Vec<J>),
    Obj(Vec<(String, J)>),
}

fn j_to_sexp(j: &J) -> Sexp {
    match j {
        J::Null => atom("null"),
        J::Bool(true) => atom("true"),
        J::Bool(false) => atom("false"),
        J::Int(n) => node("i", vec![num(n)]),
        J::Str(s) => node("s", vec![st(s.clone())]),
        J::Arr(xs) => node("a", xs.iter().map(j_to_sexp).collect()),
        J::Obj(kvs) => node("o", kvs.iter().map(|(k, v)| list(vec![st(k.clone()), j_to_sexp(v)])).collect()),
    }
}

fn j_of_sexp(s: &Sexp) -> Option<J> {
    match s {
        Sexp::Atom(a) => match a.as_str() {
            "null" => Some(J::Null),
            "true" => Some(J::Bool(true)),
            "false" => Some(J::Bool(false)),
            _ => None,
        },
        Sexp::List(_) => match s.tag()? {
            "i" => Some(J::Int(s.args().first()?.as_atom()?.parse().ok()?)),
            "s" => Some(J::Str(s.args().first()?.as_str()?.to_string())),
            "a" => s.args().iter().map(j_of_sexp).collect::<Option<Vec<_>>>().map(J::Arr),
            "o" => s
                .args()
                .iter()
                .map(|p| {
                    let p = p.as_list()?;
                    Some((p.first()?.as_str()?.to_string(), j_of_sexp(p.get(1)?)?))
                })
                .collect::<Option<Vec<_>>>()
                .map(J::Obj),
            _ => None,
        },
        _ => None,
    }
}

/// compact JSON text (members in the given order)
fn j_text(j: &J, out: &mut String) {
    match j {
        J::Null => out.push_str("null"),
        J::Bool(b) => out.push_str(if *b { "true" } else { "false" }),
        J::Int(n) => out.push_str(&n.to_string()),
        J::Str(s) => out.push_str(&serde_json::to_string(s).unwrap()),
        J::Arr(xs) => {
            out.push('[');
            for (i, x) in xs.iter().enumerate() {
                if i > 0 {
                    out.push(',');
                }
                j_text(x, out);
            }
            out.push(']');
        }
        J::Obj(kvs) => {
            out.push('{');
            for (i, (k, v)) in kvs.iter().enumerate() {
                if i > 0 {
                    out.push(',');
                }
                out.push_str(&serde_json::to_string(k).unwrap());
                out.push(':');
                j_text(v, out);
            }
            out.push('}');
        }
    }
}

/// canonical tree of a decoded value: keys sorted
fn canon(v: &serde_json::Value) -> Sexp {
    use serde_json::Value as V;
    match v {
        V::Null => atom("null"),
        V::Bool(true) => atom("true"),
        V::Bool(false) => atom("false"),
        V::Number(n) => node("i", vec![atom(n.to_string())]),
        V::String(s) => node("s", vec![st(s.clone())]),
        V::Array(xs) => node("a", xs.iter().map(canon).collect()),
        V::Object(m) => {
            let mut kv: Vec<(&String, &V)> = m.iter().collect();
            kv.sort_by(|a, b| a.0.chars().cmp(b.0.chars()));
            node("o", kv.into_iter().map(|(k, v)| list(vec![st(k.clone()), canon(v)])).collect())
        }
    }
}

// ------------------------------------------------------------------ the body

struct Field {
    name: Option<String>,
    filename: Option<String>,
    ctype: Option<String>,
    content: Vec<u8>,
}

fn request_text(query: &str, vars: &J) -> String {
    let mut s = String::from("{\"query\":");
    s.push_str(&serde_json::to_string(query).unwrap());
    s.push_str(",\"variables\":");
    j_text(vars, &mut s);
    s.push('}');
    s
}

fn fields_of(parts: &[Sexp], query: &str) -> Option<Vec<Field>> {
    let mut out = vec![];
    for p in parts {
        let a = p.args();
        let s = |i: usize| a.get(i).and_then(|x| x.as_str()).map(|x| x.to_string());
        match p.tag()? {
            "ops" => {
                let vars: Vec<J> = a[1..].iter().map(j_of_sexp).collect::<Option<Vec<_>>>()?;
                let text = match a.first()?.as_atom()? {
                    "single" => request_text(query, vars.first()?),
                    "batch" => {
                        format!("[{}]", vars.iter().map(|v| request_text(query, v)).collect::<Vec<_>>().join(","))
                    }
                    _ => return None,
                };
                out.push(Field { name: Some("operations".into()), filename: None, ctype: None, content: text.into_bytes() })
            }
            "opsbad" => {
                out.push(Field { name: Some("operations".into()), filename: None, ctype: None, content: s(0)?.into_bytes() })
            }
            "map" => {
                let mut members = vec![];
                for m in a {
                    let m = m.as_list()?;
                    let k = m.first()?.as_str()?.to_string();
                    let ps = m[1..].iter().map(|x| x.as_str().map(|x| J::Str(x.to_string()))).collect::<Option<Vec<_>>>()?;
                    members.push((k, J::Arr(ps)));
                }
                let mut text = String::new();
                j_text(&J::Obj(members), &mut text);
                out.push(Field { name: Some("map".into()), filename: None, ctype: None, content: text.into_bytes() })
            }
            "mapbad" => out.push(Field { name: Some("map".into()), filename: None, ctype: None, content: s(0)?.into_bytes() }),
            "file" => {
                let ctype = match a.get(2)? {
                    Sexp::Atom(x) if x == "none" => None,
                    x => Some(x.as_str()?.to_string()),
                };
                out.push(Field { name: Some(s(0)?), filename: Some(s(1)?), ctype, content: s(3)?.into_bytes() })
            }
            "field" => out.push(Field { name: Some(s(0)?), filename: None, ctype: None, content: s(1)?.into_bytes() }),
            "anon" => out.push(Field { name: None, filename: Some(s(0)?), ctype: None, content: s(1)?.into_bytes() }),
            _ => return None,
        }
    }
    Some(out)
}

fn build_body(fields: &[Field]) -> Vec<u8> {
    let mut body: Vec<u8> = vec![];
    for f in fields {
        body.extend_from_slice(format!("--{BOUNDARY}\r\n").as_bytes());
        body.extend_from_slice(b"Content-Disposition: form-data");
        if let Some(n) = &f.name {
            body.extend_from_slice(format!("; name=\"{n}\"").as_bytes());
        }
        if let Some(n) = &f.filename {
            body.extend_from_slice(format!("; filename=\"{n}\"").as_bytes());
        }
        body.extend_from_slice(b"\r\n");
        if let Some(ct) = &f.ctype {
            body.extend_from_slice(format!("Content-Type: {ct}\r\n").as_bytes());
        }
        body.extend_from_slice(b"\r\n");
        body.extend_from_slice(&f.content);
        body.extend_from_slice(b"\r\n");
    }
    body.extend_from_slice(format!("--{BOUNDARY}--\r\n").as_bytes());
    body
}

// ------------------------------------------------------------------ observation

fn err_kind(e: &ParseRequestError) -> &'static str {
    match e {
        ParseRequestError::Io(_) => "io",
        ParseRequestError::InvalidRequest(_) => "invalid-request",
        ParseRequestError::InvalidFilesMap(_) => "invalid-files-map",
        ParseRequestError::InvalidMultipart(_) => "invalid-multipart",
        ParseRequestError::MissingOperatorsPart => "missing-operations",
        ParseRequestError::MissingMapPart => "missing-map",
        ParseRequestError::MissingFiles => "missing-files",
        ParseRequestError::PayloadTooLarge => "too-large",
        ParseRequestError::UnsupportedBatch => "unsupported-batch",
        _ => "other",
    }
}

fn err(k: &str) -> Sexp {
    node("err", vec![atom(k)])
}

fn up_sexp(filename: &str, ctype: &Option<String>, content: &[u8]) -> Sexp {
    node(
        "up",
        vec![
            st(filename.to_string()),
            match ctype {
                None => atom("none"),
                Some(c) => st(c.clone()),
            },
            st(String::from_utf8_lossy(content).into_owned()),
        ],
    )
}

fn upload_sexp(u: &UploadValue) -> Sexp {
    let mut content = vec![];
    let mut f = &u.content;
    f.seek(SeekFrom::Start(0)).expect("seek upload");
    f.read_to_end(&mut content).expect("read upload");
    up_sexp(&u.filename, &u.content_type, &content)
}

fn req_sexp(r: &Request) -> Sexp {
    let vars = serde_json::to_value(&r.variables).expect("variables to json");
    node("req", vec![canon(&vars), list(r.uploads.iter().map(upload_sexp).collect())])
}

// ------------------------------------------------------------------ echo schema (exec cases)

#[derive(InputObject)]
struct In {
    f: Option<Upload>,
    l: Option<Vec<Option<Upload>>>,
}

struct Query;
#[Object]
impl Query {
    async fn q(&self) -> i32 {
        0
    }
}

async fn echo_one(ctx: &Context<'_>, u: Option<Upload>) -> Sexp {
    match u {
        None => atom("-"),
        Some(u) => {
            let v = u.value(ctx).expect("upload value");
            let (filename, ctype) = (v.filename.clone(), v.content_type.clone());
            let mut content = vec![];
            v.into_async_read().read_to_end(&mut content).await.expect("read upload");
            up_sexp(&filename, &ctype, &content)
        }
    }
}

async fn echo_list(ctx: &Context<'_>, l: Option<Vec<Option<Upload>>>) -> Sexp {
    match l {
        None => atom("-"),
        Some(xs) => {
            let mut out = vec![];
            for x in xs {
                out.push(echo_one(ctx, x).await);
            }
            node("l", out)
        }
    }
}

struct Mutation;
#[Object]
impl Mutation {
    async fn up(&self, ctx: &Context<'_>, a: Option<Upload>, b: Option<Vec<Option<Upload>>>, c: Option<In>) -> String {
        let (cf, cl) = match c {
            None => (None, None),
            Some(c) => (c.f, c.l),
        };
        let out = node(
            "echo",
            vec![echo_one(ctx, a).await, echo_list(ctx, b).await, echo_one(ctx, cf).await, echo_list(ctx, cl).await],
        );
        out.to_string()
    }
}

// ------------------------------------------------------------------ run

fn opt_num(s: &Sexp) -> Option<Option<usize>> {
    match s.as_atom()? {
        "none" => Some(None),
        x => Some(Some(x.parse().ok()?)),
    }
}

fn run(case: &Sexp, dist: &mut Dist, rt: &tokio::runtime::Runtime) -> Sexp {
    let bad = || node("bad-case", vec![]);
    let a = case.args();
    let Some(kind) = case.tag() else { return bad() };
    let (Some(o), Some(parts)) = (a.first().and_then(|s| s.as_list()), a.get(1).and_then(|s| s.as_list())) else {
        return bad();
    };
    let (Some(mfs), Some(mnf)) = (o.first().and_then(opt_num), o.get(1).and_then(opt_num)) else { return bad() };
    let query = if kind == "exec" { ECHO_QUERY } else { PLAIN_QUERY };
    let Some(fields) = fields_of(parts, query) else { return bad() };
    let body = build_body(&fields);
    let mut opts = MultipartOptions::default();
    if let Some(n) = mfs {
        opts = opts.max_file_size(n);
    }
    if let Some(n) = mnf {
        opts = opts.max_num_files(n);
    }
    let ct = format!("multipart/form-data; boundary={BOUNDARY}");
    let out = match kind {
        "one" => match rt.block_on(receive_body(Some(&ct), &body[..], opts)) {
            Ok(r) => node("single", vec![req_sexp(&r)]),
            Err(e) => err(err_kind(&e)),
        },
        "mp" => match rt.block_on(receive_batch_body(Some(&ct), &body[..], opts)) {
            Ok(BatchRequest::Single(r)) => node("single", vec![req_sexp(&r)]),
            Ok(BatchRequest::Batch(rs)) => node("batch", rs.iter().map(req_sexp).collect()),
            Err(e) => err(err_kind(&e)),
        },
        "exec" => {
            let schema = Schema::new(Query, Mutation, EmptySubscription);
            let resp_sexp = |r: async_graphql::Response| -> Sexp {
                if !r.errors.is_empty() {
                    return node("errors", vec![]);
                }
                let v = serde_json::to_value(&r.data).expect("data");
                match v.get("up").and_then(|x| x.as_str()).and_then(Sexp::parse) {
                    Some(s) => s,
                    None => node("errors", vec![]),
                }
            };
            match rt.block_on(receive_batch_body(Some(&ct), &body[..], opts)) {
                Ok(BatchRequest::Single(r)) => node("single", vec![resp_sexp(rt.block_on(schema.execute(r)))]),
                Ok(BatchRequest::Batch(rs)) => {
                    let mut outs = vec![];
                    for r in rs {
                        outs.push(resp_sexp(rt.block_on(schema.execute(r))));
                    }
                    node("batch", outs)
                }
                Err(e) => err(err_kind(&e)),
            }
        }
        _ => return bad(),
    };
    dist.hit(&format!("out_{}", out.tag().unwrap_or("?")));
    if out.tag() == Some("err") {
        dist.hit(&format!("err_{}", out.args().first().and_then(|s| s.as_atom()).unwrap_or("?")));
    }
    out
}

// ------------------------------------------------------------------ generator

const KEYS: &[&str] = &["a", "b", "c", "f", "l", "files", "x", "0", "1", "in"];
const STRS: &[&str] = &["", "t", "variables", "a b", "\u{e9}", "q\"uote", "line\nbreak", "0"];
const CTYPES: &[&str] = &["text/plain", "image/png", "application/octet-stream", "text/plain; charset=utf-8", "application/json"];
const CONTENT_ALPHA: &[&str] = &["a", "b", "0", " ", "-", "\r\n", "\n", "\u{e9}", "\u{4e16}", "--", "\"", "{", "\u{1F600}"];

fn gen_tree(rng: &mut Rng, depth: usize) -> J {
    let r = rng.below(100);
    if depth == 0 || r < 45 {
        match rng.below(10) {
            0..=5 => J::Null,
            6 => J::Int(rng.range(-3, 40)),
            7 => J::Bool(rng.chance(1, 2)),
            _ => J::Str(rng.pick(STRS).to_string()),
        }
    } else if r < 75 {
        J::Arr((0..rng.below(4)).map(|_| gen_tree(rng, depth - 1)).collect())
    } else {
        J::Obj(gen_members(rng, depth - 1, 3))
    }
}

fn gen_members(rng: &mut Rng, depth: usize, max: usize) -> Vec<(String, J)> {
    let mut keys: Vec<&str> = KEYS.to_vec();
    rng.shuffle(&mut keys);
    let n = 1 + rng.below(max);
    keys.into_iter().take(n).map(|k| (k.to_string(), gen_tree(rng, depth))).collect()
}

/// variables shaped for the echo mutation
fn gen_echo_vars(rng: &mut Rng) -> Vec<(String, J)> {
    let slot = |rng: &mut Rng| if rng.chance(1, 8) { J::Int(1) } else { J::Null };
    let lst = |rng: &mut Rng| {
        if rng.chance(1, 5) {
            J::Null
        } else {
            J::Arr((0..rng.below(4)).map(|_| J::Null).collect())
        }
    };
    let mut m = vec![];
    if rng.chance(4, 5) {
        m.push(("a".to_string(), slot(rng)));
    }
    if rng.chance(4, 5) {
        m.push(("b".to_string(), lst(rng)));
    }
    if rng.chance(3, 5) {
        let mut c = vec![];
        if rng.chance(4, 5) {
            c.push(("f".to_string(), slot(rng)));
        }
        if rng.chance(4, 5) {
            c.push(("l".to_string(), lst(rng)));
        }
        m.push(("c".to_string(), if rng.chance(1, 8) { J::Null } else { J::Obj(c) }));
    }
    rng.shuffle(&mut m);
    m
}

/// every path that addresses a node of the tree (without the `variables.` prefix)
fn all_paths(j: &J, prefix: &str, leaves_only: bool, out: &mut Vec<String>) {
    let inner = matches!(j, J::Arr(_) | J::Obj(_));
    if !prefix.is_empty() && (!inner || !leaves_only) {
        out.push(prefix.to_string());
    }
    match j {
        J::Arr(xs) => {
            for (i, x) in xs.iter().enumerate() {
                all_paths(x, &format!("{prefix}.{i}"), leaves_only, out);
            }
        }
        J::Obj(kvs) => {
            for (k, v) in kvs {
                if !k.contains('.') {
                    all_paths(v, &format!("{prefix}.{k}"), leaves_only, out);
                }
            }
        }
        _ => {}
    }
}

fn gen_content(rng: &mut Rng, dist: &mut Dist) -> String {
    let n = match rng.below(10) {
        0 => 0,
        1..=6 => rng.below(6),
        7..=8 => rng.below(40),
        _ => 2000 + rng.below(3000),
    };
    if n >= 2000 {
        dist.hit("file_content_spans_chunks");
    }
    let mut s = String::new();
    for _ in 0..n {
        let piece: &str = *rng.pick(CONTENT_ALPHA);
        s.push_str(piece);
    }
    s
}

fn gen_case(rng: &mut Rng, _i: usize, _o: &Opts, dist: &mut Dist) -> Sexp {
    let kind = match rng.below(100) {
        0..=64 => "mp",
        65..=74 => "one",
        _ => "exec",
    };
    dist.hit(&format!("kind_{kind}"));
    // ---- operations
    let batch = kind != "one" && rng.chance(2, 5) || kind == "one" && rng.chance(1, 6);
    let nreq = if batch { 1 + rng.below(3) } else { 1 };
    let vars: Vec<Vec<(String, J)>> =
        (0..nreq).map(|_| if kind == "exec" { gen_echo_vars(rng) } else { gen_members(rng, 3, 4) }).collect();
    dist.hit(if batch { "ops_batch" } else { "ops_single" });
    // resolvable paths, as the map spells them
    let mut good: Vec<String> = vec![];
    for (i, v) in vars.iter().enumerate() {
        let mut ps = vec![];
        all_paths(&J::Obj(v.clone()), "variables", kind == "exec" || rng.chance(2, 3), &mut ps);
        for p in ps {
            good.push(if batch { format!("{i}.{p}") } else { p });
        }
    }
    rng.shuffle(&mut good);
    // ---- files and map
    let nfiles = match rng.below(10) {
        0 => 0,
        1..=4 => 1,
        5..=7 => 2,
        8 => 3,
        _ => 4,
    };
    dist.hit(&format!("files_{nfiles}"));
    let mut files: Vec<Sexp> = vec![];
    let mut map: Vec<Sexp> = vec![];
    let mut used: Vec<String> = vec![];
    for k in 0..nfiles {
        let name = if rng.chance(1, 12) && k > 0 {
            dist.hit("file_duplicate_name");
            (k - 1).to_string()
        } else if rng.chance(1, 10) {
            format!("file{k}")
        } else {
            k.to_string()
        };
        let filename = rng.pick(&["a.txt", "b.png", "", "x y.bin", "r\u{e9}sum\u{e9}.pdf", "same.txt"]).to_string();
        let ctype = if rng.chance(1, 3) { atom("none") } else { st(rng.pick(CTYPES).to_string()) };
        let content = gen_content(rng, dist);
        files.push(node("file", vec![st(name.clone()), st(filename), ctype, st(content)]));
        if rng.chance(1, 12) {
            dist.hit("file_without_map_entry");
            continue;
        }
        let npaths = match rng.below(10) {
            0 => 0,
            1..=6 => 1,
            7..=8 => 2,
            _ => 3,
        };
        dist.hit(&format!("paths_per_file_{npaths}"));
        let mut entry = vec![st(name)];
        for _ in 0..npaths {
            let r = rng.below(100);
            let p = if r < 84 && !good.is_empty() {
                good.pop().unwrap()
            } else if r < 90 && !used.is_empty() {
                dist.hit("path_conflict");
                let u = rng.pick(&used).clone();
                if rng.chance(1, 2) {
                    u
                } else {
                    // a prefix of a used path (when there is one)
                    match u.rfind('.') {
                        Some(i) if u[..i].contains("variables.") => u[..i].to_string(),
                        _ => u,
                    }
                }
            } else if r < 95 && !used.is_empty() {
                dist.hit("path_index_spelling");
                // other spellings of an index step / of the batch index
                let u = rng.pick(&used).clone();
                let mut segs: Vec<String> = u.split('.').map(|s| s.to_string()).collect();
                for s in segs.iter_mut() {
                    if s.chars().all(|c| c.is_ascii_digit()) && !s.is_empty() {
                        *s = format!("{}{}", rng.pick(&["0", "+", "00", "-", " "]), s);
                        break;
                    }
                }
                segs.join(".")
            } else {
                dist.hit("path_unresolvable");
                let base = if batch { format!("{}.", rng.below(nreq)) } else { String::new() };
                match rng.below(10) {
                    0 => format!("{base}variables.nope"),
                    1 => format!("{base}variable.a"),
                    2 => format!("{base}variables"),
                    3 => format!("{base}variables."),
                    4 => format!("{base}variables.a.9"),
                    5 => format!("{base}variables.b.4294967296"),
                    6 => format!("{}.variables.a", nreq + rng.below(2)),
                    7 => "x.variables.a".to_string(),
                    8 => (if batch { "variables.a" } else { "0.variables.a" }).to_string(),
                    _ => format!("{base}variables.a.b.c"),
                }
            };
            used.push(p.clone());
            entry.push(st(p));
        }
        map.push(list(entry));
    }
    if rng.chance(1, 10) {
        dist.hit("map_entry_without_file");
        let p = good.pop().unwrap_or_else(|| "variables.a".to_string());
        map.push(list(vec![st(rng.pick(&["9", "missing", ""]).to_string()), st(p)]));
    }
    if rng.chance(1, 25) && !map.is_empty() {
        dist.hit("map_duplicate_key");
        let m = rng.pick(&map).clone();
        map.push(m);
    }
    rng.shuffle(&mut map);
    // ---- parts and their order
    let mut ops_args = vec![atom(if batch { "batch" } else { "single" })];
    ops_args.extend(vars.iter().map(|v| j_to_sexp(&J::Obj(v.clone()))));
    let mut ops = node("ops", ops_args);
    let mut mapp = node("map", map);
    match rng.below(40) {
        0 => {
            dist.hit("ops_bad");
            ops = node("opsbad", vec![st(rng.pick(&["", "{", "nul", "{\"query\":1}", "[1]"]).to_string())]);
        }
        1 => {
            dist.hit("map_bad");
            mapp = node(
                "mapbad",
                vec![st(rng.pick(&["", "{", "[]", "{\"0\":\"variables.a\"}", "{\"0\":[1]}", "null"]).to_string())],
            );
        }
        _ => {}
    }
    let mut parts: Vec<Sexp> = vec![];
    let order = rng.below(10);
    if order < 4 {
        dist.hit("order_standard");
        parts.push(ops);
        parts.push(mapp);
        parts.extend(files);
    } else if order < 6 {
        dist.hit("order_files_first");
        parts.extend(files);
        if rng.chance(1, 2) {
            parts.push(mapp);
            parts.push(ops);
        } else {
            parts.push(ops);
            parts.push(mapp);
        }
    } else {
        dist.hit("order_shuffled");
        parts.push(ops);
        parts.push(mapp);
        parts.extend(files);
        rng.shuffle(&mut parts);
    }
    match rng.below(30) {
        0 => {
            dist.hit("no_ops_part");
            parts.retain(|p| !matches!(p.tag(), Some("ops") | Some("opsbad")));
        }
        1 => {
            dist.hit("no_map_part");
            parts.retain(|p| !matches!(p.tag(), Some("map") | Some("mapbad")));
        }
        2 => {
            dist.hit("second_ops_or_map_part");
            let which = if rng.chance(1, 2) { "ops" } else { "map" };
            if let Some(p) = parts.iter().find(|p| p.tag() == Some(which)).cloned() {
                let at = rng.below(parts.len() + 1);
                let p = if which == "map" && rng.chance(1, 2) { node("map", vec![]) } else { p };
                parts.insert(at, p);
            }
        }
        _ => {}
    }
    if rng.chance(1, 8) {
        dist.hit("extra_non_file_part");
        let at = rng.below(parts.len() + 1);
        let c = gen_content(rng, dist);
        let p = if rng.chance(2, 3) {
            node("field", vec![st(rng.pick(&["0", "note", "1"]).to_string()), st(c)])
        } else {
            node("anon", vec![st("anon.txt"), st(c)])
        };
        parts.insert(at, p);
    }
    // ---- limits around the actual sizes
    let fields = fields_of(&parts, if kind == "exec" { ECHO_QUERY } else { PLAIN_QUERY }).expect("own parts");
    let body_len = build_body(&fields).len();
    let file_sizes: Vec<usize> = fields.iter().filter(|f| f.name.is_some() && f.filename.is_some()).map(|f| f.content.len()).collect();
    let max_file = file_sizes.iter().copied().max().unwrap_or(0);
    let max_any = fields.iter().map(|f| f.content.len()).max().unwrap_or(0);
    let nf = file_sizes.len();
    let mnf: Option<usize> = match rng.below(20) {
        0..=5 => None,
        6 => Some(0),
        7..=8 => Some(nf.saturating_sub(1)),
        9..=13 => Some(nf),
        14..=16 => Some(nf + 1),
        17 => Some(1),
        _ => Some(1 + rng.below(4)),
    };
    let near = |rng: &mut Rng, x: usize| (x as i64 + rng.range(-1, 1)).max(0) as usize;
    let mfs: Option<usize> = match rng.below(16) {
        0..=3 => None,
        4 => Some(near(rng, max_file)),
        5 => Some(near(rng, max_any)),
        6..=7 => match mnf {
            // byte budget max_file_size × max_num_files around the body length
            Some(n) if n > 0 => Some(near(rng, body_len.div_ceil(n))),
            _ => Some(near(rng, body_len)),
        },
        8..=9 => Some(body_len + rng.below(3)),
        _ => Some(body_len * 6 + 100),
    };
    if let (Some(n), Some(_)) = (mnf, mfs) {
        if nf > n {
            dist.hit("more_files_than_max_num_files");
        }
    }
    if let Some(s) = mfs {
        if max_file > s {
            dist.hit("file_larger_than_max_file_size");
        }
    }
    let show = |x: Option<usize>| x.map(|n| num(n)).unwrap_or(atom("none"));
    node(kind, vec![list(vec![show(mfs), show(mnf)]), list(parts)])
}

fn main() {
    let rt = tokio::runtime::Builder::new_current_thread().build().expect("runtime");
    main_loop(&mut gen_case, &mut |c, d| run(c, d, &rt));
}
