//! C11 — request checking work is polynomial in the document size.
//!
//! Needs the instrumentation hook `async_graphql::__verif` (fixes/HOOK-C11-counters.diff,
//! compiled only with `--cfg async_graphql_verif`).
//!
//! Case:   (case (cfg MODE ROOTS RL MD) DOC)
//!   MODE   strict | fast            validation mode of the schema
//!   ROOTS  full | qonly             schema with / without mutation and subscription roots
//!   RL     recursion limit (`limit_recursive_depth`)
//!   MD     none | N                 `limit_directives`
//!   DOC    the document as a tree in the shared wire format (lean/AGV/Core/Types.lean);
//!          the harness prints it to GraphQL text, parses it with the real parser and
//!          executes the request through `Schema::execute`.
//! Output: (out (order OPNAME…) STAGE (c0 … c7))
//!   order  iteration order of `doc.operations` (a HashMap: decides where an early exit happens)
//!   STAGE  depth | directives | done : the pre-execution check that stopped the request
//!   c0..c7 the work counters of the hook, reset before the request.

use agvh::*;
use async_graphql::{EmptyMutation, EmptySubscription, Object, Schema, Subscription, ValidationMode};

// ------------------------------------------------------------------ schema

struct Query;
#[Object]
impl Query {
    async fn a(&self, x: Option<i32>) -> i32 {
        x.unwrap_or(1)
    }
    async fn b(&self) -> i32 {
        2
    }
    async fn q(&self) -> Query {
        Query
    }
    async fn l(&self) -> Vec<Query> {
        vec![Query]
    }
}
struct Mutation;
#[Object]
impl Mutation {
    async fn a(&self) -> i32 {
        1
    }
    async fn q(&self) -> Query {
        Query
    }
}
struct Sub;
#[Subscription]
impl Sub {
    async fn a(&self) -> impl futures_util::Stream<Item = i32> {
        futures_util::stream::iter(vec![1])
    }
}

// ------------------------------------------------------------------ document printer (wire tree -> GraphQL text)

fn p_value(out: &mut String, v: &Sexp) {
    match v {
        Sexp::Atom(a) => out.push_str(a),
        Sexp::Str(s) => out.push_str(&serde_json::to_string(s).unwrap()),
        Sexp::List(xs) => match xs.first().and_then(|x| x.as_atom()) {
            Some("var") => {
                out.push('$');
                out.push_str(xs[1].as_str().unwrap());
            }
            Some("e") => out.push_str(xs[1].as_str().unwrap()),
            Some("f") => out.push_str(xs[1].as_str().unwrap()),
            Some("list") => {
                out.push('[');
                for (i, x) in xs[1..].iter().enumerate() {
                    if i > 0 {
                        out.push(' ');
                    }
                    p_value(out, x);
                }
                out.push(']');
            }
            Some("obj") => {
                out.push('{');
                for (i, x) in xs[1..].iter().enumerate() {
                    if i > 0 {
                        out.push(' ');
                    }
                    let kv = x.as_list().unwrap();
                    out.push_str(kv[0].as_str().unwrap());
                    out.push(':');
                    p_value(out, &kv[1]);
                }
                out.push('}');
            }
            _ => panic!("bad value"),
        },
    }
}
fn p_args(out: &mut String, args: &[Sexp]) {
    if args.is_empty() {
        return;
    }
    out.push('(');
    for (i, a) in args.iter().enumerate() {
        if i > 0 {
            out.push(' ');
        }
        let kv = a.as_list().unwrap();
        out.push_str(kv[0].as_str().unwrap());
        out.push(':');
        p_value(out, &kv[1]);
    }
    out.push(')');
}
fn p_dirs(out: &mut String, dirs: &Sexp) {
    for d in dirs.as_list().unwrap() {
        let a = d.args();
        out.push_str(" @");
        out.push_str(a[0].as_str().unwrap());
        p_args(out, &a[1..]);
    }
}
fn p_sels(out: &mut String, sels: &Sexp) {
    let ss = sels.as_list().unwrap();
    if ss.is_empty() {
        return;
    }
    out.push_str(" {");
    for s in ss {
        let a = s.args();
        out.push(' ');
        match s.tag().unwrap() {
            "field" => {
                if let Some(al) = a[0].as_str() {
                    out.push_str(al);
                    out.push(':');
                }
                out.push_str(a[1].as_str().unwrap());
                p_args(out, a[2].as_list().unwrap());
                p_dirs(out, &a[3]);
                p_sels(out, &a[4]);
            }
            "spread" => {
                out.push_str("...");
                out.push_str(a[0].as_str().unwrap());
                p_dirs(out, &a[1]);
            }
            "inline" => {
                out.push_str("...");
                if let Some(c) = a[0].as_str() {
                    out.push_str(" on ");
                    out.push_str(c);
                }
                p_dirs(out, &a[1]);
                p_sels(out, &a[2]);
            }
            _ => panic!("bad selection"),
        }
    }
    out.push_str(" }");
}
fn p_type(out: &mut String, t: &Sexp) {
    match t {
        Sexp::Str(s) => out.push_str(s),
        Sexp::List(xs) if xs[0].as_atom() == Some("list") => {
            out.push('[');
            p_type(out, &xs[1]);
            out.push(']');
        }
        Sexp::List(xs) if xs[0].as_atom() == Some("nn") => {
            p_type(out, &xs[1]);
            out.push('!');
        }
        _ => panic!("bad type"),
    }
}
fn print_doc(doc: &Sexp) -> String {
    let a = doc.args();
    let mut out = String::new();
    for op in a[0].as_list().unwrap() {
        let o = op.args();
        out.push_str(o[0].as_atom().unwrap());
        if let Some(n) = o[1].as_str() {
            out.push(' ');
            out.push_str(n);
        }
        let vs = o[2].as_list().unwrap();
        if !vs.is_empty() {
            out.push('(');
            for (i, v) in vs.iter().enumerate() {
                if i > 0 {
                    out.push(' ');
                }
                let va = v.args();
                out.push('$');
                out.push_str(va[0].as_str().unwrap());
                out.push(':');
                p_type(&mut out, &va[1]);
                if va[2].tag() == Some("some") {
                    out.push('=');
                    p_value(&mut out, &va[2].args()[0]);
                }
            }
            out.push(')');
        }
        p_dirs(&mut out, &o[3]);
        p_sels(&mut out, &o[4]);
        out.push('\n');
    }
    for f in a[1].as_list().unwrap() {
        let fa = f.args();
        out.push_str("fragment ");
        out.push_str(fa[0].as_str().unwrap());
        out.push_str(" on ");
        out.push_str(fa[1].as_str().unwrap());
        p_dirs(&mut out, &fa[2]);
        p_sels(&mut out, &fa[3]);
        out.push('\n');
    }
    out
}

// ------------------------------------------------------------------ generator

fn pos0() -> Sexp {
    list(vec![num(0), num(0)])
}
fn dir(name: &str, args: Vec<(&str, Sexp)>) -> Sexp {
    let mut v = vec![st(name)];
    for (k, x) in args {
        v.push(list(vec![st(k), x]));
    }
    node("dir", v)
}
fn field(alias: Option<&str>, name: &str, args: Vec<(&str, Sexp)>, dirs: Vec<Sexp>, sels: Vec<Sexp>) -> Sexp {
    node(
        "field",
        vec![
            alias.map(st).unwrap_or(atom("none")),
            st(name),
            list(args.into_iter().map(|(k, x)| list(vec![st(k), x])).collect()),
            list(dirs),
            list(sels),
            pos0(),
        ],
    )
}
fn spread(name: &str, dirs: Vec<Sexp>) -> Sexp {
    node("spread", vec![st(name), list(dirs), pos0()])
}
fn inline(cond: Option<&str>, dirs: Vec<Sexp>, sels: Vec<Sexp>) -> Sexp {
    node("inline", vec![cond.map(st).unwrap_or(atom("none")), list(dirs), list(sels), pos0()])
}
fn op(ty: &str, name: Option<&str>, vars: Vec<Sexp>, dirs: Vec<Sexp>, sels: Vec<Sexp>) -> Sexp {
    node("op", vec![atom(ty), name.map(st).unwrap_or(atom("none")), list(vars), list(dirs), list(sels)])
}
fn frag(name: &str, cond: &str, dirs: Vec<Sexp>, sels: Vec<Sexp>) -> Sexp {
    node("frag", vec![st(name), st(cond), list(dirs), list(sels)])
}
fn doc(ops: Vec<Sexp>, frags: Vec<Sexp>) -> Sexp {
    node("doc", vec![list(ops), list(frags)])
}

/// upper estimate of the selections an unmemoised walker touches (generator-side guard only:
/// keeps every generated case far below 10^5 visits; never used for judging)
fn est(sels: &Sexp, frags: &[(String, Sexp)], fuel: usize, cap: u64) -> u64 {
    let mut t = 0u64;
    for s in sels.as_list().unwrap() {
        t += 1;
        if t > cap {
            return t;
        }
        let a = s.args();
        match s.tag().unwrap() {
            "field" => t += est(&a[4], frags, fuel, cap),
            "inline" => t += est(&a[2], frags, fuel, cap),
            _ => {
                if fuel > 0 {
                    if let Some((_, fs)) = frags.iter().find(|(n, _)| Some(n.as_str()) == a[0].as_str()) {
                        t += est(fs, frags, fuel - 1, cap);
                    }
                }
            }
        }
    }
    t
}

struct G<'a> {
    rng: &'a mut Rng,
    frag_names: Vec<String>,
    /// spreads mostly go to fragments with index >= cur (acyclic)
    cur: usize,
    budget: i64,
}
const CONDS: [&str; 3] = ["Query", "Mutation", "Nope"];
impl G<'_> {
    fn dirs(&mut self) -> Vec<Sexp> {
        let n = match self.rng.below(10) {
            0..=6 => 0,
            7 => 1,
            8 => 2,
            _ => self.rng.below(5),
        };
        (0..n)
            .map(|_| match self.rng.below(4) {
                0 => dir("skip", vec![("if", atom("false"))]),
                1 => dir("include", vec![("if", atom("true"))]),
                2 => dir("include", vec![("if", list(vec![atom("var"), st("v")]))]),
                _ => dir("zz", vec![]),
            })
            .collect()
    }
    fn sels(&mut self, depth: usize) -> Vec<Sexp> {
        let n = 1 + self.rng.below(if depth == 0 { 5 } else { 3 });
        let mut v = Vec::new();
        for _ in 0..n {
            self.budget -= 1;
            let k = self.rng.below(100);
            let deep = depth < 6 && self.budget > 0;
            if k < 40 || !deep && k < 70 {
                // leaf field
                let name = *self.rng.pick(&["a", "b", "__typename", "zz", "a"]);
                let alias = if self.rng.chance(1, 4) { Some(*self.rng.pick(&["a", "k", "b"])) } else { None };
                let args = if name == "a" && self.rng.chance(1, 3) {
                    vec![("x", if self.rng.chance(1, 2) { num(self.rng.below(3)) } else { list(vec![atom("var"), st("v")]) })]
                } else {
                    vec![]
                };
                let d = self.dirs();
                v.push(field(alias, name, args, d, vec![]));
            } else if k < 60 {
                let name = *self.rng.pick(&["q", "l", "q", "zz", "q", "__typename"]);
                let alias = if self.rng.chance(1, 5) { Some("k") } else { None };
                let d = self.dirs();
                let s = self.sels(depth + 1);
                v.push(field(alias, name, vec![], d, s));
            } else if k < 75 {
                let cond = match self.rng.below(4) {
                    0 => None,
                    1 => Some(*self.rng.pick(&CONDS)),
                    _ => Some("Query"),
                };
                let d = self.dirs();
                let s = self.sels(depth + 1);
                v.push(inline(cond, d, s));
            } else if !self.frag_names.is_empty() {
                // named spread: mostly a later fragment (acyclic), sometimes any (cycles), sometimes undefined
                let nf = self.frag_names.len();
                let r = self.rng.below(20);
                let name = if r == 0 {
                    "Undefined".to_string()
                } else if r == 1 || (self.cur >= nf && r < 4) {
                    self.rng.pick(&self.frag_names).clone()
                } else if self.cur < nf {
                    let j = self.cur + self.rng.below(nf - self.cur);
                    self.frag_names[j].clone()
                } else {
                    v.push(field(None, "b", vec![], vec![], vec![]));
                    continue;
                };
                let d = if self.rng.chance(1, 6) { self.dirs() } else { vec![] };
                v.push(spread(&name, d));
            } else {
                v.push(field(None, "a", vec![], vec![], vec![]));
            }
        }
        v
    }
}

fn gen_random(rng: &mut Rng, dist: &mut Dist) -> Sexp {
    loop {
        let nfr = match rng.below(6) {
            0 => 0,
            1 => 1,
            2 => 2,
            _ => 1 + rng.below(6),
        };
        let names: Vec<String> = (0..nfr).map(|i| format!("F{i}")).collect();
        let nops = match rng.below(6) {
            0 | 1 | 2 => 1,
            3 => 2,
            _ => 1 + rng.below(4),
        };
        let mut g = G { rng, frag_names: names.clone(), cur: 0, budget: 40 };
        let mut ops = Vec::new();
        for i in 0..nops {
            g.cur = 0;
            let ty = match g.rng.below(8) {
                0 => "mutation",
                1 => "subscription",
                _ => "query",
            };
            let vars = if g.rng.chance(1, 3) {
                vec![node(
                    "vardef",
                    vec![st("v"), st(if g.rng.chance(1, 2) { "Boolean" } else { "Int" }), if g.rng.chance(1, 2) { node("some", vec![atom("true")]) } else { atom("none") }],
                )]
            } else {
                vec![]
            };
            let d = if g.rng.chance(1, 8) { g.dirs() } else { vec![] };
            let s = g.sels(0);
            let name = if nops == 1 && g.rng.chance(1, 2) { None } else { Some(format!("Op{i}")) };
            ops.push(op(ty, name.as_deref(), vars, d, s));
        }
        let mut frags = Vec::new();
        for i in 0..nfr {
            g.cur = i + 1;
            let cond = if g.rng.chance(1, 6) { *g.rng.pick(&CONDS) } else { "Query" };
            let d = if g.rng.chance(1, 10) { g.dirs() } else { vec![] };
            let s = g.sels(1);
            frags.push(frag(&names[i], cond, d, s));
        }
        // guard: total unmemoised work stays small
        let table: Vec<(String, Sexp)> = frags.iter().map(|f| (f.args()[0].as_str().unwrap().to_string(), f.args()[3].clone())).collect();
        let mut total = 0;
        for o in &ops {
            total += est(&o.args()[4], &table, 40, 20_000);
        }
        if total > 20_000 {
            dist.hit("gen_rejected_too_much_work");
            continue;
        }
        return doc(ops, frags);
    }
}

/// F_0 … F_n, each spreading the next `k` times; the operation spreads F_0 `k0` times
fn chain(n: usize, k: usize, k0: usize, leaf: &str) -> Sexp {
    let mut frags = Vec::new();
    for i in 0..=n {
        let s = if i < n { (0..k).map(|_| spread(&format!("F{}", i + 1), vec![])).collect() } else { vec![field(None, leaf, vec![], vec![], vec![])] };
        frags.push(frag(&format!("F{i}"), "Query", vec![], s));
    }
    doc(vec![op("query", None, vec![], vec![], (0..k0).map(|_| spread("F0", vec![])).collect())], frags)
}

fn gen_doc(rng: &mut Rng, dist: &mut Dist) -> (Sexp, &'static str) {
    match rng.below(20) {
        0 | 1 | 2 => {
            // fan-out chain, at most ~2·10^4 visits per walker (the n = 14 witness lives in the corpus)
            let k = 2 + rng.below(2);
            let maxn = if k == 2 { 12 } else { 7 };
            let n = rng.below(maxn + 1);
            let leaf = *rng.pick(&["a", "zz"]);
            (chain(n, k, 1 + rng.below(2), leaf), "fam_chain")
        }
        3 => {
            // wide overlapping selections
            let w = 1 + rng.below(40);
            let mut s = Vec::new();
            for _ in 0..w {
                let name = *rng.pick(&["a", "b"]);
                let alias = if rng.chance(1, 2) { Some(*rng.pick(&["a", "b", "k"])) } else { None };
                let args = if name == "a" && rng.chance(1, 2) { vec![("x", num(rng.below(2)))] } else { vec![] };
                if rng.chance(1, 5) {
                    s.push(inline(Some("Query"), vec![], vec![field(alias, name, args, vec![], vec![])]));
                } else if rng.chance(1, 6) {
                    s.push(spread("W", vec![]));
                } else {
                    s.push(field(alias, name, args, vec![], vec![]));
                }
            }
            let inner = if rng.chance(1, 2) { vec![field(None, "q", vec![], vec![], s.clone())] } else { s.clone() };
            (doc(vec![op("query", None, vec![], vec![], inner)], vec![frag("W", "Query", vec![], vec![field(Some("k"), "a", vec![], vec![], vec![]), field(None, "b", vec![], vec![], vec![])])]), "fam_wide")
        }
        4 => {
            // deep nesting of inline fragments / fields (around the recursion limit)
            let d = rng.below(40);
            let mut s = vec![field(None, "a", vec![], vec![], vec![])];
            for _ in 0..d {
                s = if rng.chance(2, 3) { vec![inline(if rng.chance(1, 2) { Some("Query") } else { None }, vec![], s)] } else { vec![field(None, "q", vec![], vec![], s), field(None, "b", vec![], vec![], vec![])] };
            }
            (doc(vec![op("query", None, vec![], vec![], s)], vec![]), "fam_deep")
        }
        5 => {
            // many operations sharing fragments
            let m = 2 + rng.below(18);
            let ops = (0..m)
                .map(|i| {
                    let ty = if rng.chance(1, 6) { "mutation" } else { "query" };
                    let mut s = vec![spread("S", vec![])];
                    if rng.chance(1, 2) {
                        s.push(spread("T", vec![]));
                    }
                    if rng.chance(1, 3) {
                        s.push(field(None, "a", vec![], (0..rng.below(4)).map(|_| dir("skip", vec![("if", atom("false"))])).collect(), vec![]));
                    }
                    op(ty, Some(&format!("Op{i}")), vec![], vec![], s)
                })
                .collect();
            (
                doc(
                    ops,
                    vec![
                        frag("S", "Query", vec![], vec![field(None, "a", vec![], vec![], vec![]), spread("T", vec![]), spread("T", vec![])]),
                        frag("T", "Query", vec![], vec![field(None, "q", vec![], vec![], vec![field(None, "b", vec![], vec![], vec![])])]),
                    ],
                ),
                "fam_many_ops",
            )
        }
        6 => {
            // cyclic fragments (must stop at the recursion limit after few visits)
            let k = 1 + rng.below(3);
            let mut frags = Vec::new();
            for i in 0..k {
                let mut s = vec![];
                if rng.chance(1, 2) {
                    s.push(field(None, "a", vec![], vec![], vec![]));
                }
                s.push(spread(&format!("C{}", (i + 1) % k), vec![]));
                if rng.chance(1, 2) {
                    s.push(spread(&format!("C{}", rng.below(k)), vec![]));
                }
                frags.push(frag(&format!("C{i}"), "Query", vec![], s));
            }
            let reach = rng.chance(3, 4);
            let s = if reach { vec![field(None, "b", vec![], vec![], vec![]), spread("C0", vec![])] } else { vec![field(None, "b", vec![], vec![], vec![])] };
            (doc(vec![op("query", None, vec![], vec![], s)], frags), "fam_cycle")
        }
        _ => {
            let _ = dist;
            (gen_random(rng, dist), "random")
        }
    }
}

fn gen_case(rng: &mut Rng, _i: usize, _o: &Opts, dist: &mut Dist) -> Sexp {
    let (d, fam) = gen_doc(rng, dist);
    dist.hit(fam);
    let mode = if rng.chance(1, 2) { "strict" } else { "fast" };
    let roots = if rng.chance(1, 2) { "full" } else { "qonly" };
    let rl = match rng.below(10) {
        0..=5 => 32,
        6 => rng.below(4),
        7 => 4 + rng.below(8),
        _ => 16,
    };
    let md = match rng.below(4) {
        0 => num(rng.below(3)),
        1 => num(3 + rng.below(3)),
        _ => atom("none"),
    };
    dist.hit(&format!("mode_{mode}"));
    dist.hit(&format!("roots_{roots}"));
    node("case", vec![node("cfg", vec![atom(mode), atom(roots), num(rl), md]), d])
}

// ------------------------------------------------------------------ runner

fn run(case: &Sexp, dist: &mut Dist) -> Sexp {
    let a = case.args();
    let cfg = a[0].args();
    let mode = if cfg[0].as_atom() == Some("strict") { ValidationMode::Strict } else { ValidationMode::Fast };
    let full = cfg[1].as_atom() == Some("full");
    let rl = cfg[2].as_usize().expect("rl");
    let md = cfg[3].as_usize();
    let text = print_doc(&a[1]);
    if std::env::var("AGV_DEBUG").is_ok() {
        eprintln!("{text}");
    }
    let mut req = async_graphql::Request::new(text);
    let order: Vec<Sexp> = match req.parsed_query() {
        Ok(d) => d.operations.iter().map(|(n, _)| n.map(|n| st(n.as_str())).unwrap_or(atom("none"))).collect(),
        Err(_) => {
            dist.hit("out_parse_error");
            return node("out", vec![atom("parse")]);
        }
    };
    async_graphql::__verif::reset();
    let resp = if full {
        let mut b = Schema::build(Query, Mutation, Sub).validation_mode(mode).limit_recursive_depth(rl);
        if let Some(m) = md {
            b = b.limit_directives(m);
        }
        spin_on(b.finish().execute(req))
    } else {
        let mut b = Schema::build(Query, EmptyMutation, EmptySubscription).validation_mode(mode).limit_recursive_depth(rl);
        if let Some(m) = md {
            b = b.limit_directives(m);
        }
        spin_on(b.finish().execute(req))
    };
    let c = async_graphql::__verif::counters();
    let msg = resp.errors.first().map(|e| e.message.as_str()).unwrap_or("");
    let stage = if msg.starts_with("The recursion depth of the query cannot be greater than") {
        "depth"
    } else if msg.starts_with("The number of directives on the field") {
        "directives"
    } else {
        "done"
    };
    dist.hit(&format!("out_stage_{stage}"));
    if stage == "done" {
        dist.hit(if resp.errors.is_empty() { "out_done_executed_ok" } else { "out_done_with_errors" });
    }
    let total: u64 = c[2] + c[3] + c[4] + c[5];
    dist.hit(match total {
        0..=9 => "visits_0_9",
        10..=99 => "visits_10_99",
        100..=999 => "visits_100_999",
        1000..=9999 => "visits_1k_10k",
        _ => "visits_10k_up",
    });
    node("out", vec![node("order", order), atom(stage), list(c.iter().map(|x| num(*x)).collect())])
}

fn main() {
    main_loop(&mut gen_case, &mut run);
}
