//! C11 — request checking work is polynomial in the document size.
//!
//! Needs the instrumentation hook `async_graphql::__verif` (fixes/HOOK-C11-counters.diff,
//! compiled only with `--cfg async_graphql_verif`).
//!
//! Case:   (case (cfg MODE ROOTS RL MD) DOC [(req OPNAME (vars (NAME VALUE)…))])
//!   MODE   strict | fast            validation mode of the schema
//!   ROOTS  full | qonly             schema with / without mutation and subscription roots
//!   RL     recursion limit (`limit_recursive_depth`)
//!   MD     none | N                 `limit_directives`
//!   DOC    the document as a tree in the shared wire format (lean/AGV/Core/Types.lean);
//!          the harness prints it to GraphQL text, parses it with the real parser and
//!          executes the request through `Schema::execute`.
//!   req    optional: the request's operation name (none | "name") and variable values
//! Output: (out (order OPNAME…) STAGE (c0 … c8) REG)
//!   order  iteration order of `doc.operations` (a HashMap: decides where an early exit happens)
//!   STAGE  depth | directives | done : the pre-execution check that stopped the request
//!   c0..c8 the work counters of the hook, reset before the request (c8 = calls of
//!          `is_valid_input_value`; a tree with the older hook reports c0..c7 only).
//!   REG    what the REAL registry of the schema says about types, fields, arguments, input
//!          objects (fields in declaration order) and directives — the judge evaluates the cost
//!          model of value checking against this description.

use agvh::*;
use async_graphql::{EmptyMutation, EmptySubscription, Object, Schema, Subscription, ValidationMode};

// ------------------------------------------------------------------ schema

#[derive(async_graphql::Enum, Copy, Clone, Eq, PartialEq)]
enum Color {
    Red,
    Green,
}
/// recursive input object with list fields (`{and: [{and: [ … {eq: 1} ]}]}`)
#[derive(async_graphql::InputObject)]
struct Filter {
    and: Option<Vec<Filter>>,
    not: Option<Box<Filter>>,
    eq: Option<i32>,
    c: Option<Color>,
    tags: Option<Vec<Option<String>>>,
}
/// `x` required, `y` has a default, `tag` optional (declaration order matters: the check stops early)
#[derive(async_graphql::InputObject)]
struct Pt {
    x: i32,
    #[graphql(default = 7)]
    y: i32,
    tag: Option<String>,
}
#[derive(async_graphql::OneofObject)]
enum One {
    I(i32),
    S(String),
    P(Pt),
}

struct Query;
#[Object]
impl Query {
    async fn a(&self, x: Option<i32>) -> i32 {
        x.unwrap_or(1)
    }
    #[allow(clippy::too_many_arguments)]
    async fn f(
        &self,
        p: Option<Filter>,
        ps: Option<Vec<Filter>>,
        e: Option<Color>,
        ids: Option<Vec<Option<Vec<Option<i32>>>>>,
        nn: Option<Vec<i32>>,
        pt: Option<Pt>,
        one: Option<One>,
        s: Option<String>,
        id: Option<async_graphql::ID>,
        fl: Option<f64>,
        b: Option<bool>,
    ) -> i32 {
        let _ = (p, ps, e, ids, nn, pt, one, s, id, fl, b);
        3
    }
    async fn b(&self) -> i32 {
        2
    }
    async fn q(&self) -> Query {
        Query
    }
    async fn l(&self) -> Vec<Query> {
        vec![Query]
    }
}
struct Mutation;
#[Object]
impl Mutation {
    async fn a(&self) -> i32 {
        1
    }
    async fn q(&self) -> Query {
        Query
    }
}
struct Sub;
#[Subscription]
impl Sub {
    async fn a(&self) -> impl futures_util::Stream<Item = i32> {
        futures_util::stream::iter(vec![1])
    }
}

// ------------------------------------------------------------------ what the real registry says

fn tref(s: &str) -> Sexp {
    if let Some(r) = s.strip_suffix('!') {
        node("nn", vec![tref(r)])
    } else if s.starts_with('[') && s.ends_with(']') {
        node("list", vec![tref(&s[1..s.len() - 1])])
    } else {
        st(s)
    }
}
fn arg_sexp(a: &async_graphql::registry::MetaInputValue) -> Sexp {
    node("arg", vec![st(a.name.clone()), tref(&a.ty), if a.default_value.is_some() { node("some", vec![atom("null")]) } else { atom("none") }])
}
/// `(vschema (schema QUERY MUTATION SUBSCRIPTION (types…)) (dirs (dirdef NAME (arg…)…)…) (inputs (input NAME ONEOF (arg…)…)…))`,
/// a type is `(type NAME KIND (fields…) () () (enum values…))` as in Core/Types.lean.  Types and
/// directives sorted by name; fields, arguments and input fields in the registry's own order.
fn dump_registry(reg: &async_graphql::registry::Registry) -> Sexp {
    use async_graphql::registry::MetaType;
    let opt = |o: &Option<String>| o.as_ref().map(|s| st(s.clone())).unwrap_or(atom("none"));
    let mut types = vec![];
    let mut inputs = vec![];
    let mut names: Vec<&String> = reg.types.keys().collect();
    names.sort();
    for name in names {
        let t = &reg.types[name];
        let out_fields = |fields: &indexmap::IndexMap<String, async_graphql::registry::MetaField>| {
            list(fields.values().map(|f| node("fd", vec![st(f.name.clone()), tref(&f.ty), list(f.args.values().map(arg_sexp).collect())])).collect())
        };
        let (kind, fields, values) = match t {
            MetaType::Scalar { .. } => ("scalar", list(vec![]), list(vec![])),
            MetaType::Enum { enum_values, .. } => ("enum", list(vec![]), list(enum_values.keys().map(|k| st(k.clone())).collect())),
            MetaType::Object { fields, .. } => ("object", out_fields(fields), list(vec![])),
            MetaType::Interface { fields, .. } => ("interface", out_fields(fields), list(vec![])),
            MetaType::Union { .. } => ("union", list(vec![]), list(vec![])),
            MetaType::InputObject { input_fields, oneof, .. } => {
                let mut v = vec![st(name.clone()), atom(if *oneof { "true" } else { "false" })];
                v.extend(input_fields.values().map(arg_sexp));
                inputs.push(node("input", v));
                ("input", list(vec![]), list(vec![]))
            }
        };
        types.push(node("type", vec![st(name.clone()), atom(kind), fields, list(vec![]), list(vec![]), values]));
    }
    let mut dnames: Vec<&String> = reg.directives.keys().collect();
    dnames.sort();
    let dirs = dnames
        .into_iter()
        .map(|n| {
            let mut v = vec![st(n.clone())];
            v.extend(reg.directives[n].args.values().map(arg_sexp));
            node("dirdef", v)
        })
        .collect();
    node(
        "vschema",
        vec![node("schema", vec![st(reg.query_type.clone()), opt(&reg.mutation_type), opt(&reg.subscription_type), list(types)]), node("dirs", dirs), node("inputs", inputs)],
    )
}

struct DumpF(std::sync::Arc<std::sync::Mutex<Option<Sexp>>>);
impl async_graphql::extensions::ExtensionFactory for DumpF {
    fn create(&self) -> std::sync::Arc<dyn async_graphql::extensions::Extension> {
        std::sync::Arc::new(DumpE(self.0.clone()))
    }
}
struct DumpE(std::sync::Arc<std::sync::Mutex<Option<Sexp>>>);
#[async_graphql::async_trait::async_trait]
impl async_graphql::extensions::Extension for DumpE {
    async fn parse_query(
        &self,
        ctx: &async_graphql::extensions::ExtensionContext<'_>,
        query: &str,
        variables: &async_graphql::Variables,
        next: async_graphql::extensions::NextParseQuery<'_>,
    ) -> async_graphql::ServerResult<async_graphql::parser::types::ExecutableDocument> {
        *self.0.lock().unwrap() = Some(dump_registry(&ctx.schema_env.registry));
        next.run(ctx, query, variables).await
    }
}

/// the registry of the schema variant (`full`: with mutation and subscription roots), read once
/// from a schema built exactly like the one the requests run against
fn registry_sexp(full: bool) -> Sexp {
    static CACHE: [std::sync::OnceLock<Sexp>; 2] = [std::sync::OnceLock::new(), std::sync::OnceLock::new()];
    CACHE[full as usize]
        .get_or_init(|| {
            let slot = std::sync::Arc::new(std::sync::Mutex::new(None));
            if full {
                let _ = spin_on(Schema::build(Query, Mutation, Sub).extension(DumpF(slot.clone())).finish().execute("{ __typename }"));
            } else {
                let _ = spin_on(Schema::build(Query, EmptyMutation, EmptySubscription).extension(DumpF(slot.clone())).finish().execute("{ __typename }"));
            }
            let d = slot.lock().unwrap().take().expect("registry dump");
            d
        })
        .clone()
}

/// a constant value of the wire format as JSON (request variables): enums become strings
fn to_json(v: &Sexp) -> serde_json::Value {
    match v {
        Sexp::Atom(a) => match a.as_str() {
            "null" => serde_json::Value::Null,
            "true" => serde_json::Value::Bool(true),
            "false" => serde_json::Value::Bool(false),
            n => serde_json::Value::Number(n.parse::<i64>().expect("int").into()),
        },
        Sexp::Str(s) => serde_json::Value::String(s.clone()),
        Sexp::List(xs) => match xs.first().and_then(|x| x.as_atom()) {
            Some("e") => serde_json::Value::String(xs[1].as_str().unwrap().to_string()),
            Some("f") => serde_json::Value::Number(serde_json::Number::from_f64(xs[1].as_str().unwrap().parse::<f64>().unwrap()).unwrap()),
            Some("list") => serde_json::Value::Array(xs[1..].iter().map(to_json).collect()),
            Some("obj") => serde_json::Value::Object(xs[1..].iter().map(|kv| (kv.as_list().unwrap()[0].as_str().unwrap().to_string(), to_json(&kv.as_list().unwrap()[1]))).collect()),
            _ => panic!("bad constant"),
        },
    }
}

// ------------------------------------------------------------------ document printer (wire tree -> GraphQL text)

fn p_value(out: &mut String, v: &Sexp) {
    match v {
        Sexp::Atom(a) => out.push_str(a),
        Sexp::Str(s) => out.push_str(&serde_json::to_string(s).unwrap()),
        Sexp::List(xs) => match xs.first().and_then(|x| x.as_atom()) {
            Some("var") => {
                out.push('$');
                out.push_str(xs[1].as_str().unwrap());
            }
            Some("e") => out.push_str(xs[1].as_str().unwrap()),
            Some("f") => out.push_str(xs[1].as_str().unwrap()),
            Some("list") => {
                out.push('[');
                for (i, x) in xs[1..].iter().enumerate() {
                    if i > 0 {
                        out.push(' ');
                    }
                    p_value(out, x);
                }
                out.push(']');
            }
            Some("obj") => {
                out.push('{');
                for (i, x) in xs[1..].iter().enumerate() {
                    if i > 0 {
                        out.push(' ');
                    }
                    let kv = x.as_list().unwrap();
                    out.push_str(kv[0].as_str().unwrap());
                    out.push(':');
                    p_value(out, &kv[1]);
                }
                out.push('}');
            }
            _ => panic!("bad value"),
        },
    }
}
fn p_args(out: &mut String, args: &[Sexp]) {
    if args.is_empty() {
        return;
    }
    out.push('(');
    for (i, a) in args.iter().enumerate() {
        if i > 0 {
            out.push(' ');
        }
        let kv = a.as_list().unwrap();
        out.push_str(kv[0].as_str().unwrap());
        out.push(':');
        p_value(out, &kv[1]);
    }
    out.push(')');
}
fn p_dirs(out: &mut String, dirs: &Sexp) {
    for d in dirs.as_list().unwrap() {
        let a = d.args();
        out.push_str(" @");
        out.push_str(a[0].as_str().unwrap());
        p_args(out, &a[1..]);
    }
}
fn p_sels(out: &mut String, sels: &Sexp) {
    let ss = sels.as_list().unwrap();
    if ss.is_empty() {
        return;
    }
    out.push_str(" {");
    for s in ss {
        let a = s.args();
        out.push(' ');
        match s.tag().unwrap() {
            "field" => {
                if let Some(al) = a[0].as_str() {
                    out.push_str(al);
                    out.push(':');
                }
                out.push_str(a[1].as_str().unwrap());
                p_args(out, a[2].as_list().unwrap());
                p_dirs(out, &a[3]);
                p_sels(out, &a[4]);
            }
            "spread" => {
                out.push_str("...");
                out.push_str(a[0].as_str().unwrap());
                p_dirs(out, &a[1]);
            }
            "inline" => {
                out.push_str("...");
                if let Some(c) = a[0].as_str() {
                    out.push_str(" on ");
                    out.push_str(c);
                }
                p_dirs(out, &a[1]);
                p_sels(out, &a[2]);
            }
            _ => panic!("bad selection"),
        }
    }
    out.push_str(" }");
}
fn p_type(out: &mut String, t: &Sexp) {
    match t {
        Sexp::Str(s) => out.push_str(s),
        Sexp::List(xs) if xs[0].as_atom() == Some("list") => {
            out.push('[');
            p_type(out, &xs[1]);
            out.push(']');
        }
        Sexp::List(xs) if xs[0].as_atom() == Some("nn") => {
            p_type(out, &xs[1]);
            out.push('!');
        }
        _ => panic!("bad type"),
    }
}
fn print_doc(doc: &Sexp) -> String {
    let a = doc.args();
    let mut out = String::new();
    for op in a[0].as_list().unwrap() {
        let o = op.args();
        out.push_str(o[0].as_atom().unwrap());
        if let Some(n) = o[1].as_str() {
            out.push(' ');
            out.push_str(n);
        }
        let vs = o[2].as_list().unwrap();
        if !vs.is_empty() {
            out.push('(');
            for (i, v) in vs.iter().enumerate() {
                if i > 0 {
                    out.push(' ');
                }
                let va = v.args();
                out.push('$');
                out.push_str(va[0].as_str().unwrap());
                out.push(':');
                p_type(&mut out, &va[1]);
                if va[2].tag() == Some("some") {
                    out.push('=');
                    p_value(&mut out, &va[2].args()[0]);
                }
            }
            out.push(')');
        }
        p_dirs(&mut out, &o[3]);
        p_sels(&mut out, &o[4]);
        out.push('\n');
    }
    for f in a[1].as_list().unwrap() {
        let fa = f.args();
        out.push_str("fragment ");
        out.push_str(fa[0].as_str().unwrap());
        out.push_str(" on ");
        out.push_str(fa[1].as_str().unwrap());
        p_dirs(&mut out, &fa[2]);
        p_sels(&mut out, &fa[3]);
        out.push('\n');
    }
    out
}

// ------------------------------------------------------------------ generator

fn pos0() -> Sexp {
    list(vec![num(0), num(0)])
}
fn dir(name: &str, args: Vec<(&str, Sexp)>) -> Sexp {
    let mut v = vec![st(name)];
    for (k, x) in args {
        v.push(list(vec![st(k), x]));
    }
    node("dir", v)
}
fn field(alias: Option<&str>, name: &str, args: Vec<(&str, Sexp)>, dirs: Vec<Sexp>, sels: Vec<Sexp>) -> Sexp {
    node(
        "field",
        vec![
            alias.map(st).unwrap_or(atom("none")),
            st(name),
            list(args.into_iter().map(|(k, x)| list(vec![st(k), x])).collect()),
            list(dirs),
            list(sels),
            pos0(),
        ],
    )
}
fn spread(name: &str, dirs: Vec<Sexp>) -> Sexp {
    node("spread", vec![st(name), list(dirs), pos0()])
}
fn inline(cond: Option<&str>, dirs: Vec<Sexp>, sels: Vec<Sexp>) -> Sexp {
    node("inline", vec![cond.map(st).unwrap_or(atom("none")), list(dirs), list(sels), pos0()])
}
fn op(ty: &str, name: Option<&str>, vars: Vec<Sexp>, dirs: Vec<Sexp>, sels: Vec<Sexp>) -> Sexp {
    node("op", vec![atom(ty), name.map(st).unwrap_or(atom("none")), list(vars), list(dirs), list(sels)])
}
fn frag(name: &str, cond: &str, dirs: Vec<Sexp>, sels: Vec<Sexp>) -> Sexp {
    node("frag", vec![st(name), st(cond), list(dirs), list(sels)])
}
fn doc(ops: Vec<Sexp>, frags: Vec<Sexp>) -> Sexp {
    node("doc", vec![list(ops), list(frags)])
}

/// upper estimate of the selections an unmemoised walker touches (generator-side guard only:
/// keeps every generated case far below 10^5 visits; never used for judging)
fn est(sels: &Sexp, frags: &[(String, Sexp)], fuel: usize, cap: u64) -> u64 {
    let mut t = 0u64;
    for s in sels.as_list().unwrap() {
        t += 1;
        if t > cap {
            return t;
        }
        let a = s.args();
        match s.tag().unwrap() {
            "field" => t += est(&a[4], frags, fuel, cap),
            "inline" => t += est(&a[2], frags, fuel, cap),
            _ => {
                if fuel > 0 {
                    if let Some((_, fs)) = frags.iter().find(|(n, _)| Some(n.as_str()) == a[0].as_str()) {
                        t += est(fs, frags, fuel - 1, cap);
                    }
                }
            }
        }
    }
    t
}

struct G<'a> {
    rng: &'a mut Rng,
    frag_names: Vec<String>,
    /// spreads mostly go to fragments with index >= cur (acyclic)
    cur: usize,
    budget: i64,
}
const CONDS: [&str; 3] = ["Query", "Mutation", "Nope"];
impl G<'_> {
    fn dirs(&mut self) -> Vec<Sexp> {
        let n = match self.rng.below(10) {
            0..=6 => 0,
            7 => 1,
            8 => 2,
            _ => self.rng.below(5),
        };
        (0..n)
            .map(|_| match self.rng.below(4) {
                0 => dir("skip", vec![("if", atom("false"))]),
                1 => dir("include", vec![("if", atom("true"))]),
                2 => dir("include", vec![("if", list(vec![atom("var"), st("v")]))]),
                _ => dir("zz", vec![]),
            })
            .collect()
    }
    fn sels(&mut self, depth: usize) -> Vec<Sexp> {
        let n = 1 + self.rng.below(if depth == 0 { 5 } else { 3 });
        let mut v = Vec::new();
        for _ in 0..n {
            self.budget -= 1;
            let k = self.rng.below(100);
            let deep = depth < 6 && self.budget > 0;
            if k < 40 || !deep && k < 70 {
                // leaf field
                let name = *self.rng.pick(&["a", "b", "__typename", "zz", "a"]);
                let alias = if self.rng.chance(1, 4) { Some(*self.rng.pick(&["a", "k", "b"])) } else { None };
                let args = if name == "a" && self.rng.chance(1, 3) {
                    vec![("x", if self.rng.chance(1, 2) { num(self.rng.below(3)) } else { list(vec![atom("var"), st("v")]) })]
                } else {
                    vec![]
                };
                let d = self.dirs();
                v.push(field(alias, name, args, d, vec![]));
            } else if k < 60 {
                let name = *self.rng.pick(&["q", "l", "q", "zz", "q", "__typename"]);
                let alias = if self.rng.chance(1, 5) { Some("k") } else { None };
                let d = self.dirs();
                let s = self.sels(depth + 1);
                v.push(field(alias, name, vec![], d, s));
            } else if k < 75 {
                let cond = match self.rng.below(4) {
                    0 => None,
                    1 => Some(*self.rng.pick(&CONDS)),
                    _ => Some("Query"),
                };
                let d = self.dirs();
                let s = self.sels(depth + 1);
                v.push(inline(cond, d, s));
            } else if !self.frag_names.is_empty() {
                // named spread: mostly a later fragment (acyclic), sometimes any (cycles), sometimes undefined
                let nf = self.frag_names.len();
                let r = self.rng.below(20);
                let name = if r == 0 {
                    "Undefined".to_string()
                } else if r == 1 || (self.cur >= nf && r < 4) {
                    self.rng.pick(&self.frag_names).clone()
                } else if self.cur < nf {
                    let j = self.cur + self.rng.below(nf - self.cur);
                    self.frag_names[j].clone()
                } else {
                    v.push(field(None, "b", vec![], vec![], vec![]));
                    continue;
                };
                let d = if self.rng.chance(1, 6) { self.dirs() } else { vec![] };
                v.push(spread(&name, d));
            } else {
                v.push(field(None, "a", vec![], vec![], vec![]));
            }
        }
        v
    }
}

fn gen_random(rng: &mut Rng, dist: &mut Dist) -> Sexp {
    loop {
        let nfr = match rng.below(6) {
            0 => 0,
            1 => 1,
            2 => 2,
            _ => 1 + rng.below(6),
        };
        let names: Vec<String> = (0..nfr).map(|i| format!("F{i}")).collect();
        let nops = match rng.below(6) {
            0 | 1 | 2 => 1,
            3 => 2,
            _ => 1 + rng.below(4),
        };
        let mut g = G { rng, frag_names: names.clone(), cur: 0, budget: 40 };
        let mut ops = Vec::new();
        for i in 0..nops {
            g.cur = 0;
            let ty = match g.rng.below(8) {
                0 => "mutation",
                1 => "subscription",
                _ => "query",
            };
            let vars = if g.rng.chance(1, 3) {
                vec![node(
                    "vardef",
                    vec![st("v"), st(if g.rng.chance(1, 2) { "Boolean" } else { "Int" }), if g.rng.chance(1, 2) { node("some", vec![atom("true")]) } else { atom("none") }],
                )]
            } else {
                vec![]
            };
            let d = if g.rng.chance(1, 8) { g.dirs() } else { vec![] };
            let s = g.sels(0);
            let name = if nops == 1 && g.rng.chance(1, 2) { None } else { Some(format!("Op{i}")) };
            ops.push(op(ty, name.as_deref(), vars, d, s));
        }
        let mut frags = Vec::new();
        for i in 0..nfr {
            g.cur = i + 1;
            let cond = if g.rng.chance(1, 6) { *g.rng.pick(&CONDS) } else { "Query" };
            let d = if g.rng.chance(1, 10) { g.dirs() } else { vec![] };
            let s = g.sels(1);
            frags.push(frag(&names[i], cond, d, s));
        }
        // guard: total unmemoised work stays small
        let table: Vec<(String, Sexp)> = frags.iter().map(|f| (f.args()[0].as_str().unwrap().to_string(), f.args()[3].clone())).collect();
        let mut total = 0;
        for o in &ops {
            total += est(&o.args()[4], &table, 40, 20_000);
        }
        if total > 20_000 {
            dist.hit("gen_rejected_too_much_work");
            continue;
        }
        return doc(ops, frags);
    }
}

/// F_0 … F_n, each spreading the next `k` times; the operation spreads F_0 `k0` times
fn chain(n: usize, k: usize, k0: usize, leaf: &str) -> Sexp {
    let mut frags = Vec::new();
    for i in 0..=n {
        let s = if i < n { (0..k).map(|_| spread(&format!("F{}", i + 1), vec![])).collect() } else { vec![field(None, leaf, vec![], vec![], vec![])] };
        frags.push(frag(&format!("F{i}"), "Query", vec![], s));
    }
    doc(vec![op("query", None, vec![], vec![], (0..k0).map(|_| spread("F0", vec![])).collect())], frags)
}

// ------------------------------------------------------------------ input-value families

fn vlist(xs: Vec<Sexp>) -> Sexp {
    node("list", xs)
}
fn vobj(fs: Vec<(&str, Sexp)>) -> Sexp {
    node("obj", fs.into_iter().map(|(k, v)| list(vec![st(k), v])).collect())
}
fn venum(n: &str) -> Sexp {
    node("e", vec![st(n)])
}
fn vvar(n: &str) -> Sexp {
    list(vec![atom("var"), st(n)])
}
fn tlist(t: Sexp) -> Sexp {
    node("list", vec![t])
}
fn tnn(t: Sexp) -> Sexp {
    node("nn", vec![t])
}
/// a constant as it arrives in the request's variables (JSON has no enum values: strings)
fn jsonify(v: &Sexp) -> Sexp {
    match v {
        Sexp::List(xs) => match xs.first().and_then(|x| x.as_atom()) {
            Some("e") => xs[1].clone(),
            Some("list") => node("list", xs[1..].iter().map(jsonify).collect()),
            Some("obj") => node("obj", xs[1..].iter().map(|kv| list(vec![kv.as_list().unwrap()[0].clone(), jsonify(&kv.as_list().unwrap()[1])])).collect()),
            _ => v.clone(),
        },
        _ => v.clone(),
    }
}
fn vardef(name: &str, ty: Sexp, default: Option<Sexp>) -> Sexp {
    node("vardef", vec![st(name), ty, default.map(|d| node("some", vec![d])).unwrap_or(atom("none"))])
}
const BASES: [&str; 7] = ["Int", "String", "Boolean", "Color", "Filter", "Float", "ID"];
/// a value that IS valid for the named type (small ints only: the range of Int is another property's business)
fn good_leaf(rng: &mut Rng, base: &str) -> Sexp {
    match base {
        "Int" => num(rng.range(-5, 100)),
        "String" => st(*rng.pick(&["", "s", "RED"])),
        "Boolean" => atom(*rng.pick(&["true", "false"])),
        "Color" => venum(*rng.pick(&["RED", "GREEN"])),
        "Float" => {
            if rng.chance(1, 2) {
                node("f", vec![st("1.5")])
            } else {
                num(rng.below(9))
            }
        }
        "ID" => {
            if rng.chance(1, 2) {
                st("id1")
            } else {
                num(rng.below(9))
            }
        }
        "Pt" => match rng.below(3) {
            0 => vobj(vec![("x", num(1))]),
            1 => vobj(vec![("tag", st("t")), ("x", num(2)), ("y", num(3))]),
            _ => vobj(vec![("y", atom("null")), ("x", num(0))]),
        },
        "One" => match rng.below(3) {
            0 => vobj(vec![("i", num(1))]),
            1 => vobj(vec![("s", st("x"))]),
            _ => vobj(vec![("p", vobj(vec![("x", num(1))]))]),
        },
        _ => match rng.below(4) {
            0 => vobj(vec![]),
            1 => vobj(vec![("eq", num(rng.below(5)))]),
            2 => vobj(vec![("c", venum("GREEN")), ("eq", atom("null"))]),
            _ => vobj(vec![("tags", vlist(vec![st("a"), atom("null")])), ("not", vobj(vec![("eq", num(1))]))]),
        },
    }
}
/// a non-null value that is NOT valid for the named type
fn bad_leaf(rng: &mut Rng, base: &str) -> Sexp {
    match base {
        "Int" => match rng.below(3) {
            0 => st("x"),
            1 => atom("true"),
            _ => node("f", vec![st("1.5")]),
        },
        "String" => num(3),
        "Boolean" => num(1),
        "Color" => match rng.below(3) {
            0 => venum("BLUE"),
            1 => num(2),
            _ => atom("true"),
        },
        "Float" => st("1.5"),
        "ID" => atom("true"),
        "Pt" => match rng.below(5) {
            0 => vobj(vec![("y", num(1))]),
            1 => vobj(vec![("tag", num(1)), ("x", st("bad"))]),
            2 => vobj(vec![("x", num(1)), ("zz", num(2))]),
            3 => vobj(vec![("x", num(1)), ("x", st("later occurrence wins"))]),
            _ => num(5),
        },
        "One" => match rng.below(5) {
            0 => vobj(vec![]),
            1 => vobj(vec![("i", num(1)), ("s", st("x"))]),
            2 => vobj(vec![("i", atom("null"))]),
            3 => vobj(vec![("p", vobj(vec![("y", num(1))]))]),
            _ => vobj(vec![("i", st("x"))]),
        },
        _ => match rng.below(5) {
            0 => vobj(vec![("eq", st("x"))]),
            1 => vobj(vec![("zz", num(1))]),
            2 => num(3),
            3 => vobj(vec![("and", vlist(vec![vobj(vec![]), vobj(vec![("c", venum("BLUE"))])]))]),
            _ => vobj(vec![("tags", vlist(vec![st("a"), num(1), st("b")]))]),
        },
    }
}
fn leaf_of(rng: &mut Rng, base: &str, bad: bool) -> Sexp {
    if bad {
        bad_leaf(rng, base)
    } else {
        good_leaf(rng, base)
    }
}
/// `d` list levels around leaves of `base`; `bad_at`: the path (element index per level) of the one
/// invalid leaf, if any.  `widths[i]` elements at level i.
fn nested(rng: &mut Rng, base: &str, widths: &[usize], bad_at: Option<&[usize]>) -> Sexp {
    match widths.split_first() {
        None => leaf_of(rng, base, bad_at.is_some()),
        Some((&w, rest)) => vlist(
            (0..w)
                .map(|i| {
                    let here = bad_at.filter(|p| p[0] == i).map(|p| &p[1..]);
                    nested(rng, base, rest, here)
                })
                .collect(),
        ),
    }
}
/// `{and: [ … {and: [LEAF]} … ]}` — list levels through the recursive input object
fn nested_filter(rng: &mut Rng, d: usize, bad: bool) -> Sexp {
    if d == 0 {
        return leaf_of(rng, "Filter", bad);
    }
    let inner = nested_filter(rng, d - 1, bad);
    let mut elems = vec![];
    if rng.chance(1, 4) {
        elems.push(good_leaf(rng, "Filter"));
    }
    elems.push(inner);
    if rng.chance(1, 4) {
        elems.push(good_leaf(rng, "Filter"));
    }
    let mut fs = vec![];
    if rng.chance(1, 4) {
        fs.push(("eq", num(1)));
    }
    if rng.chance(1, 6) {
        // through `not` instead of a list level
        fs.push(("not", vobj(vec![("and", vlist(elems))])));
    } else {
        fs.push(("and", vlist(elems)));
    }
    if rng.chance(1, 4) {
        fs.push(("c", venum("RED")));
    }
    vobj(fs)
}
/// a value for one of the arguments of `Query.f`: (argument name, value, supplied variables)
fn f_arg(rng: &mut Rng, vars: &mut Vec<(String, Sexp)>) -> (&'static str, Sexp) {
    const ARGS: [(&str, &str, usize); 11] =
        [("p", "Filter", 0), ("ps", "Filter", 1), ("e", "Color", 0), ("ids", "Int", 2), ("nn", "Int", 1), ("pt", "Pt", 0), ("one", "One", 0), ("s", "String", 0), ("id", "ID", 0), ("fl", "Float", 0), ("b", "Boolean", 0)];
    let (name, base, lists) = *rng.pick(&ARGS);
    let bad = rng.chance(1, 3);
    let mut v = match rng.below(10) {
        0 => atom("null"),
        // a scalar where a list is expected (input coercion: the same value against the inner type)
        1 => leaf_of(rng, base, bad),
        _ => {
            let widths: Vec<usize> = (0..lists).map(|_| 1 + rng.below(3)).collect();
            let path: Vec<usize> = widths.iter().map(|w| rng.below(*w)).collect();
            nested(rng, base, &widths, if bad { Some(&path) } else { None })
        }
    };
    // sometimes through a variable (with or without a supplied value), whole or as a list element
    match rng.below(8) {
        0 => {
            let vn = format!("w{}", vars.len());
            if rng.chance(3, 4) {
                vars.push((vn.clone(), jsonify(&v)));
            }
            v = vvar(&vn);
        }
        1 if lists > 0 => {
            let vn = format!("w{}", vars.len());
            if rng.chance(3, 4) {
                let b = rng.chance(1, 3);
                vars.push((vn.clone(), jsonify(&leaf_of(rng, base, b))));
            }
            v = vlist(vec![v, vvar(&vn)]);
        }
        _ => {}
    }
    (name, v)
}
fn vdir(rng: &mut Rng, vars: &mut Vec<(String, Sexp)>) -> Sexp {
    let name = *rng.pick(&["skip", "include", "include", "zz", "deprecated"]);
    let v = match rng.below(6) {
        0 => num(1),
        1 => vlist(vec![vlist(vec![atom("true")])]),
        2 => atom("null"),
        3 => {
            if rng.chance(1, 2) && !vars.iter().any(|(n, _)| n == "bv") {
                vars.push(("bv".to_string(), atom(*rng.pick(&["true", "1"]))));
            }
            vvar("bv")
        }
        _ => atom("true"),
    };
    dir(name, vec![(*rng.pick(&["if", "if", "if", "reason", "zz"]), v)])
}
/// selections that put values everywhere the walker looks (and in places it does not)
fn value_sels(rng: &mut Rng, vars: &mut Vec<(String, Sexp)>, depth: usize) -> Vec<Sexp> {
    let n = 1 + rng.below(3);
    let mut out = vec![];
    for _ in 0..n {
        let dirs: Vec<Sexp> = (0..if rng.chance(1, 4) { 1 + rng.below(2) } else { 0 }).map(|_| vdir(rng, vars)).collect();
        match rng.below(12) {
            0..=4 => {
                let k = 1 + rng.below(3);
                let args: Vec<(&str, Sexp)> = (0..k).map(|_| f_arg(rng, vars)).collect();
                out.push(field(if rng.chance(1, 3) { Some("k") } else { None }, "f", args, dirs, vec![]));
            }
            5 => out.push(field(None, "a", vec![("x", if rng.chance(1, 2) { st("bad") } else { vlist(vec![num(1)]) })], dirs, vec![])),
            6 if depth < 3 => {
                let sub = value_sels(rng, vars, depth + 1);
                out.push(field(None, *rng.pick(&["q", "l", "zz"]), vec![], dirs, sub));
            }
            7 if depth < 3 => {
                // under another (or an unknown) type the arguments of `f` are unknown: nothing is checked
                let sub = value_sels(rng, vars, depth + 1);
                out.push(inline(Some(*rng.pick(&["Query", "Mutation", "Nope", "Filter"])), dirs, sub));
            }
            8 if depth < 3 => {
                let sub = value_sels(rng, vars, depth + 1);
                out.push(inline(None, dirs, sub));
            }
            9 => out.push(spread("VF", dirs)),
            10 => out.push(field(None, "__typename", vec![("x", num(1))], dirs, vec![])),
            _ => out.push(field(None, "zz", vec![("x", st("unknown field"))], dirs, vec![])),
        }
    }
    out
}
fn random_type(rng: &mut Rng, base: &str, layers: usize) -> Sexp {
    let mut t = st(base);
    if rng.chance(1, 4) {
        t = tnn(t);
    }
    for _ in 0..layers {
        t = tlist(t);
        if rng.chance(1, 4) {
            t = tnn(t);
        }
    }
    t
}

/// (document, request, family)
fn gen_value_doc(rng: &mut Rng) -> (Sexp, Sexp, &'static str) {
    let mut vars: Vec<(String, Sexp)> = vec![];
    let mut opname = atom("none");
    let (d, fam) = match rng.below(6) {
        0 | 1 => {
            // `$v: [[[[T]]]] = [[[[bad]]]]`: list levels written in the document itself (any schema)
            let nv = 1 + rng.below(2);
            let mut defs = vec![];
            for i in 0..nv {
                let base = *rng.pick(&BASES);
                let depth = rng.below(13);
                let widths: Vec<usize> = (0..depth).map(|_| if rng.chance(1, 4) { 2 + rng.below(2) } else { 1 }).collect();
                let path: Vec<usize> = widths.iter().map(|w| rng.below(*w)).collect();
                let bad = rng.chance(3, 4);
                let v = nested(rng, base, &widths, if bad { Some(&path) } else { None });
                // the declared type has `depth` list levels, sometimes fewer or more (coercion / mismatch)
                let layers = match rng.below(8) {
                    0 => depth + 1 + rng.below(3),
                    1 => depth.saturating_sub(1),
                    _ => depth,
                };
                defs.push(vardef(&format!("v{i}"), random_type(rng, base, layers), Some(v)));
            }
            let ty = *rng.pick(&["query", "query", "query", "mutation"]);
            (doc(vec![op(ty, None, defs, vec![], vec![field(None, "a", vec![("x", vvar("v0"))], vec![], vec![])])], vec![]), "fam_value_nested_default")
        }
        2 => {
            // list levels through the recursive input object, as a literal or through a variable
            let depth = rng.below(11);
            let bad = rng.chance(3, 4);
            let v = nested_filter(rng, depth, bad);
            let arg = if rng.chance(1, 3) {
                vars.push(("p".to_string(), jsonify(&v)));
                vvar("p")
            } else {
                v
            };
            let uses = 1 + rng.below(3);
            let sels: Vec<Sexp> = (0..uses).map(|i| field(Some(&format!("k{i}")), "f", vec![if rng.chance(1, 3) { ("ps", vlist(vec![arg.clone()])) } else { ("p", arg.clone()) }], vec![], vec![])).collect();
            (doc(vec![op("query", None, vec![vardef("p", st("Filter"), None)], vec![], sels)], vec![]), "fam_value_nested_input")
        }
        3 => {
            // wide lists
            let w = rng.below(200);
            let bad_at = if rng.chance(1, 2) { Some(rng.below(w + 1)) } else { None };
            let row: Vec<Sexp> = (0..w).map(|i| if Some(i) == bad_at { st("x") } else if rng.chance(1, 20) { atom("null") } else { num(i) }).collect();
            let (name, v) = match rng.below(3) {
                0 => ("nn", vlist(row)),
                1 => ("ids", vlist(vec![vlist(row.clone()), vlist(row)])),
                _ => ("ids", vlist(row.into_iter().map(|x| vlist(vec![x])).collect())),
            };
            let arg = if rng.chance(1, 3) {
                vars.push(("w".to_string(), jsonify(&v)));
                vvar("w")
            } else {
                v
            };
            (doc(vec![op("query", None, vec![vardef("w", tlist(st("Int")), None)], vec![], vec![field(None, "f", vec![(name, arg)], vec![], vec![])])], vec![]), "fam_value_wide")
        }
        _ => {
            // values everywhere: field and directive arguments, fragments, several operations
            let nops = 1 + rng.below(3);
            let mut ops = vec![];
            for i in 0..nops {
                let mut defs = vec![];
                for j in 0..rng.below(3) {
                    let base = *rng.pick(&["Int", "Color", "Filter", "Pt", "One", "Nope", "String"]);
                    let layers = if base == "Nope" { 0 } else { rng.below(3) };
                    let widths: Vec<usize> = (0..layers).map(|_| 1 + rng.below(2)).collect();
                    let path: Vec<usize> = widths.iter().map(|_| 0).collect();
                    let bad = rng.chance(1, 2);
                    let default = if rng.chance(3, 4) { Some(nested(rng, if base == "Nope" { "Int" } else { base }, &widths, if bad { Some(&path) } else { None })) } else { None };
                    defs.push(vardef(&format!("d{j}"), random_type(rng, base, layers), default));
                }
                let ty = *rng.pick(&["query", "query", "query", "mutation", "subscription"]);
                let odirs = if rng.chance(1, 5) { vec![vdir(rng, &mut vars)] } else { vec![] };
                let sels = if ty == "query" { value_sels(rng, &mut vars, 0) } else { vec![field(None, "a", vec![("x", num(1))], vec![], vec![])] };
                let name = if nops == 1 && rng.chance(1, 2) { None } else { Some(format!("Op{i}")) };
                ops.push(op(ty, name.as_deref(), defs, odirs, sels));
            }
            if nops > 1 && rng.chance(1, 2) {
                // variables do not apply to the operations that are not selected
                opname = st(format!("Op{}", rng.below(nops + 1)));
            }
            let fdirs = if rng.chance(1, 4) { vec![vdir(rng, &mut vars)] } else { vec![] };
            let fsels = value_sels(rng, &mut vars, 2);
            (doc(ops, vec![frag("VF", *rng.pick(&["Query", "Query", "Mutation", "Nope"]), fdirs, fsels)]), "fam_value_mixed")
        }
    };
    let req = node("req", vec![opname, node("vars", vars.into_iter().map(|(k, v)| list(vec![st(k), v])).collect())]);
    (d, req, fam)
}

fn gen_doc(rng: &mut Rng, dist: &mut Dist) -> (Sexp, &'static str) {
    match rng.below(20) {
        0 | 1 | 2 => {
            // fan-out chain, at most ~2·10^4 visits per walker (the n = 14 witness lives in the corpus)
            let k = 2 + rng.below(2);
            let maxn = if k == 2 { 12 } else { 7 };
            let n = rng.below(maxn + 1);
            let leaf = *rng.pick(&["a", "zz"]);
            (chain(n, k, 1 + rng.below(2), leaf), "fam_chain")
        }
        3 => {
            // wide overlapping selections
            let w = 1 + rng.below(40);
            let mut s = Vec::new();
            for _ in 0..w {
                let name = *rng.pick(&["a", "b"]);
                let alias = if rng.chance(1, 2) { Some(*rng.pick(&["a", "b", "k"])) } else { None };
                let args = if name == "a" && rng.chance(1, 2) { vec![("x", num(rng.below(2)))] } else { vec![] };
                if rng.chance(1, 5) {
                    s.push(inline(Some("Query"), vec![], vec![field(alias, name, args, vec![], vec![])]));
                } else if rng.chance(1, 6) {
                    s.push(spread("W", vec![]));
                } else {
                    s.push(field(alias, name, args, vec![], vec![]));
                }
            }
            let inner = if rng.chance(1, 2) { vec![field(None, "q", vec![], vec![], s.clone())] } else { s.clone() };
            (doc(vec![op("query", None, vec![], vec![], inner)], vec![frag("W", "Query", vec![], vec![field(Some("k"), "a", vec![], vec![], vec![]), field(None, "b", vec![], vec![], vec![])])]), "fam_wide")
        }
        4 => {
            // deep nesting of inline fragments / fields (around the recursion limit)
            let d = rng.below(40);
            let mut s = vec![field(None, "a", vec![], vec![], vec![])];
            for _ in 0..d {
                s = if rng.chance(2, 3) { vec![inline(if rng.chance(1, 2) { Some("Query") } else { None }, vec![], s)] } else { vec![field(None, "q", vec![], vec![], s), field(None, "b", vec![], vec![], vec![])] };
            }
            (doc(vec![op("query", None, vec![], vec![], s)], vec![]), "fam_deep")
        }
        5 => {
            // many operations sharing fragments
            let m = 2 + rng.below(18);
            let ops = (0..m)
                .map(|i| {
                    let ty = if rng.chance(1, 6) { "mutation" } else { "query" };
                    let mut s = vec![spread("S", vec![])];
                    if rng.chance(1, 2) {
                        s.push(spread("T", vec![]));
                    }
                    if rng.chance(1, 3) {
                        s.push(field(None, "a", vec![], (0..rng.below(4)).map(|_| dir("skip", vec![("if", atom("false"))])).collect(), vec![]));
                    }
                    op(ty, Some(&format!("Op{i}")), vec![], vec![], s)
                })
                .collect();
            (
                doc(
                    ops,
                    vec![
                        frag("S", "Query", vec![], vec![field(None, "a", vec![], vec![], vec![]), spread("T", vec![]), spread("T", vec![])]),
                        frag("T", "Query", vec![], vec![field(None, "q", vec![], vec![], vec![field(None, "b", vec![], vec![], vec![])])]),
                    ],
                ),
                "fam_many_ops",
            )
        }
        6 => {
            // cyclic fragments (must stop at the recursion limit after few visits)
            let k = 1 + rng.below(3);
            let mut frags = Vec::new();
            for i in 0..k {
                let mut s = vec![];
                if rng.chance(1, 2) {
                    s.push(field(None, "a", vec![], vec![], vec![]));
                }
                s.push(spread(&format!("C{}", (i + 1) % k), vec![]));
                if rng.chance(1, 2) {
                    s.push(spread(&format!("C{}", rng.below(k)), vec![]));
                }
                frags.push(frag(&format!("C{i}"), "Query", vec![], s));
            }
            let reach = rng.chance(3, 4);
            let s = if reach { vec![field(None, "b", vec![], vec![], vec![]), spread("C0", vec![])] } else { vec![field(None, "b", vec![], vec![], vec![])] };
            (doc(vec![op("query", None, vec![], vec![], s)], frags), "fam_cycle")
        }
        _ => {
            let _ = dist;
            (gen_random(rng, dist), "random")
        }
    }
}

fn gen_case(rng: &mut Rng, _i: usize, _o: &Opts, dist: &mut Dist) -> Sexp {
    let value_family = rng.chance(3, 10);
    let (d, req, fam) = if value_family {
        gen_value_doc(rng)
    } else {
        let (d, fam) = gen_doc(rng, dist);
        // the documents use `$v` in arguments and directives: sometimes it has a value
        let req = match rng.below(4) {
            0 => node("req", vec![atom("none"), node("vars", vec![list(vec![st("v"), atom(*rng.pick(&["true", "1", "null"]))])])]),
            _ => node("req", vec![atom("none"), node("vars", vec![])]),
        };
        (d, req, fam)
    };
    dist.hit(fam);
    let mode = if rng.chance(if value_family { 4 } else { 1 }, if value_family { 5 } else { 2 }) { "strict" } else { "fast" };
    let roots = if rng.chance(1, 2) { "full" } else { "qonly" };
    let rl = match rng.below(10) {
        0..=5 => 32,
        6 => rng.below(4),
        7 => 4 + rng.below(8),
        _ => 16,
    };
    let md = match rng.below(4) {
        0 => num(rng.below(3)),
        1 => num(3 + rng.below(3)),
        _ => atom("none"),
    };
    dist.hit(&format!("mode_{mode}"));
    dist.hit(&format!("roots_{roots}"));
    node("case", vec![node("cfg", vec![atom(mode), atom(roots), num(rl), md]), d, req])
}

// ------------------------------------------------------------------ runner

fn run(case: &Sexp, dist: &mut Dist) -> Sexp {
    let a = case.args();
    let cfg = a[0].args();
    let mode = if cfg[0].as_atom() == Some("strict") { ValidationMode::Strict } else { ValidationMode::Fast };
    let full = cfg[1].as_atom() == Some("full");
    let rl = cfg[2].as_usize().expect("rl");
    let md = cfg[3].as_usize();
    let text = print_doc(&a[1]);
    if std::env::var("AGV_DEBUG").is_ok() {
        eprintln!("{text}");
    }
    let mut req = async_graphql::Request::new(text);
    if let Some(r) = a.get(2) {
        let ra = r.args();
        if let Some(n) = ra[0].as_str() {
            req = req.operation_name(n);
        }
        // the first entry of a repeated name wins (`List.find?` in the model)
        let mut m = serde_json::Map::new();
        for kv in ra[1].args() {
            let kv = kv.as_list().unwrap();
            let k = kv[0].as_str().unwrap().to_string();
            if !m.contains_key(&k) {
                m.insert(k, to_json(&kv[1]));
            }
        }
        req = req.variables(async_graphql::Variables::from_json(serde_json::Value::Object(m)));
    }
    let order: Vec<Sexp> = match req.parsed_query() {
        Ok(d) => d.operations.iter().map(|(n, _)| n.map(|n| st(n.as_str())).unwrap_or(atom("none"))).collect(),
        Err(_) => {
            dist.hit("out_parse_error");
            return node("out", vec![atom("parse")]);
        }
    };
    async_graphql::__verif::reset();
    let resp = if full {
        let mut b = Schema::build(Query, Mutation, Sub).validation_mode(mode).limit_recursive_depth(rl);
        if let Some(m) = md {
            b = b.limit_directives(m);
        }
        spin_on(b.finish().execute(req))
    } else {
        let mut b = Schema::build(Query, EmptyMutation, EmptySubscription).validation_mode(mode).limit_recursive_depth(rl);
        if let Some(m) = md {
            b = b.limit_directives(m);
        }
        spin_on(b.finish().execute(req))
    };
    let c = async_graphql::__verif::counters();
    let msg = resp.errors.first().map(|e| e.message.as_str()).unwrap_or("");
    let stage = if msg.starts_with("The recursion depth of the query cannot be greater than") {
        "depth"
    } else if msg.starts_with("The number of directives on the field") {
        "directives"
    } else {
        "done"
    };
    dist.hit(&format!("out_stage_{stage}"));
    if stage == "done" {
        dist.hit(if resp.errors.is_empty() { "out_done_executed_ok" } else { "out_done_with_errors" });
    }
    let total: u64 = c[2] + c[3] + c[4] + c[5];
    dist.hit(match total {
        0..=9 => "visits_0_9",
        10..=99 => "visits_10_99",
        100..=999 => "visits_100_999",
        1000..=9999 => "visits_1k_10k",
        _ => "visits_10k_up",
    });
    let cs: &[u64] = &c;
    if let Some(v) = cs.get(8) {
        dist.hit(match *v {
            0 => "value_checks_0",
            1..=9 => "value_checks_1_9",
            10..=99 => "value_checks_10_99",
            100..=999 => "value_checks_100_999",
            _ => "value_checks_1k_up",
        });
    } else {
        dist.hit("hook_without_value_checks");
    }
    node("out", vec![node("order", order), atom(stage), list(c.iter().map(|x| num(*x)).collect()), registry_sexp(full)])
}

fn main() {
    main_loop(&mut gen_case, &mut run);
}
