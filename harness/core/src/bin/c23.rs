//! C23 — all HTTP request encodings decode to the same request; batches keep order.
//!
//! JSON trees travel as  null | true | false | (i N) | (s "text") | (a J…) | (o ("key" J)…)
//! (object members keep their order and may repeat a key).
//!
//! Case kinds
//!   (get STYLE (("key" "value" [J])…))   query string made of these pairs (STYLE std = serde_urlencoded,
//!                                  all = every byte percent-encoded) → `parse_query_string`.  The optional
//!                                  J is the tree the value denotes as JSON text (absent: not JSON) —
//!                                  used by the Lean side only, the harness sends the text.
//!   (json CT FMT J)                J printed as JSON text (FMT compact|spaced) with content type CT
//!                                  (none|json|gql|text) → `receive_batch_body` and `receive_body`
//!   (jsontext "text")              raw body text (not JSON) → both functions
//!   (multipart (PART…))            hand-written multipart/form-data body → both functions;
//!                                  PART = (ops J) | (opsct "content/type" J) | (map) | (field "name" "text")
//!   (mpnoboundary J)               content type multipart/form-data without boundary parameter
//!   (exec WHICH J)                 body J decoded by `receive_batch_body`, executed by
//!                                  `Schema::execute_batch` (WHICH = schema) or the `Executor` trait's
//!                                  provided method (WHICH = executor) on an echo schema
//! Output
//!   get:                (ok REQ) | (err query-string|variables|extensions)
//!   json/multipart/...: (both B S)   B = (single REQ) | (batch REQ…) | (err KIND), S = (ok REQ) | (err KIND)
//!   exec:               (single RESP) | (batch RESP…) | (err KIND)    RESP = (data J) | (errors)
//!   REQ = (req "query" none|(some "op") VARS EXTS) with VARS/EXTS canonical trees (keys sorted,
//!   last duplicate wins).

use std::{
    future::Future,
    pin::Pin,
    task::{Context, Poll},
};

use agvh::*;
use async_graphql::{
    BatchRequest, BatchResponse, EmptyMutation, EmptySubscription, Executor, Object, ParseRequestError, Request,
    Response, Schema,
    http::{MultipartOptions, parse_query_string, receive_batch_body, receive_body},
};

// ------------------------------------------------------------------ JSON trees

#[derive(Clone, Debug, PartialEq)]
enum J {
    Null,
    Bool(bool),
    Int(i128),
    Str(String),
    Arr(Vec<J>),
    Obj(Vec<(String, J)>),
}

fn j_to_sexp(j: &J) -> Sexp {
    match j {
        J::Null => atom("null"),
        J::Bool(true) => atom("true"),
        J::Bool(false) => atom("false"),
        J::Int(n) => node("i", vec![num(n)]),
        J::Str(s) => node("s", vec![st(s.clone())]),
        J::Arr(xs) => node("a", xs.iter().map(j_to_sexp).collect()),
        J::Obj(kvs) => node("o", kvs.iter().map(|(k, v)| list(vec![st(k.clone()), j_to_sexp(v)])).collect()),
    }
}

fn j_of_sexp(s: &Sexp) -> Option<J> {
    match s {
        Sexp::Atom(a) => match a.as_str() {
            "null" => Some(J::Null),
            "true" => Some(J::Bool(true)),
            "false" => Some(J::Bool(false)),
            _ => None,
        },
        Sexp::List(_) => match s.tag()? {
            "i" => Some(J::Int(s.args().first()?.as_atom()?.parse().ok()?)),
            "s" => Some(J::Str(s.args().first()?.as_str()?.to_string())),
            "a" => s.args().iter().map(j_of_sexp).collect::<Option<Vec<_>>>().map(J::Arr),
            "o" => s
                .args()
                .iter()
                .map(|p| {
                    let p = p.as_list()?;
                    Some((p.first()?.as_str()?.to_string(), j_of_sexp(p.get(1)?)?))
                })
                .collect::<Option<Vec<_>>>()
                .map(J::Obj),
            _ => None,
        },
        _ => None,
    }
}

/// JSON text of a tree (members in the given order, duplicates kept)
fn j_text(j: &J, spaced: bool, out: &mut String) {
    let sp = if spaced { " " } else { "" };
    match j {
        J::Null => out.push_str("null"),
        J::Bool(b) => out.push_str(if *b { "true" } else { "false" }),
        J::Int(n) => out.push_str(&n.to_string()),
        J::Str(s) => out.push_str(&serde_json::to_string(s).unwrap()),
        J::Arr(xs) => {
            out.push('[');
            out.push_str(sp);
            for (i, x) in xs.iter().enumerate() {
                if i > 0 {
                    out.push(',');
                    out.push_str(if spaced { "\n\t" } else { "" });
                }
                j_text(x, spaced, out);
            }
            out.push_str(sp);
            out.push(']');
        }
        J::Obj(kvs) => {
            out.push('{');
            out.push_str(sp);
            for (i, (k, v)) in kvs.iter().enumerate() {
                if i > 0 {
                    out.push(',');
                    out.push_str(if spaced { "\r\n " } else { "" });
                }
                out.push_str(&serde_json::to_string(k).unwrap());
                out.push_str(sp);
                out.push(':');
                out.push_str(sp);
                j_text(v, spaced, out);
            }
            out.push_str(sp);
            out.push('}');
        }
    }
}

fn text_of(j: &J, spaced: bool) -> String {
    let mut s = String::new();
    j_text(j, spaced, &mut s);
    s
}

/// canonical tree of a decoded value: keys sorted (maps have no order)
fn canon(v: &serde_json::Value) -> Sexp {
    use serde_json::Value as V;
    match v {
        V::Null => atom("null"),
        V::Bool(true) => atom("true"),
        V::Bool(false) => atom("false"),
        V::Number(n) => node("i", vec![atom(n.to_string())]),
        V::String(s) => node("s", vec![st(s.clone())]),
        V::Array(xs) => node("a", xs.iter().map(canon).collect()),
        V::Object(m) => {
            let mut kv: Vec<(&String, &V)> = m.iter().collect();
            kv.sort_by(|a, b| a.0.cmp(b.0));
            node("o", kv.into_iter().map(|(k, v)| list(vec![st(k.clone()), canon(v)])).collect())
        }
    }
}

fn req_sexp(r: &Request) -> Sexp {
    let vars = serde_json::to_value(&r.variables).expect("variables to json");
    let exts = serde_json::to_value(&r.extensions).expect("extensions to json");
    node(
        "req",
        vec![
            st(r.query.clone()),
            match &r.operation_name {
                None => atom("none"),
                Some(s) => node("some", vec![st(s.clone())]),
            },
            canon(&vars),
            canon(&exts),
        ],
    )
}

fn err_kind(e: &ParseRequestError) -> &'static str {
    match e {
        ParseRequestError::Io(_) => "io",
        ParseRequestError::InvalidRequest(_) => "invalid-request",
        ParseRequestError::InvalidFilesMap(_) => "invalid-files-map",
        ParseRequestError::InvalidMultipart(_) => "invalid-multipart",
        ParseRequestError::MissingOperatorsPart => "missing-operations",
        ParseRequestError::MissingMapPart => "missing-map",
        ParseRequestError::NotUpload => "not-upload",
        ParseRequestError::MissingFiles => "missing-files",
        ParseRequestError::PayloadTooLarge => "payload-too-large",
        ParseRequestError::UnsupportedBatch => "unsupported-batch",
        _ => "other",
    }
}

fn err(k: &str) -> Sexp {
    node("err", vec![atom(k)])
}

fn batch_sexp(r: &Result<BatchRequest, ParseRequestError>) -> Sexp {
    match r {
        Ok(BatchRequest::Single(r)) => node("single", vec![req_sexp(r)]),
        Ok(BatchRequest::Batch(rs)) => node("batch", rs.iter().map(req_sexp).collect()),
        Err(e) => err(err_kind(e)),
    }
}

fn single_sexp(r: &Result<Request, ParseRequestError>) -> Sexp {
    match r {
        Ok(r) => node("ok", vec![req_sexp(r)]),
        Err(e) => err(err_kind(e)),
    }
}

fn both(ct: Option<&str>, body: &[u8]) -> Sexp {
    let b = spin_on(receive_batch_body(ct, body, MultipartOptions::default()));
    let s = spin_on(receive_body(ct, body, MultipartOptions::default()));
    node("both", vec![batch_sexp(&b), single_sexp(&s)])
}

// ------------------------------------------------------------------ echo schema (batch order)

struct YieldN(u32);
impl Future for YieldN {
    type Output = ();
    fn poll(mut self: Pin<&mut Self>, cx: &mut Context<'_>) -> Poll<()> {
        if self.0 == 0 {
            Poll::Ready(())
        } else {
            self.0 -= 1;
            cx.waker().wake_by_ref();
            Poll::Pending
        }
    }
}

struct Query;
#[Object]
impl Query {
    /// returns `v` after yielding `d` times (a later request of a batch can finish first)
    async fn echo(&self, v: Option<String>, d: Option<i32>) -> Option<String> {
        YieldN(d.unwrap_or(0).clamp(0, 50) as u32).await;
        v
    }
}

pub const ECHO_QUERY: &str = "query($v: String, $d: Int) { echo(v: $v, d: $d) }";

fn resp_sexp(r: &Response) -> Sexp {
    if r.errors.is_empty() {
        let v = serde_json::to_value(&r.data).expect("data to json");
        node("data", vec![canon(&v)])
    } else {
        node("errors", vec![])
    }
}

// ------------------------------------------------------------------ transports

fn pct_all(s: &str) -> String {
    let mut o = String::new();
    for b in s.bytes() {
        o.push_str(&format!("%{:02X}", b));
    }
    o
}

fn build_multipart(parts: &[Sexp]) -> Option<(String, Vec<u8>)> {
    // (name, content type, content)
    let mut fields: Vec<(String, Option<String>, String)> = vec![];
    for p in parts {
        match p.tag()? {
            "ops" => fields.push(("operations".into(), None, text_of(&j_of_sexp(p.args().first()?)?, false))),
            "opsct" => fields.push((
                "operations".into(),
                Some(p.args().first()?.as_str()?.to_string()),
                text_of(&j_of_sexp(p.args().get(1)?)?, false),
            )),
            "map" => fields.push(("map".into(), None, "{}".into())),
            "field" => fields.push((
                p.args().first()?.as_str()?.to_string(),
                None,
                p.args().get(1)?.as_str()?.to_string(),
            )),
            _ => return None,
        }
    }
    let mut n = 0;
    let boundary = loop {
        let b = format!("----agvC23x{n}");
        if fields.iter().all(|f| !f.2.contains(&b) && !f.0.contains(&b)) {
            break b;
        }
        n += 1;
    };
    let mut body: Vec<u8> = vec![];
    for (name, ct, content) in &fields {
        body.extend_from_slice(format!("--{boundary}\r\n").as_bytes());
        body.extend_from_slice(format!("Content-Disposition: form-data; name=\"{name}\"\r\n").as_bytes());
        if let Some(ct) = ct {
            body.extend_from_slice(format!("Content-Type: {ct}\r\n").as_bytes());
        }
        body.extend_from_slice(b"\r\n");
        body.extend_from_slice(content.as_bytes());
        body.extend_from_slice(b"\r\n");
    }
    body.extend_from_slice(format!("--{boundary}--\r\n").as_bytes());
    Some((boundary, body))
}

fn run(case: &Sexp, _dist: &mut Dist) -> Sexp {
    let bad = || node("bad-case", vec![]);
    let a = case.args();
    match case.tag() {
        Some("get") => {
            let (Some(style), Some(pairs)) = (a.first().and_then(|s| s.as_atom()), a.get(1).and_then(|s| s.as_list()))
            else {
                return bad();
            };
            let mut kv: Vec<(String, String)> = vec![];
            for p in pairs {
                let Some(p) = p.as_list() else { return bad() };
                let (Some(k), Some(v)) = (p.first().and_then(|s| s.as_str()), p.get(1).and_then(|s| s.as_str()))
                else {
                    return bad();
                };
                kv.push((k.to_string(), v.to_string()));
            }
            let qs = match style {
                "std" => serde_urlencoded::to_string(&kv).expect("urlencode"),
                "all" => kv.iter().map(|(k, v)| format!("{}={}", pct_all(k), pct_all(v))).collect::<Vec<_>>().join("&"),
                _ => return bad(),
            };
            match parse_query_string(&qs) {
                Ok(r) => node("ok", vec![req_sexp(&r)]),
                Err(ParseRequestError::Io(e)) => {
                    let m = e.to_string();
                    if m.starts_with("invalid variables") {
                        err("variables")
                    } else if m.starts_with("invalid extensions") {
                        err("extensions")
                    } else {
                        err("query-string")
                    }
                }
                Err(e) => err(err_kind(&e)),
            }
        }
        Some("json") => {
            let (Some(ct), Some(fmt), Some(j)) =
                (a.first().and_then(|s| s.as_atom()), a.get(1).and_then(|s| s.as_atom()), a.get(2).and_then(j_of_sexp))
            else {
                return bad();
            };
            let ct = match ct {
                "none" => None,
                "json" => Some("application/json"),
                "gql" => Some("application/graphql-response+json; charset=utf-8"),
                "text" => Some("text/plain"),
                _ => return bad(),
            };
            both(ct, text_of(&j, fmt == "spaced").as_bytes())
        }
        Some("jsontext") => {
            let Some(t) = a.first().and_then(|s| s.as_str()) else { return bad() };
            both(Some("application/json"), t.as_bytes())
        }
        Some("multipart") => {
            let Some((boundary, body)) = a.first().and_then(|s| s.as_list()).and_then(build_multipart) else {
                return bad();
            };
            both(Some(&format!("multipart/form-data; boundary={boundary}")), &body)
        }
        Some("mpnoboundary") => {
            let Some(j) = a.first().and_then(j_of_sexp) else { return bad() };
            both(Some("multipart/form-data"), text_of(&j, false).as_bytes())
        }
        Some("exec") => {
            let (Some(which), Some(j)) = (a.first().and_then(|s| s.as_atom()), a.get(1).and_then(j_of_sexp)) else {
                return bad();
            };
            let text = text_of(&j, false);
            let br = match spin_on(receive_batch_body(None::<&str>, text.as_bytes(), MultipartOptions::default())) {
                Ok(b) => b,
                Err(e) => return err(err_kind(&e)),
            };
            let schema = Schema::new(Query, EmptyMutation, EmptySubscription);
            let resp = match which {
                "schema" => spin_on(schema.execute_batch(br)),
                "executor" => spin_on(Executor::execute_batch(&schema, br)),
                _ => return bad(),
            };
            match &resp {
                BatchResponse::Single(r) => node("single", vec![resp_sexp(r)]),
                BatchResponse::Batch(rs) => node("batch", rs.iter().map(resp_sexp).collect()),
            }
        }
        _ => bad(),
    }
}

// ------------------------------------------------------------------ generator

const CHARS: &[&str] = &[
    "a", "b", "Q", "v", "d", "0", "7", " ", " ", "{", "}", "(", ")", "$", ":", ",", "&", "=", "+", "%", "%26", "#", "?", ";",
    "/", "\"", "\\", "'", "\n", "\r", "\t", "\u{0}", "\u{1b}", "\u{7f}", "\u{e9}", "\u{df}", "\u{4e2d}", "\u{1F600}",
    "\u{feff}", "\u{2028}", "\u{ffff}", "\u{10ffff}", "<", ">", "[", "]", "null", "-", ".", "_",
];

fn rand_text(rng: &mut Rng, max: usize) -> String {
    let n = rng.below(max + 1);
    let mut s = String::new();
    for _ in 0..n {
        s.push_str(*rng.pick(CHARS));
    }
    s
}

fn rand_key(rng: &mut Rng) -> String {
    match rng.below(10) {
        0..=4 => (*rng.pick(&["a", "b", "v", "d", "id", "persistedQuery", "sha256Hash", "version", "x"])).to_string(),
        5 => String::new(),
        6 => (*rng.pick(&["query", "operationName", "operation_name", "variables", "extensions"])).to_string(),
        _ => rand_text(rng, 3),
    }
}

fn rand_int(rng: &mut Rng) -> i128 {
    match rng.below(8) {
        0 => 0,
        1 => -1,
        2 => i64::MAX as i128,
        3 => i64::MIN as i128,
        4 => u64::MAX as i128,
        5 => rng.range(-1000, 1000) as i128,
        6 => (rng.next_u64() >> rng.below(64)) as i128,
        _ => rng.range(0, 9) as i128,
    }
}

fn rand_j(rng: &mut Rng, depth: usize) -> J {
    let k = rng.below(if depth == 0 { 5 } else { 8 });
    match k {
        0 => J::Null,
        1 => J::Bool(rng.chance(1, 2)),
        2 => J::Int(rand_int(rng)),
        3 | 4 => J::Str(rand_text(rng, 4)),
        5 => J::Arr((0..rng.below(4)).map(|_| rand_j(rng, depth - 1)).collect()),
        _ => J::Obj(rand_members(rng, depth - 1, 3)),
    }
}

fn rand_members(rng: &mut Rng, depth: usize, max: usize) -> Vec<(String, J)> {
    let n = rng.below(max + 1);
    let mut m: Vec<(String, J)> = vec![];
    for _ in 0..n {
        let k = if !m.is_empty() && rng.chance(1, 12) { m[rng.below(m.len())].0.clone() } else { rand_key(rng) };
        m.push((k, rand_j(rng, depth)));
    }
    m
}

#[derive(Clone)]
struct Rq {
    query: String,
    op: Option<String>,
    vars: Vec<(String, J)>,
    exts: Vec<(String, J)>,
}

fn rand_req(rng: &mut Rng, dist: &mut Dist) -> Rq {
    let query = match rng.below(6) {
        0 => "{ a }".to_string(),
        1 => String::new(),
        2 => ECHO_QUERY.to_string(),
        _ => rand_text(rng, 8),
    };
    let op = if rng.chance(2, 5) {
        None
    } else {
        dist.hit("req_with_operation_name");
        Some(match rng.below(4) {
            0 => "Q".to_string(),
            1 => String::new(),
            _ => rand_text(rng, 4),
        })
    };
    let vars = if rng.chance(1, 4) { vec![] } else { rand_members(rng, 2, 3) };
    let exts = if rng.chance(1, 2) { vec![] } else { rand_members(rng, 2, 2) };
    if !vars.is_empty() {
        dist.hit("req_with_variables");
    }
    if !exts.is_empty() {
        dist.hit("req_with_extensions");
    }
    Rq { query, op, vars, exts }
}

/// the standard JSON encoding of a request, with the freedoms the protocol leaves (absent vs null
/// vs empty, member order, unknown members)
fn encode_json(r: &Rq, rng: &mut Rng, dist: &mut Dist) -> J {
    let mut m: Vec<(String, J)> = vec![];
    if !(r.query.is_empty() && rng.chance(1, 2)) {
        m.push(("query".into(), J::Str(r.query.clone())));
    }
    match &r.op {
        Some(s) => m.push(("operationName".into(), J::Str(s.clone()))),
        None => {
            if rng.chance(1, 3) {
                dist.hit("json_null_operation_name");
                m.push(("operationName".into(), J::Null))
            }
        }
    }
    for (key, val) in [("variables", &r.vars), ("extensions", &r.exts)] {
        if val.is_empty() {
            match rng.below(3) {
                0 => {}
                1 => {
                    dist.hit("json_null_map");
                    m.push((key.into(), J::Null))
                }
                _ => m.push((key.into(), J::Obj(vec![]))),
            }
        } else {
            m.push((key.into(), J::Obj(val.clone())));
        }
    }
    if rng.chance(1, 4) {
        dist.hit("json_unknown_member");
        let k = (*rng.pick(&["operation_name", "id", "Query", "", "uploads", "data"])).to_string();
        m.push((k, rand_j(rng, 1)));
    }
    rng.shuffle(&mut m);
    J::Obj(m)
}

/// a malformed / unusual body derived from a valid encoding
fn malform_json(r: &Rq, rng: &mut Rng, dist: &mut Dist) -> J {
    let J::Obj(mut m) = encode_json(r, rng, dist) else { unreachable!() };
    let k = rng.below(12);
    dist.hit(&format!("json_malformed_{k}"));
    let wrong = |rng: &mut Rng| match rng.below(5) {
        0 => J::Int(rand_int(rng)),
        1 => J::Bool(true),
        2 => J::Arr(vec![]),
        3 => J::Arr(vec![J::Str("x".into())]),
        _ => J::Str("x".into()),
    };
    match k {
        0 => return rand_j(rng, 0),                          // scalar body
        1 => return J::Arr(vec![]),                          // empty batch
        2 => return J::Arr(vec![rand_j(rng, 0)]),            // batch of a non-object
        3 => {
            // positional array form of a request
            let mut xs = vec![J::Str(r.query.clone())];
            let n = rng.below(5);
            if n >= 1 {
                xs.push(r.op.clone().map(J::Str).unwrap_or(J::Null));
            }
            if n >= 2 {
                xs.push(J::Obj(r.vars.clone()));
            }
            if n >= 3 {
                xs.push(J::Obj(r.exts.clone()));
            }
            if n >= 4 {
                xs.push(J::Null);
            }
            return if rng.chance(1, 3) { J::Arr(vec![J::Arr(xs)]) } else { J::Arr(xs) };
        }
        4 => {
            m.retain(|p| p.0 != "query");
            m.push(("query".into(), match rng.below(3) { 0 => J::Null, 1 => J::Int(5), _ => J::Obj(vec![]) }));
        }
        5 => {
            m.retain(|p| p.0 != "operationName");
            m.push(("operationName".into(), match rng.below(3) { 0 => J::Int(5), 1 => J::Arr(vec![]), _ => J::Bool(false) }));
        }
        6 => {
            m.retain(|p| p.0 != "variables");
            m.push(("variables".into(), wrong(rng)));
        }
        7 => {
            m.retain(|p| p.0 != "extensions");
            m.push(("extensions".into(), wrong(rng)));
        }
        8 => {
            // duplicate known member
            let key = (*rng.pick(&["query", "operationName", "variables", "extensions"])).to_string();
            let v = match key.as_str() {
                "query" | "operationName" => J::Str(rand_text(rng, 2)),
                _ => J::Obj(vec![]),
            };
            m.retain(|p| p.0 != key);
            m.push((key.clone(), v.clone()));
            m.push((key, if rng.chance(1, 2) { v } else { J::Null }));
        }
        9 => {
            // a batch with one bad element
            let good = J::Obj(m.clone());
            let mut xs = vec![good.clone(), rand_j(rng, 1), good];
            rng.shuffle(&mut xs);
            return J::Arr(xs);
        }
        10 => {
            // nested batch
            return J::Arr(vec![J::Arr(vec![J::Obj(m)])]);
        }
        _ => {
            // no known member at all
            m.retain(|p| !matches!(p.0.as_str(), "query" | "operationName" | "variables" | "extensions"));
        }
    }
    rng.shuffle(&mut m);
    J::Obj(m)
}

fn get_pair(k: &str, v: &str, j: Option<&J>) -> Sexp {
    let mut xs = vec![st(k), st(v)];
    if let Some(j) = j {
        xs.push(j_to_sexp(j));
    }
    list(xs)
}

fn encode_get(r: &Rq, rng: &mut Rng, dist: &mut Dist, malformed: bool) -> Sexp {
    let mut ps: Vec<Sexp> = vec![];
    if !(r.query.is_empty() && rng.chance(1, 2)) {
        ps.push(get_pair("query", &r.query, None));
    }
    if let Some(op) = &r.op {
        match rng.below(8) {
            0 => {
                dist.hit("get_legacy_operation_name_key");
                ps.push(get_pair("operation_name", op, None))
            }
            _ => ps.push(get_pair("operationName", op, None)),
        }
    }
    for (key, val) in [("variables", &r.vars), ("extensions", &r.exts)] {
        if val.is_empty() {
            match rng.below(4) {
                0 | 1 => {}
                2 => ps.push(get_pair(key, "null", Some(&J::Null))),
                _ => ps.push(get_pair(key, "{}", Some(&J::Obj(vec![])))),
            }
        } else {
            let j = J::Obj(val.clone());
            ps.push(get_pair(key, &text_of(&j, rng.chance(1, 4)), Some(&j)));
        }
    }
    if rng.chance(1, 4) {
        dist.hit("get_unknown_key");
        let k = (*rng.pick(&["id", "Query", "", "operationname", "q&a", "var iables"])).to_string();
        ps.push(get_pair(&k, &rand_text(rng, 3), None));
    }
    if malformed {
        let k = rng.below(6);
        dist.hit(&format!("get_malformed_{k}"));
        match k {
            0 => {
                // duplicate known key
                let key = *rng.pick(&["query", "operationName", "operation_name", "variables", "extensions"]);
                for _ in 0..2 {
                    match key {
                        "variables" | "extensions" => ps.push(get_pair(key, "{}", Some(&J::Obj(vec![])))),
                        _ => ps.push(get_pair(key, "x", None)),
                    }
                }
            }
            1 | 2 => {
                // value that is not JSON text
                let key = if k == 1 { "variables" } else { "extensions" };
                ps.retain(|p| p.as_list().unwrap()[0].as_str() != Some(key));
                let t = *rng.pick(&["", "{", "{\"a\":}", "{'a':1}", "a=b", "{\"a\":1}}", "nul", "\u{e9}"]);
                ps.push(get_pair(key, t, None));
            }
            3 | 4 => {
                // JSON text of the wrong shape
                let key = if k == 3 { "variables" } else { "extensions" };
                ps.retain(|p| p.as_list().unwrap()[0].as_str() != Some(key));
                let j = match rng.below(4) {
                    0 => J::Arr(vec![]),
                    1 => J::Int(rand_int(rng)),
                    2 => J::Str("{}".into()),
                    _ => J::Bool(false),
                };
                ps.push(get_pair(key, &text_of(&j, false), Some(&j)));
            }
            _ => {
                // both spellings of the operation name
                ps.push(get_pair("operation_name", "L", None));
                if r.op.is_none() {
                    ps.push(get_pair("operationName", "S", None));
                }
            }
        }
    }
    rng.shuffle(&mut ps);
    let style = if rng.chance(1, 5) { "all" } else { "std" };
    node("get", vec![atom(style), list(ps)])
}

fn echo_req(rng: &mut Rng, i: usize, n: usize) -> J {
    let mut vars: Vec<(String, J)> = vec![];
    if !rng.chance(1, 8) {
        vars.push(("v".into(), J::Str(format!("{}{}", i, rand_text(rng, 2)))));
    }
    // earlier requests of a batch take longer
    vars.push(("d".into(), J::Int(((n - i) * 3 + rng.below(3)) as i128)));
    let q = if rng.chance(1, 10) { "{".to_string() } else { ECHO_QUERY.to_string() };
    let mut m = vec![("query".to_string(), J::Str(q)), ("variables".to_string(), J::Obj(vars))];
    rng.shuffle(&mut m);
    J::Obj(m)
}

fn gen_case(rng: &mut Rng, _i: usize, _o: &Opts, dist: &mut Dist) -> Sexp {
    let r = rand_req(rng, dist);
    let ct = |rng: &mut Rng| atom(*rng.pick(&["none", "json", "gql", "text"]));
    let fmt = |rng: &mut Rng| atom(if rng.chance(1, 4) { "spaced" } else { "compact" });
    let k = rng.below(100);
    match k {
        0..=19 => {
            dist.hit("kind_get_valid");
            encode_get(&r, rng, dist, false)
        }
        20..=31 => {
            dist.hit("kind_get_malformed");
            encode_get(&r, rng, dist, true)
        }
        32..=46 => {
            dist.hit("kind_json_single");
            node("json", vec![ct(rng), fmt(rng), j_to_sexp(&encode_json(&r, rng, dist))])
        }
        47..=56 => {
            dist.hit("kind_json_batch");
            let n = 1 + rng.below(4);
            let mut xs = vec![encode_json(&r, rng, dist)];
            for _ in 1..n {
                let r2 = rand_req(rng, dist);
                xs.push(encode_json(&r2, rng, dist));
            }
            node("json", vec![ct(rng), fmt(rng), j_to_sexp(&J::Arr(xs))])
        }
        57..=71 => {
            dist.hit("kind_json_malformed");
            node("json", vec![ct(rng), fmt(rng), j_to_sexp(&malform_json(&r, rng, dist))])
        }
        72..=74 => {
            dist.hit("kind_json_truncated_text");
            // a strict prefix of the text of an object/array is never JSON
            let t = text_of(&encode_json(&r, rng, dist), false);
            let cs: Vec<char> = t.chars().collect();
            let cut = rng.below(cs.len());
            node("jsontext", vec![st(cs[..cut].iter().collect::<String>())])
        }
        75..=86 => {
            dist.hit("kind_multipart");
            let body = if rng.chance(1, 4) {
                J::Arr(vec![encode_json(&r, rng, dist), encode_json(&rand_req(rng, dist), rng, dist)])
            } else if rng.chance(1, 5) {
                malform_json(&r, rng, dist)
            } else {
                encode_json(&r, rng, dist)
            };
            let ops = if rng.chance(1, 4) {
                let t = *rng.pick(&["application/json", "text/plain", "application/graphql-response+json", "multipart/mixed; boundary=zz", "multipart/form-data"]);
                if t.starts_with("multipart/") {
                    dist.hit("multipart_operations_typed_multipart");
                }
                node("opsct", vec![st(t), j_to_sexp(&body)])
            } else {
                node("ops", vec![j_to_sexp(&body)])
            };
            let mut parts = vec![ops, node("map", vec![])];
            match rng.below(10) {
                0 => {
                    dist.hit("multipart_no_map");
                    parts.remove(1);
                }
                1 => {
                    dist.hit("multipart_no_operations");
                    parts.remove(0);
                }
                2 => {
                    dist.hit("multipart_two_operations");
                    parts.push(node("ops", vec![j_to_sexp(&if rng.chance(1, 3) { J::Int(1) } else { encode_json(&rand_req(rng, dist), rng, dist) })]));
                }
                3 => parts.push(node("field", vec![st("note"), st(rand_text(rng, 3))])),
                _ => {}
            }
            rng.shuffle(&mut parts);
            node("multipart", vec![list(parts)])
        }
        87 => {
            dist.hit("kind_multipart_no_boundary");
            node("mpnoboundary", vec![j_to_sexp(&encode_json(&r, rng, dist))])
        }
        _ => {
            dist.hit("kind_exec");
            let which = atom(if rng.chance(1, 2) { "schema" } else { "executor" });
            let n = rng.below(6);
            let body = if n == 0 {
                echo_req(rng, 0, 1)
            } else {
                J::Arr((0..n).map(|i| echo_req(rng, i, n)).collect())
            };
            node("exec", vec![which, j_to_sexp(&body)])
        }
    }
}

fn main() {
    main_loop(&mut gen_case, &mut run);
}
