//! C23 — all HTTP request encodings decode to the same request; batches keep order.
//!
//! JSON trees travel as  null | true | false | (i N) | (s "text") | (a J…) | (o ("key" J)…)
//! (object members keep their order and may repeat a key).
//!
//! Case kinds
//!   (get STYLE (("key" "value" [J])…))   query string made of these pairs (STYLE std = serde_urlencoded,
//!                                  all = every byte percent-encoded) → `parse_query_string`.  The optional
//!                                  J is the tree the value denotes as JSON text (absent: not JSON) —
//!                                  used by the Lean side only, the harness sends the text.
//!   (json CT FMT J)                J printed as JSON text (FMT compact|spaced) with content type CT
//!                                  (none|json|gql|text) → `receive_batch_body` and `receive_body`
//!   (jsontext "text")              raw body text (not JSON) → both functions
//!   (multipart (PART…))            hand-written multipart/form-data body → both functions;
//!                                  PART = (ops J) | (opsct "content/type" J) | (map) | (field "name" "text")
//!   (mpnoboundary J)               content type multipart/form-data without boundary parameter
//!   (exec WHICH J)                 body J decoded by `receive_batch_body`, executed by
//!                                  `Schema::execute_batch` (WHICH = schema) or the `Executor` trait's
//!                                  provided method (WHICH = executor) on an echo schema
//! Byte-level cases (stream `bytes`): the transport payload is given as bytes ("hex" = two hex digits per
//! byte); TABLE = (("json text" J)…) lists the JSON texts that matter for the case and the trees they
//! denote (Lean side only, like the J of a get pair: the JSON text grammar is library behaviour).
//!   (bdoc CT HDRS "hex" TABLE)     the SAME bytes B through three transports: as the body with content type
//!                                  CT (none | "type/subtype; params"); as the second element of the batch
//!                                  `[{"query":"0"},B]`; as the `operations` part (extra part headers HDRS =
//!                                  (("Name" "value")…), e.g. Content-Type with a charset parameter,
//!                                  Content-Transfer-Encoding) of a multipart body with the map part `{}`
//!   (bmultipart (BPART…) TABLE)    BPART = (opsb HDRS "hex") | (mapb HDRS "hex") | (fieldb "name" "hex")
//!   (bget STYLE (("khex" "vhex")…) TABLE)   query string whose keys/values percent-decode to these bytes
//!                                  (STYLE all = every byte %XX, min = only the bytes that need it)
//! Output
//!   bdoc:               (doc BOTH BOTH BOTH)   (body, batch element, operations part), BOTH as below
//!   bmultipart:         (both B S);   bget: as get
//!   get:                (ok REQ) | (err query-string|variables|extensions)
//!   json/multipart/...: (both B S)   B = (single REQ) | (batch REQ…) | (err KIND), S = (ok REQ) | (err KIND)
//!   exec:               (single RESP) | (batch RESP…) | (err KIND)    RESP = (data J) | (errors)
//!   REQ = (req "query" none|(some "op") VARS EXTS) with VARS/EXTS canonical trees (keys sorted,
//!   last duplicate wins).

use std::{
    future::Future,
    pin::Pin,
    task::{Context, Poll},
};

use agvh::*;
use async_graphql::{
    BatchRequest, BatchResponse, EmptyMutation, EmptySubscription, Executor, Object, ParseRequestError, Request,
    Response, Schema,
    http::{MultipartOptions, parse_query_string, receive_batch_body, receive_body},
};

// ------------------------------------------------------------------ JSON trees

#[derive(Clone, Debug, PartialEq)]
enum J {
    Null,
    Bool(bool),
    Int(i128),
    Str(String),
    Arr(Vec<J>),
    Obj(Vec<(String, J)>),
}

fn j_to_sexp(j: &J) -> Sexp {
    match j {
        J::Null => atom("null"),
        J::Bool(true) => atom("true"),
        J::Bool(false) => atom("false"),
        J::Int(n) => node("i", vec![num(n)]),
        J::Str(s) => node("s", vec![st(s.clone())]),
        J::Arr(xs) => node("a", xs.iter().map(j_to_sexp).collect()),
        J::Obj(kvs) => node("o", kvs.iter().map(|(k, v)| list(vec![st(k.clone()), j_to_sexp(v)])).collect()),
    }
}

fn j_of_sexp(s: &Sexp) -> Option<J> {
    match s {
        Sexp::Atom(a) => match a.as_str() {
            "null" => Some(J::Null),
            "true" => Some(J::Bool(true)),
            "false" => Some(J::Bool(false)),
            _ => None,
        },
        Sexp::List(_) => match s.tag()? {
            "i" => Some(J::Int(s.args().first()?.as_atom()?.parse().ok()?)),
            "s" => Some(J::Str(s.args().first()?.as_str()?.to_string())),
            "a" => s.args().iter().map(j_of_sexp).collect::<Option<Vec<_>>>().map(J::Arr),
            "o" => s
                .args()
                .iter()
                .map(|p| {
                    let p = p.as_list()?;
                    Some((p.first()?.as_str()?.to_string(), j_of_sexp(p.get(1)?)?))
                })
                .collect::<Option<Vec<_>>>()
                .map(J::Obj),
            _ => None,
        },
        _ => None,
    }
}

/// JSON text of a tree (members in the given order, duplicates kept)
fn j_text(j: &J, spaced: bool, out: &mut String) {
    let sp = if spaced { " " } else { "" };
    match j {
        J::Null => out.push_str("null"),
        J::Bool(b) => out.push_str(if *b { "true" } else { "false" }),
        J::Int(n) => out.push_str(&n.to_string()),
        J::Str(s) => out.push_str(&serde_json::to_string(s).unwrap()),
        J::Arr(xs) => {
            out.push('[');
            out.push_str(sp);
            for (i, x) in xs.iter().enumerate() {
                if i > 0 {
                    out.push(',');
                    out.push_str(if spaced { "\n\t" } else { "" });
                }
                j_text(x, spaced, out);
            }
            out.push_str(sp);
            out.push(']');
        }
        J::Obj(kvs) => {
            out.push('{');
            out.push_str(sp);
            for (i, (k, v)) in kvs.iter().enumerate() {
                if i > 0 {
                    out.push(',');
                    out.push_str(if spaced { "\r\n " } else { "" });
                }
                out.push_str(&serde_json::to_string(k).unwrap());
                out.push_str(sp);
                out.push(':');
                out.push_str(sp);
                j_text(v, spaced, out);
            }
            out.push_str(sp);
            out.push('}');
        }
    }
}

fn text_of(j: &J, spaced: bool) -> String {
    let mut s = String::new();
    j_text(j, spaced, &mut s);
    s
}

/// canonical tree of a decoded value: keys sorted (maps have no order)
fn canon(v: &serde_json::Value) -> Sexp {
    use serde_json::Value as V;
    match v {
        V::Null => atom("null"),
        V::Bool(true) => atom("true"),
        V::Bool(false) => atom("false"),
        V::Number(n) => node("i", vec![atom(n.to_string())]),
        V::String(s) => node("s", vec![st(s.clone())]),
        V::Array(xs) => node("a", xs.iter().map(canon).collect()),
        V::Object(m) => {
            let mut kv: Vec<(&String, &V)> = m.iter().collect();
            kv.sort_by(|a, b| a.0.cmp(b.0));
            node("o", kv.into_iter().map(|(k, v)| list(vec![st(k.clone()), canon(v)])).collect())
        }
    }
}

fn req_sexp(r: &Request) -> Sexp {
    let vars = serde_json::to_value(&r.variables).expect("variables to json");
    let exts = serde_json::to_value(&r.extensions).expect("extensions to json");
    node(
        "req",
        vec![
            st(r.query.clone()),
            match &r.operation_name {
                None => atom("none"),
                Some(s) => node("some", vec![st(s.clone())]),
            },
            canon(&vars),
            canon(&exts),
        ],
    )
}

fn err_kind(e: &ParseRequestError) -> &'static str {
    match e {
        ParseRequestError::Io(_) => "io",
        ParseRequestError::InvalidRequest(_) => "invalid-request",
        ParseRequestError::InvalidFilesMap(_) => "invalid-files-map",
        ParseRequestError::InvalidMultipart(_) => "invalid-multipart",
        ParseRequestError::MissingOperatorsPart => "missing-operations",
        ParseRequestError::MissingMapPart => "missing-map",
        ParseRequestError::NotUpload => "not-upload",
        ParseRequestError::MissingFiles => "missing-files",
        ParseRequestError::PayloadTooLarge => "payload-too-large",
        ParseRequestError::UnsupportedBatch => "unsupported-batch",
        _ => "other",
    }
}

fn err(k: &str) -> Sexp {
    node("err", vec![atom(k)])
}

fn batch_sexp(r: &Result<BatchRequest, ParseRequestError>) -> Sexp {
    match r {
        Ok(BatchRequest::Single(r)) => node("single", vec![req_sexp(r)]),
        Ok(BatchRequest::Batch(rs)) => node("batch", rs.iter().map(req_sexp).collect()),
        Err(e) => err(err_kind(e)),
    }
}

fn single_sexp(r: &Result<Request, ParseRequestError>) -> Sexp {
    match r {
        Ok(r) => node("ok", vec![req_sexp(r)]),
        Err(e) => err(err_kind(e)),
    }
}

fn both(ct: Option<&str>, body: &[u8]) -> Sexp {
    let b = spin_on(receive_batch_body(ct, body, MultipartOptions::default()));
    let s = spin_on(receive_body(ct, body, MultipartOptions::default()));
    node("both", vec![batch_sexp(&b), single_sexp(&s)])
}

// ------------------------------------------------------------------ echo schema (batch order)

struct YieldN(u32);
impl Future for YieldN {
    type Output = ();
    fn poll(mut self: Pin<&mut Self>, cx: &mut Context<'_>) -> Poll<()> {
        if self.0 == 0 {
            Poll::Ready(())
        } else {
            self.0 -= 1;
            cx.waker().wake_by_ref();
            Poll::Pending
        }
    }
}

struct Query;
#[Object]
impl Query {
    /// returns `v` after yielding `d` times (a later request of a batch can finish first)
    async fn echo(&self, v: Option<String>, d: Option<i32>) -> Option<String> {
        YieldN(d.unwrap_or(0).clamp(0, 50) as u32).await;
        v
    }
}

pub const ECHO_QUERY: &str = "query($v: String, $d: Int) { echo(v: $v, d: $d) }";

fn resp_sexp(r: &Response) -> Sexp {
    if r.errors.is_empty() {
        let v = serde_json::to_value(&r.data).expect("data to json");
        node("data", vec![canon(&v)])
    } else {
        node("errors", vec![])
    }
}

// ------------------------------------------------------------------ transports

fn pct_all(s: &str) -> String {
    let mut o = String::new();
    for b in s.bytes() {
        o.push_str(&format!("%{:02X}", b));
    }
    o
}

fn build_multipart(parts: &[Sexp]) -> Option<(String, Vec<u8>)> {
    // (name, content type, content)
    let mut fields: Vec<(String, Option<String>, String)> = vec![];
    for p in parts {
        match p.tag()? {
            "ops" => fields.push(("operations".into(), None, text_of(&j_of_sexp(p.args().first()?)?, false))),
            "opsct" => fields.push((
                "operations".into(),
                Some(p.args().first()?.as_str()?.to_string()),
                text_of(&j_of_sexp(p.args().get(1)?)?, false),
            )),
            "map" => fields.push(("map".into(), None, "{}".into())),
            "field" => fields.push((
                p.args().first()?.as_str()?.to_string(),
                None,
                p.args().get(1)?.as_str()?.to_string(),
            )),
            _ => return None,
        }
    }
    let mut n = 0;
    let boundary = loop {
        let b = format!("----agvC23x{n}");
        if fields.iter().all(|f| !f.2.contains(&b) && !f.0.contains(&b)) {
            break b;
        }
        n += 1;
    };
    let mut body: Vec<u8> = vec![];
    for (name, ct, content) in &fields {
        body.extend_from_slice(format!("--{boundary}\r\n").as_bytes());
        body.extend_from_slice(format!("Content-Disposition: form-data; name=\"{name}\"\r\n").as_bytes());
        if let Some(ct) = ct {
            body.extend_from_slice(format!("Content-Type: {ct}\r\n").as_bytes());
        }
        body.extend_from_slice(b"\r\n");
        body.extend_from_slice(content.as_bytes());
        body.extend_from_slice(b"\r\n");
    }
    body.extend_from_slice(format!("--{boundary}--\r\n").as_bytes());
    Some((boundary, body))
}

fn get_out(r: Result<Request, ParseRequestError>) -> Sexp {
    match r {
        Ok(r) => node("ok", vec![req_sexp(&r)]),
        Err(ParseRequestError::Io(e)) => {
            let m = e.to_string();
            if m.starts_with("invalid variables") {
                err("variables")
            } else if m.starts_with("invalid extensions") {
                err("extensions")
            } else {
                err("query-string")
            }
        }
        Err(e) => err(err_kind(&e)),
    }
}

// ------------------------------------------------------------------ byte-level transports

/// the first element of the batch a `bdoc` case wraps its bytes into
const BATCH_PREFIX: &str = "[{\"query\":\"0\"},";

fn hex(b: &[u8]) -> String {
    b.iter().map(|x| format!("{:02x}", x)).collect()
}

fn unhex(s: &str) -> Option<Vec<u8>> {
    let b = s.as_bytes();
    if b.len() % 2 != 0 {
        return None;
    }
    (0..b.len() / 2).map(|i| u8::from_str_radix(std::str::from_utf8(&b[2 * i..2 * i + 2]).ok()?, 16).ok()).collect()
}

fn hdrs_of(s: &Sexp) -> Option<Vec<(String, String)>> {
    s.as_list()?
        .iter()
        .map(|h| {
            let h = h.as_list()?;
            Some((h.first()?.as_str()?.to_string(), h.get(1)?.as_str()?.to_string()))
        })
        .collect()
}

/// percent-encoding of raw bytes: every byte, or only those outside the unreserved set
fn pct_bytes(b: &[u8], all: bool) -> String {
    let mut o = String::new();
    for &x in b {
        if !all && (x.is_ascii_alphanumeric() || matches!(x, b'-' | b'.' | b'_' | b'~' | b'*')) {
            o.push(x as char);
        } else if !all && x == b' ' {
            o.push('+');
        } else {
            o.push_str(&format!("%{:02X}", x));
        }
    }
    o
}

struct BField {
    name: String,
    hdrs: Vec<(String, String)>,
    content: Vec<u8>,
}

fn contains_bytes(hay: &[u8], needle: &[u8]) -> bool {
    hay.windows(needle.len()).any(|w| w == needle)
}

fn build_multipart_bytes(fields: &[BField]) -> (String, Vec<u8>) {
    let mut n = 0;
    let boundary = loop {
        let b = format!("----agvC23b{n}");
        if fields.iter().all(|f| !contains_bytes(&f.content, b.as_bytes()) && !f.name.contains(&b)) {
            break b;
        }
        n += 1;
    };
    let mut body: Vec<u8> = vec![];
    for f in fields {
        body.extend_from_slice(format!("--{boundary}\r\n").as_bytes());
        body.extend_from_slice(format!("Content-Disposition: form-data; name=\"{}\"\r\n", f.name).as_bytes());
        for (k, v) in &f.hdrs {
            body.extend_from_slice(format!("{k}: {v}\r\n").as_bytes());
        }
        body.extend_from_slice(b"\r\n");
        body.extend_from_slice(&f.content);
        body.extend_from_slice(b"\r\n");
    }
    body.extend_from_slice(format!("--{boundary}--\r\n").as_bytes());
    (boundary, body)
}

fn run(case: &Sexp, _dist: &mut Dist) -> Sexp {
    let bad = || node("bad-case", vec![]);
    let a = case.args();
    match case.tag() {
        Some("get") => {
            let (Some(style), Some(pairs)) = (a.first().and_then(|s| s.as_atom()), a.get(1).and_then(|s| s.as_list()))
            else {
                return bad();
            };
            let mut kv: Vec<(String, String)> = vec![];
            for p in pairs {
                let Some(p) = p.as_list() else { return bad() };
                let (Some(k), Some(v)) = (p.first().and_then(|s| s.as_str()), p.get(1).and_then(|s| s.as_str()))
                else {
                    return bad();
                };
                kv.push((k.to_string(), v.to_string()));
            }
            let qs = match style {
                "std" => serde_urlencoded::to_string(&kv).expect("urlencode"),
                "all" => kv.iter().map(|(k, v)| format!("{}={}", pct_all(k), pct_all(v))).collect::<Vec<_>>().join("&"),
                _ => return bad(),
            };
            get_out(parse_query_string(&qs))
        }
        Some("json") => {
            let (Some(ct), Some(fmt), Some(j)) =
                (a.first().and_then(|s| s.as_atom()), a.get(1).and_then(|s| s.as_atom()), a.get(2).and_then(j_of_sexp))
            else {
                return bad();
            };
            let ct = match ct {
                "none" => None,
                "json" => Some("application/json"),
                "gql" => Some("application/graphql-response+json; charset=utf-8"),
                "text" => Some("text/plain"),
                _ => return bad(),
            };
            both(ct, text_of(&j, fmt == "spaced").as_bytes())
        }
        Some("jsontext") => {
            let Some(t) = a.first().and_then(|s| s.as_str()) else { return bad() };
            both(Some("application/json"), t.as_bytes())
        }
        Some("multipart") => {
            let Some((boundary, body)) = a.first().and_then(|s| s.as_list()).and_then(build_multipart) else {
                return bad();
            };
            both(Some(&format!("multipart/form-data; boundary={boundary}")), &body)
        }
        Some("mpnoboundary") => {
            let Some(j) = a.first().and_then(j_of_sexp) else { return bad() };
            both(Some("multipart/form-data"), text_of(&j, false).as_bytes())
        }
        Some("exec") => {
            let (Some(which), Some(j)) = (a.first().and_then(|s| s.as_atom()), a.get(1).and_then(j_of_sexp)) else {
                return bad();
            };
            let text = text_of(&j, false);
            let br = match spin_on(receive_batch_body(None::<&str>, text.as_bytes(), MultipartOptions::default())) {
                Ok(b) => b,
                Err(e) => return err(err_kind(&e)),
            };
            let schema = Schema::new(Query, EmptyMutation, EmptySubscription);
            let resp = match which {
                "schema" => spin_on(schema.execute_batch(br)),
                "executor" => spin_on(Executor::execute_batch(&schema, br)),
                _ => return bad(),
            };
            match &resp {
                BatchResponse::Single(r) => node("single", vec![resp_sexp(r)]),
                BatchResponse::Batch(rs) => node("batch", rs.iter().map(resp_sexp).collect()),
            }
        }
        Some("bdoc") => {
            let (Some(ct), Some(hdrs), Some(bytes)) =
                (a.first(), a.get(1).and_then(hdrs_of), a.get(2).and_then(|s| s.as_str()).and_then(unhex))
            else {
                return bad();
            };
            let ct: Option<String> = match ct {
                Sexp::Atom(x) if x == "none" => None,
                other => match other.as_str() {
                    Some(t) => Some(t.to_string()),
                    None => return bad(),
                },
            };
            let body = both(ct.as_deref(), &bytes);
            let mut wrapped = BATCH_PREFIX.as_bytes().to_vec();
            wrapped.extend_from_slice(&bytes);
            wrapped.push(b']');
            let elem = both(ct.as_deref(), &wrapped);
            let parts = vec![
                BField { name: "operations".into(), hdrs, content: bytes },
                BField { name: "map".into(), hdrs: vec![], content: b"{}".to_vec() },
            ];
            let (boundary, mp) = build_multipart_bytes(&parts);
            let part = both(Some(&format!("multipart/form-data; boundary={boundary}")), &mp);
            node("doc", vec![body, elem, part])
        }
        Some("bmultipart") => {
            let Some(ps) = a.first().and_then(|s| s.as_list()) else { return bad() };
            let mut parts = vec![];
            for p in ps {
                let x = p.args();
                let f = match p.tag() {
                    Some("opsb") | Some("mapb") => {
                        let (Some(hdrs), Some(content)) =
                            (x.first().and_then(hdrs_of), x.get(1).and_then(|s| s.as_str()).and_then(unhex))
                        else {
                            return bad();
                        };
                        BField { name: if p.tag() == Some("opsb") { "operations".into() } else { "map".into() }, hdrs, content }
                    }
                    Some("fieldb") => {
                        let (Some(name), Some(content)) =
                            (x.first().and_then(|s| s.as_str()), x.get(1).and_then(|s| s.as_str()).and_then(unhex))
                        else {
                            return bad();
                        };
                        BField { name: name.to_string(), hdrs: vec![], content }
                    }
                    _ => return bad(),
                };
                parts.push(f);
            }
            let (boundary, mp) = build_multipart_bytes(&parts);
            both(Some(&format!("multipart/form-data; boundary={boundary}")), &mp)
        }
        Some("bget") => {
            let (Some(style), Some(pairs)) = (a.first().and_then(|s| s.as_atom()), a.get(1).and_then(|s| s.as_list()))
            else {
                return bad();
            };
            let mut qs = String::new();
            for (i, p) in pairs.iter().enumerate() {
                let Some(p) = p.as_list() else { return bad() };
                let (Some(k), Some(v)) = (
                    p.first().and_then(|s| s.as_str()).and_then(unhex),
                    p.get(1).and_then(|s| s.as_str()).and_then(unhex),
                ) else {
                    return bad();
                };
                if i > 0 {
                    qs.push('&');
                }
                match style {
                    "all" => {
                        qs.push_str(&pct_bytes(&k, true));
                        qs.push('=');
                        qs.push_str(&pct_bytes(&v, true));
                    }
                    "min" => {
                        qs.push_str(&pct_bytes(&k, false));
                        qs.push('=');
                        qs.push_str(&pct_bytes(&v, false));
                    }
                    _ => return bad(),
                }
            }
            get_out(parse_query_string(&qs))
        }
        _ => bad(),
    }
}

// ------------------------------------------------------------------ generator

const CHARS: &[&str] = &[
    "a", "b", "Q", "v", "d", "0", "7", " ", " ", "{", "}", "(", ")", "$", ":", ",", "&", "=", "+", "%", "%26", "#", "?", ";",
    "/", "\"", "\\", "'", "\n", "\r", "\t", "\u{0}", "\u{1b}", "\u{7f}", "\u{e9}", "\u{df}", "\u{4e2d}", "\u{1F600}",
    "\u{feff}", "\u{2028}", "\u{ffff}", "\u{10ffff}", "<", ">", "[", "]", "null", "-", ".", "_",
];

fn rand_text(rng: &mut Rng, max: usize) -> String {
    let n = rng.below(max + 1);
    let mut s = String::new();
    for _ in 0..n {
        s.push_str(*rng.pick(CHARS));
    }
    s
}

fn rand_key(rng: &mut Rng) -> String {
    match rng.below(10) {
        0..=4 => (*rng.pick(&["a", "b", "v", "d", "id", "persistedQuery", "sha256Hash", "version", "x"])).to_string(),
        5 => String::new(),
        6 => (*rng.pick(&["query", "operationName", "operation_name", "variables", "extensions"])).to_string(),
        _ => rand_text(rng, 3),
    }
}

fn rand_int(rng: &mut Rng) -> i128 {
    match rng.below(8) {
        0 => 0,
        1 => -1,
        2 => i64::MAX as i128,
        3 => i64::MIN as i128,
        4 => u64::MAX as i128,
        5 => rng.range(-1000, 1000) as i128,
        6 => (rng.next_u64() >> rng.below(64)) as i128,
        _ => rng.range(0, 9) as i128,
    }
}

fn rand_j(rng: &mut Rng, depth: usize) -> J {
    let k = rng.below(if depth == 0 { 5 } else { 8 });
    match k {
        0 => J::Null,
        1 => J::Bool(rng.chance(1, 2)),
        2 => J::Int(rand_int(rng)),
        3 | 4 => J::Str(rand_text(rng, 4)),
        5 => J::Arr((0..rng.below(4)).map(|_| rand_j(rng, depth - 1)).collect()),
        _ => J::Obj(rand_members(rng, depth - 1, 3)),
    }
}

fn rand_members(rng: &mut Rng, depth: usize, max: usize) -> Vec<(String, J)> {
    let n = rng.below(max + 1);
    let mut m: Vec<(String, J)> = vec![];
    for _ in 0..n {
        let k = if !m.is_empty() && rng.chance(1, 12) { m[rng.below(m.len())].0.clone() } else { rand_key(rng) };
        m.push((k, rand_j(rng, depth)));
    }
    m
}

#[derive(Clone)]
struct Rq {
    query: String,
    op: Option<String>,
    vars: Vec<(String, J)>,
    exts: Vec<(String, J)>,
}

fn rand_req(rng: &mut Rng, dist: &mut Dist) -> Rq {
    let query = match rng.below(6) {
        0 => "{ a }".to_string(),
        1 => String::new(),
        2 => ECHO_QUERY.to_string(),
        _ => rand_text(rng, 8),
    };
    let op = if rng.chance(2, 5) {
        None
    } else {
        dist.hit("req_with_operation_name");
        Some(match rng.below(4) {
            0 => "Q".to_string(),
            1 => String::new(),
            _ => rand_text(rng, 4),
        })
    };
    let vars = if rng.chance(1, 4) { vec![] } else { rand_members(rng, 2, 3) };
    let exts = if rng.chance(1, 2) { vec![] } else { rand_members(rng, 2, 2) };
    if !vars.is_empty() {
        dist.hit("req_with_variables");
    }
    if !exts.is_empty() {
        dist.hit("req_with_extensions");
    }
    Rq { query, op, vars, exts }
}

/// the standard JSON encoding of a request, with the freedoms the protocol leaves (absent vs null
/// vs empty, member order, unknown members)
fn encode_json(r: &Rq, rng: &mut Rng, dist: &mut Dist) -> J {
    let mut m: Vec<(String, J)> = vec![];
    if !(r.query.is_empty() && rng.chance(1, 2)) {
        m.push(("query".into(), J::Str(r.query.clone())));
    }
    match &r.op {
        Some(s) => m.push(("operationName".into(), J::Str(s.clone()))),
        None => {
            if rng.chance(1, 3) {
                dist.hit("json_null_operation_name");
                m.push(("operationName".into(), J::Null))
            }
        }
    }
    for (key, val) in [("variables", &r.vars), ("extensions", &r.exts)] {
        if val.is_empty() {
            match rng.below(3) {
                0 => {}
                1 => {
                    dist.hit("json_null_map");
                    m.push((key.into(), J::Null))
                }
                _ => m.push((key.into(), J::Obj(vec![]))),
            }
        } else {
            m.push((key.into(), J::Obj(val.clone())));
        }
    }
    if rng.chance(1, 4) {
        dist.hit("json_unknown_member");
        let k = (*rng.pick(&["operation_name", "id", "Query", "", "uploads", "data"])).to_string();
        m.push((k, rand_j(rng, 1)));
    }
    rng.shuffle(&mut m);
    J::Obj(m)
}

/// a malformed / unusual body derived from a valid encoding
fn malform_json(r: &Rq, rng: &mut Rng, dist: &mut Dist) -> J {
    let J::Obj(mut m) = encode_json(r, rng, dist) else { unreachable!() };
    let k = rng.below(12);
    dist.hit(&format!("json_malformed_{k}"));
    let wrong = |rng: &mut Rng| match rng.below(5) {
        0 => J::Int(rand_int(rng)),
        1 => J::Bool(true),
        2 => J::Arr(vec![]),
        3 => J::Arr(vec![J::Str("x".into())]),
        _ => J::Str("x".into()),
    };
    match k {
        0 => return rand_j(rng, 0),                          // scalar body
        1 => return J::Arr(vec![]),                          // empty batch
        2 => return J::Arr(vec![rand_j(rng, 0)]),            // batch of a non-object
        3 => {
            // positional array form of a request
            let mut xs = vec![J::Str(r.query.clone())];
            let n = rng.below(5);
            if n >= 1 {
                xs.push(r.op.clone().map(J::Str).unwrap_or(J::Null));
            }
            if n >= 2 {
                xs.push(J::Obj(r.vars.clone()));
            }
            if n >= 3 {
                xs.push(J::Obj(r.exts.clone()));
            }
            if n >= 4 {
                xs.push(J::Null);
            }
            return if rng.chance(1, 3) { J::Arr(vec![J::Arr(xs)]) } else { J::Arr(xs) };
        }
        4 => {
            m.retain(|p| p.0 != "query");
            m.push(("query".into(), match rng.below(3) { 0 => J::Null, 1 => J::Int(5), _ => J::Obj(vec![]) }));
        }
        5 => {
            m.retain(|p| p.0 != "operationName");
            m.push(("operationName".into(), match rng.below(3) { 0 => J::Int(5), 1 => J::Arr(vec![]), _ => J::Bool(false) }));
        }
        6 => {
            m.retain(|p| p.0 != "variables");
            m.push(("variables".into(), wrong(rng)));
        }
        7 => {
            m.retain(|p| p.0 != "extensions");
            m.push(("extensions".into(), wrong(rng)));
        }
        8 => {
            // duplicate known member
            let key = (*rng.pick(&["query", "operationName", "variables", "extensions"])).to_string();
            let v = match key.as_str() {
                "query" | "operationName" => J::Str(rand_text(rng, 2)),
                _ => J::Obj(vec![]),
            };
            m.retain(|p| p.0 != key);
            m.push((key.clone(), v.clone()));
            m.push((key, if rng.chance(1, 2) { v } else { J::Null }));
        }
        9 => {
            // a batch with one bad element
            let good = J::Obj(m.clone());
            let mut xs = vec![good.clone(), rand_j(rng, 1), good];
            rng.shuffle(&mut xs);
            return J::Arr(xs);
        }
        10 => {
            // nested batch
            return J::Arr(vec![J::Arr(vec![J::Obj(m)])]);
        }
        _ => {
            // no known member at all
            m.retain(|p| !matches!(p.0.as_str(), "query" | "operationName" | "variables" | "extensions"));
        }
    }
    rng.shuffle(&mut m);
    J::Obj(m)
}

fn get_pair(k: &str, v: &str, j: Option<&J>) -> Sexp {
    let mut xs = vec![st(k), st(v)];
    if let Some(j) = j {
        xs.push(j_to_sexp(j));
    }
    list(xs)
}

fn encode_get(r: &Rq, rng: &mut Rng, dist: &mut Dist, malformed: bool) -> Sexp {
    let mut ps: Vec<Sexp> = vec![];
    if !(r.query.is_empty() && rng.chance(1, 2)) {
        ps.push(get_pair("query", &r.query, None));
    }
    if let Some(op) = &r.op {
        match rng.below(8) {
            0 => {
                dist.hit("get_legacy_operation_name_key");
                ps.push(get_pair("operation_name", op, None))
            }
            _ => ps.push(get_pair("operationName", op, None)),
        }
    }
    for (key, val) in [("variables", &r.vars), ("extensions", &r.exts)] {
        if val.is_empty() {
            match rng.below(4) {
                0 | 1 => {}
                2 => ps.push(get_pair(key, "null", Some(&J::Null))),
                _ => ps.push(get_pair(key, "{}", Some(&J::Obj(vec![])))),
            }
        } else {
            let j = J::Obj(val.clone());
            ps.push(get_pair(key, &text_of(&j, rng.chance(1, 4)), Some(&j)));
        }
    }
    if rng.chance(1, 4) {
        dist.hit("get_unknown_key");
        let k = (*rng.pick(&["id", "Query", "", "operationname", "q&a", "var iables"])).to_string();
        ps.push(get_pair(&k, &rand_text(rng, 3), None));
    }
    if malformed {
        let k = rng.below(6);
        dist.hit(&format!("get_malformed_{k}"));
        match k {
            0 => {
                // duplicate known key
                let key = *rng.pick(&["query", "operationName", "operation_name", "variables", "extensions"]);
                for _ in 0..2 {
                    match key {
                        "variables" | "extensions" => ps.push(get_pair(key, "{}", Some(&J::Obj(vec![])))),
                        _ => ps.push(get_pair(key, "x", None)),
                    }
                }
            }
            1 | 2 => {
                // value that is not JSON text
                let key = if k == 1 { "variables" } else { "extensions" };
                ps.retain(|p| p.as_list().unwrap()[0].as_str() != Some(key));
                let t = *rng.pick(&["", "{", "{\"a\":}", "{'a':1}", "a=b", "{\"a\":1}}", "nul", "\u{e9}"]);
                ps.push(get_pair(key, t, None));
            }
            3 | 4 => {
                // JSON text of the wrong shape
                let key = if k == 3 { "variables" } else { "extensions" };
                ps.retain(|p| p.as_list().unwrap()[0].as_str() != Some(key));
                let j = match rng.below(4) {
                    0 => J::Arr(vec![]),
                    1 => J::Int(rand_int(rng)),
                    2 => J::Str("{}".into()),
                    _ => J::Bool(false),
                };
                ps.push(get_pair(key, &text_of(&j, false), Some(&j)));
            }
            _ => {
                // both spellings of the operation name
                ps.push(get_pair("operation_name", "L", None));
                if r.op.is_none() {
                    ps.push(get_pair("operationName", "S", None));
                }
            }
        }
    }
    rng.shuffle(&mut ps);
    let style = if rng.chance(1, 5) { "all" } else { "std" };
    node("get", vec![atom(style), list(ps)])
}

fn echo_req(rng: &mut Rng, i: usize, n: usize) -> J {
    let mut vars: Vec<(String, J)> = vec![];
    if !rng.chance(1, 8) {
        vars.push(("v".into(), J::Str(format!("{}{}", i, rand_text(rng, 2)))));
    }
    // earlier requests of a batch take longer
    vars.push(("d".into(), J::Int(((n - i) * 3 + rng.below(3)) as i128)));
    let q = if rng.chance(1, 10) { "{".to_string() } else { ECHO_QUERY.to_string() };
    let mut m = vec![("query".to_string(), J::Str(q)), ("variables".to_string(), J::Obj(vars))];
    rng.shuffle(&mut m);
    J::Obj(m)
}

// ------------------------------------------------------------------ generator of the stream `bytes`

/// where the payload bytes go: the text of the request is produced with this private-use character in
/// one of its strings, whose UTF-8 form is then replaced by the payload
const MARK: char = '\u{E000}';
const MARK_BYTES: &[u8] = &[0xEE, 0x80, 0x80];

/// (name, bytes): v_ valid UTF-8 that may stand raw in a JSON string; c_ valid UTF-8 with a control
/// character (legal in a GET value, not raw in a JSON string); i_ not UTF-8
const PAYLOADS: &[(&str, &[u8])] = &[
    ("v_ascii", b"x"),
    ("v_del", &[0x7F]),
    ("v_2min", &[0xC2, 0x80]),
    ("v_2", &[0xC3, 0xA9]),
    ("v_2max", &[0xDF, 0xBF]),
    ("v_3min", &[0xE0, 0xA0, 0x80]),
    ("v_3", &[0xE4, 0xB8, 0xAD]),
    ("v_d7ff", &[0xED, 0x9F, 0xBF]),
    ("v_e001", &[0xEE, 0x80, 0x81]),
    ("v_bom_inside", &[0xEF, 0xBB, 0xBF]),
    ("v_fffd", &[0xEF, 0xBF, 0xBD]),
    ("v_ffff", &[0xEF, 0xBF, 0xBF]),
    ("v_4min", &[0xF0, 0x90, 0x80, 0x80]),
    ("v_4", &[0xF0, 0x9F, 0x98, 0x80]),
    ("v_max", &[0xF4, 0x8F, 0xBF, 0xBF]),
    ("c_nul", &[0x00]),
    ("c_nul_mid", &[0x61, 0x00, 0x62]),
    ("c_1f", &[0x1F]),
    ("i_ff", &[0xFF]),
    ("i_fe", &[0xFE]),
    ("i_bom16le", &[0xFF, 0xFE]),
    ("i_bom16be", &[0xFE, 0xFF]),
    ("i_overlong2_nul", &[0xC0, 0x80]),
    ("i_overlong2", &[0xC1, 0xBF]),
    ("i_overlong3", &[0xE0, 0x80, 0x80]),
    ("i_overlong3_max", &[0xE0, 0x9F, 0xBF]),
    ("i_overlong4", &[0xF0, 0x80, 0x80, 0x80]),
    ("i_overlong4_max", &[0xF0, 0x8F, 0xBF, 0xBF]),
    ("i_cont", &[0x80]),
    ("i_cont2", &[0xBF, 0xBF]),
    ("i_trunc2", &[0xC3]),
    ("i_trunc3a", &[0xE4]),
    ("i_trunc3b", &[0xE4, 0xB8]),
    ("i_trunc4a", &[0xF0]),
    ("i_trunc4b", &[0xF0, 0x9F]),
    ("i_trunc4c", &[0xF0, 0x9F, 0x98]),
    ("i_surrogate_hi", &[0xED, 0xA0, 0x80]),
    ("i_surrogate_lo", &[0xED, 0xBF, 0xBF]),
    ("i_cesu_pair", &[0xED, 0xA0, 0xBD, 0xED, 0xB8, 0x80]),
    ("i_above_max", &[0xF4, 0x90, 0x80, 0x80]),
    ("i_f5", &[0xF5, 0x80, 0x80, 0x80]),
    ("i_5byte", &[0xF8, 0x88, 0x80, 0x80, 0x80]),
    ("i_latin1_e9", &[0xE9]),
    ("i_valid_ff_valid", &[0xC3, 0xA9, 0xFF, 0xC3, 0xA9]),
];

/// bytes a random payload is made of (boundaries of the UTF-8 ranges; never `"` or `\`)
const RAND_BYTES: &[u8] = &[
    0x00, 0x1F, 0x20, 0x41, 0x7F, 0x80, 0x8F, 0x90, 0x9F, 0xA0, 0xBF, 0xC0, 0xC1, 0xC2, 0xC3, 0xDF, 0xE0, 0xE1, 0xEC, 0xED,
    0xEE, 0xEF, 0xF0, 0xF1, 0xF3, 0xF4, 0xF5, 0xF8, 0xFF,
];

fn rand_payload(rng: &mut Rng, dist: &mut Dist) -> Vec<u8> {
    let x: Vec<u8> = if rng.chance(1, 5) {
        let n = 1 + rng.below(5);
        (0..n).map(|_| *rng.pick(RAND_BYTES)).collect()
    } else {
        // half of the named payloads are well-formed
        let want = match rng.below(10) {
            0..=4 => "v_",
            5 => "c_",
            _ => "i_",
        };
        let (name, b) = loop {
            let p = *rng.pick(PAYLOADS);
            if p.0.starts_with(want) {
                break p;
            }
        };
        dist.hit(&format!("payload_{name}"));
        b.to_vec()
    };
    dist.hit(match std::str::from_utf8(&x) {
        Ok(t) if json_plain(t) => "payload_class_valid_plain",
        Ok(_) => "payload_class_valid_control",
        Err(_) => "payload_class_invalid_utf8",
    });
    x
}

/// may this text stand raw between the quotes of a JSON string
fn json_plain(t: &str) -> bool {
    t.chars().all(|c| c >= ' ' && c != '"' && c != '\\')
}

fn subst_str(s: &str, with: &str) -> String {
    s.replace(MARK, with)
}

fn subst_j(j: &J, with: &str) -> J {
    match j {
        J::Str(s) => J::Str(subst_str(s, with)),
        J::Arr(xs) => J::Arr(xs.iter().map(|x| subst_j(x, with)).collect()),
        J::Obj(kvs) => J::Obj(kvs.iter().map(|(k, v)| (subst_str(k, with), subst_j(v, with))).collect()),
        other => other.clone(),
    }
}

fn subst_bytes(text: &str, with: &[u8]) -> Vec<u8> {
    let b = text.as_bytes();
    let mut o = vec![];
    let mut i = 0;
    while i < b.len() {
        if b[i..].starts_with(MARK_BYTES) {
            o.extend_from_slice(with);
            i += MARK_BYTES.len();
        } else {
            o.push(b[i]);
            i += 1;
        }
    }
    o
}

fn insert_mark(rng: &mut Rng, s: &str) -> String {
    let cs: Vec<char> = s.chars().collect();
    let at = rng.below(cs.len() + 1);
    let mut o: String = cs[..at].iter().collect();
    o.push(MARK);
    o.extend(cs[at..].iter());
    o
}

/// a request with the marker in one of its strings (or nowhere: `site_none`)
fn rand_marked_req(rng: &mut Rng, dist: &mut Dist) -> Rq {
    let mut r = rand_req(rng, dist);
    // the marker must be the generator's only private-use character
    let k = rng.below(16);
    match k {
        0..=3 => {
            dist.hit("site_query");
            r.query = insert_mark(rng, &r.query);
        }
        4..=6 => {
            dist.hit("site_operation_name");
            r.op = Some(insert_mark(rng, r.op.as_deref().unwrap_or("")));
        }
        7..=9 => {
            dist.hit("site_variable_value");
            let t = rand_text(rng, 2);
            let v = insert_mark(rng, &t);
            let at = rng.below(r.vars.len() + 1);
            r.vars.insert(at, ("s".into(), if rng.chance(1, 3) { J::Arr(vec![J::Null, J::Str(v)]) } else { J::Str(v) }));
        }
        10 | 11 => {
            dist.hit("site_variable_key");
            let t = rand_text(rng, 2);
            let key = insert_mark(rng, &t);
            r.vars.push((key, J::Int(1)));
        }
        12 | 13 => {
            dist.hit("site_extension_value");
            let t = rand_text(rng, 2);
            let v = insert_mark(rng, &t);
            r.exts.push(("e".into(), J::Obj(vec![("k".into(), J::Str(v))])));
        }
        _ => dist.hit("site_none"),
    }
    r
}

fn table_sexp(t: &[(String, J)]) -> Sexp {
    let mut seen: Vec<&String> = vec![];
    let mut xs = vec![];
    for (text, j) in t {
        if !seen.contains(&text) {
            seen.push(text);
            xs.push(list(vec![st(text.clone()), j_to_sexp(j)]));
        }
    }
    list(xs)
}

fn hdr_sexp(h: &[(String, String)]) -> Sexp {
    list(h.iter().map(|(k, v)| list(vec![st(k.clone()), st(v.clone())])).collect())
}

const PART_TYPES: &[&str] = &[
    "application/json",
    "application/json; charset=utf-8",
    "application/json; charset=UTF-8",
    "application/json; charset=iso-8859-1",
    "application/json; charset=latin1",
    "application/json; charset=windows-1252",
    "application/json; charset=utf-16",
    "application/json; charset=utf-16le",
    "application/json; charset=utf-16be",
    "application/json; charset=us-ascii",
    "application/json; charset=shift_jis",
    "application/json; charset=x-unknown",
    "application/json; charset=\"iso-8859-1\"",
    "text/plain; charset=iso-8859-1",
    "application/graphql-response+json; charset=utf-16",
    "application/octet-stream",
];

const TRANSFER_ENCODINGS: &[&str] = &["base64", "quoted-printable", "8bit", "7bit", "binary", "x-unknown"];

fn rand_part_headers(rng: &mut Rng, dist: &mut Dist) -> Vec<(String, String)> {
    let mut h = vec![];
    if rng.chance(3, 4) {
        let t = *rng.pick(PART_TYPES);
        if t.contains("charset") {
            dist.hit("part_content_type_with_charset");
        }
        h.push(((*rng.pick(&["Content-Type", "content-type", "CONTENT-TYPE"])).to_string(), t.to_string()));
    }
    if rng.chance(1, 4) {
        dist.hit("part_content_transfer_encoding");
        h.push(("Content-Transfer-Encoding".to_string(), (*rng.pick(TRANSFER_ENCODINGS)).to_string()));
    }
    rng.shuffle(&mut h);
    h
}

fn utf16(text: &str, le: bool, bom: bool) -> Vec<u8> {
    let mut o = vec![];
    let mut put = |u: u16| {
        if le {
            o.extend_from_slice(&u.to_le_bytes())
        } else {
            o.extend_from_slice(&u.to_be_bytes())
        }
    };
    if bom {
        put(0xFEFF);
    }
    for u in text.encode_utf16() {
        put(u);
    }
    o
}

/// document-level changes of the bytes `b` of the JSON text `text`
fn perturb_doc(rng: &mut Rng, dist: &mut Dist, text: &str, b: Vec<u8>) -> Vec<u8> {
    let k = rng.below(24);
    let cat = |x: &[u8], y: &[u8]| [x, y].concat();
    let (name, out): (&str, Vec<u8>) = match k {
        0 | 1 => ("doc_bom_utf8_prefix", cat(&[0xEF, 0xBB, 0xBF], &b)),
        2 => ("doc_bom_utf16le_prefix", cat(&[0xFF, 0xFE], &b)),
        3 => ("doc_bom_utf16be_prefix", cat(&[0xFE, 0xFF], &b)),
        4 => ("doc_bom_utf8_suffix", cat(&b, &[0xEF, 0xBB, 0xBF])),
        5 => ("doc_nul_prefix", cat(&[0x00], &b)),
        6 => ("doc_nul_suffix", cat(&b, &[0x00])),
        7 => ("doc_utf16le_bom", utf16(text, true, true)),
        8 => ("doc_utf16be_bom", utf16(text, false, true)),
        9 => ("doc_utf16le", utf16(text, true, false)),
        10 | 12 | 13 => {
            // every character as one byte, as a Latin-1 writer would send it (characters outside
            // Latin-1 become `?`)
            ("doc_latin1", text.chars().map(|c| if (c as u32) < 0x100 { c as u32 as u8 } else { b'?' }).collect())
        }
        11 => ("doc_bom_after_space", cat(&[0x20, 0xEF, 0xBB, 0xBF], &b)),
        _ => ("doc_plain", b.clone()),
    };
    // the table of the case only knows the unperturbed text: keep a perturbation only when its bytes
    // are not, by accident, another JSON text
    if out != b
        && let Ok(t) = std::str::from_utf8(&out)
        && serde_json::from_str::<serde_json::Value>(t).is_ok()
    {
        dist.hit("doc_perturbation_dropped");
        dist.hit("doc_plain");
        return b;
    }
    dist.hit(name);
    out
}

/// (bytes, table) of a request document with a payload and possibly a document-level change
fn rand_doc_bytes(rng: &mut Rng, dist: &mut Dist) -> (Vec<u8>, Vec<(String, J)>) {
    let r = rand_marked_req(rng, dist);
    let doc = if rng.chance(1, 6) {
        dist.hit("doc_is_batch");
        J::Arr(vec![encode_json(&rand_req(rng, dist), rng, dist), encode_json(&r, rng, dist)])
    } else if rng.chance(1, 10) {
        dist.hit("doc_is_malformed");
        malform_json(&r, rng, dist)
    } else {
        encode_json(&r, rng, dist)
    };
    let x = rand_payload(rng, dist);
    let text = text_of(&doc, rng.chance(1, 5));
    let b = subst_bytes(&text, &x);
    let mut table = vec![];
    let mut plain_text = None;
    if !text.contains(MARK) {
        // no payload site in this document: the payload is not sent
        table.push((text.clone(), doc.clone()));
        plain_text = Some(text.clone());
    } else if let Ok(xt) = std::str::from_utf8(&x)
        && json_plain(xt)
    {
        let t = subst_str(&text, xt);
        table.push((t.clone(), subst_j(&doc, xt)));
        plain_text = Some(t);
    }
    let b = match &plain_text {
        Some(t) => perturb_doc(rng, dist, t, b),
        // without a text (payload not UTF-8 / not plain) only byte-level changes
        None => match rng.below(12) {
            0 => {
                dist.hit("doc_bom_utf8_prefix");
                [&[0xEF, 0xBB, 0xBF][..], &b].concat()
            }
            _ => {
                dist.hit("doc_plain");
                b
            }
        },
    };
    (b, table)
}

const BODY_TYPES: &[&str] = &[
    "application/json",
    "application/json; charset=utf-8",
    "application/json; charset=iso-8859-1",
    "application/json; charset=utf-16",
    "application/graphql-response+json; charset=utf-8",
    "text/plain; charset=us-ascii",
];

fn json_text_entry(j: &J) -> (String, J) {
    (text_of(j, false), j.clone())
}

fn gen_bytes_case(rng: &mut Rng, dist: &mut Dist) -> Sexp {
    let k = rng.below(100);
    match k {
        0..=54 => {
            dist.hit("kind_bdoc");
            let (b, table) = rand_doc_bytes(rng, dist);
            let ct = if rng.chance(1, 3) { atom("none") } else { st(*rng.pick(BODY_TYPES)) };
            let hdrs = rand_part_headers(rng, dist);
            if !b.is_ascii() {
                dist.hit("bdoc_non_ascii_bytes");
                if hdrs.iter().any(|h| h.1.contains("charset")) {
                    dist.hit("bdoc_non_ascii_bytes_and_part_charset");
                }
            }
            node("bdoc", vec![ct, hdr_sexp(&hdrs), st(hex(&b)), table_sexp(&table)])
        }
        55..=74 => {
            dist.hit("kind_bmultipart");
            let (b, mut table) = rand_doc_bytes(rng, dist);
            let ops = node("opsb", vec![hdr_sexp(&rand_part_headers(rng, dist)), st(hex(&b))]);
            // the map part: `{}`, an entry without file, wrong shapes, each possibly with a payload / BOM
            let x = rand_payload(rng, dist);
            let xt = std::str::from_utf8(&x).ok().filter(|t| json_plain(t));
            let marked: J = match rng.below(8) {
                0 | 1 | 2 => J::Obj(vec![]),
                3 => J::Obj(vec![(format!("0{MARK}"), J::Arr(vec![J::Str("variables.f".into())]))]),
                4 => J::Obj(vec![("0".into(), J::Arr(vec![J::Str(format!("variables.{MARK}"))]))]),
                5 => J::Obj(vec![("0".into(), J::Arr(vec![])), ("0".into(), J::Arr(vec![J::Str("a".into())]))]),
                6 => (*rng.pick(&[J::Arr(vec![]), J::Null, J::Obj(vec![("a".into(), J::Int(1))]), J::Obj(vec![("a".into(), J::Arr(vec![J::Null]))]), J::Str("{}".into())])).clone(),
                _ => J::Obj(vec![("a".into(), J::Str(format!("{MARK}")))]),
            };
            let mtext = text_of(&marked, false);
            let mut mb = subst_bytes(&mtext, &x);
            if !mtext.contains(MARK) {
                table.push((mtext.clone(), marked.clone()));
            } else if let Some(xt) = xt {
                table.push((subst_str(&mtext, xt), subst_j(&marked, xt)));
            }
            match rng.below(10) {
                0 => {
                    dist.hit("map_bom_prefix");
                    mb = [&[0xEF, 0xBB, 0xBF][..], &mb].concat();
                }
                1 => {
                    dist.hit("map_invalid_suffix");
                    mb.push(0xFF);
                }
                2 => {
                    dist.hit("map_utf16");
                    mb = utf16(&String::from_utf8_lossy(&mb), true, true);
                }
                _ => {}
            }
            let map = node("mapb", vec![hdr_sexp(&rand_part_headers(rng, dist)), st(hex(&mb))]);
            let mut parts = vec![ops, map];
            if rng.chance(1, 5) {
                dist.hit("bmultipart_extra_field");
                let n = rng.below(4);
                let junk: Vec<u8> = (0..n).map(|_| *rng.pick(RAND_BYTES)).collect();
                parts.push(node("fieldb", vec![st("note"), st(hex(&junk))]));
            }
            rng.shuffle(&mut parts);
            node("bmultipart", vec![list(parts), table_sexp(&table)])
        }
        _ => {
            dist.hit("kind_bget");
            let r = rand_marked_req(rng, dist);
            let x = rand_payload(rng, dist);
            let strict = std::str::from_utf8(&x).ok().map(|t| t.to_string());
            let lossy = String::from_utf8_lossy(&x).to_string();
            if strict.is_none() {
                dist.hit("bget_invalid_utf8");
            }
            let mut table: Vec<(String, J)> = vec![];
            let mut pairs: Vec<(Vec<u8>, Vec<u8>)> = vec![];
            if !(r.query.is_empty() && rng.chance(1, 2)) {
                pairs.push((b"query".to_vec(), subst_bytes(&r.query, &x)));
            }
            if let Some(op) = &r.op {
                pairs.push((b"operationName".to_vec(), subst_bytes(op, &x)));
            }
            for (key, val) in [("variables", &r.vars), ("extensions", &r.exts)] {
                if val.is_empty() && rng.chance(1, 2) {
                    continue;
                }
                let j = J::Obj(val.clone());
                let text = text_of(&j, rng.chance(1, 4));
                let mut vb = subst_bytes(&text, &x);
                for t in strict.iter().chain(std::iter::once(&lossy)) {
                    if json_plain(t) || !text.contains(MARK) {
                        table.push((subst_str(&text, t), subst_j(&j, t)));
                    }
                }
                if rng.chance(1, 12) {
                    dist.hit("bget_value_bom_prefix");
                    vb = [&[0xEF, 0xBB, 0xBF][..], &vb].concat();
                }
                pairs.push((key.as_bytes().to_vec(), vb));
            }
            match rng.below(8) {
                0 => {
                    dist.hit("bget_unknown_key_with_payload");
                    pairs.push(([b"k", &x[..]].concat(), b"1".to_vec()));
                }
                1 => {
                    dist.hit("bget_unknown_key_value_payload");
                    pairs.push((b"id".to_vec(), x.clone()));
                }
                2 => {
                    dist.hit("bget_known_key_behind_bom");
                    pairs.push(([&[0xEF, 0xBB, 0xBF][..], b"query"].concat(), b"{ hidden }".to_vec()));
                }
                _ => {}
            }
            rng.shuffle(&mut pairs);
            let style = if rng.chance(1, 3) { "all" } else { "min" };
            let ps = pairs.iter().map(|(k, v)| list(vec![st(hex(k)), st(hex(v))])).collect();
            let _ = json_text_entry;
            node("bget", vec![atom(style), list(ps), table_sexp(&table)])
        }
    }
}

fn gen_case(rng: &mut Rng, _i: usize, o: &Opts, dist: &mut Dist) -> Sexp {
    if o.stream == "bytes" {
        return gen_bytes_case(rng, dist);
    }
    let r = rand_req(rng, dist);
    let ct = |rng: &mut Rng| atom(*rng.pick(&["none", "json", "gql", "text"]));
    let fmt = |rng: &mut Rng| atom(if rng.chance(1, 4) { "spaced" } else { "compact" });
    let k = rng.below(100);
    match k {
        0..=19 => {
            dist.hit("kind_get_valid");
            encode_get(&r, rng, dist, false)
        }
        20..=31 => {
            dist.hit("kind_get_malformed");
            encode_get(&r, rng, dist, true)
        }
        32..=46 => {
            dist.hit("kind_json_single");
            node("json", vec![ct(rng), fmt(rng), j_to_sexp(&encode_json(&r, rng, dist))])
        }
        47..=56 => {
            dist.hit("kind_json_batch");
            let n = 1 + rng.below(4);
            let mut xs = vec![encode_json(&r, rng, dist)];
            for _ in 1..n {
                let r2 = rand_req(rng, dist);
                xs.push(encode_json(&r2, rng, dist));
            }
            node("json", vec![ct(rng), fmt(rng), j_to_sexp(&J::Arr(xs))])
        }
        57..=71 => {
            dist.hit("kind_json_malformed");
            node("json", vec![ct(rng), fmt(rng), j_to_sexp(&malform_json(&r, rng, dist))])
        }
        72..=74 => {
            dist.hit("kind_json_truncated_text");
            // a strict prefix of the text of an object/array is never JSON
            let t = text_of(&encode_json(&r, rng, dist), false);
            let cs: Vec<char> = t.chars().collect();
            let cut = rng.below(cs.len());
            node("jsontext", vec![st(cs[..cut].iter().collect::<String>())])
        }
        75..=86 => {
            dist.hit("kind_multipart");
            let body = if rng.chance(1, 4) {
                J::Arr(vec![encode_json(&r, rng, dist), encode_json(&rand_req(rng, dist), rng, dist)])
            } else if rng.chance(1, 5) {
                malform_json(&r, rng, dist)
            } else {
                encode_json(&r, rng, dist)
            };
            let ops = if rng.chance(1, 4) {
                let t = *rng.pick(&["application/json", "text/plain", "application/graphql-response+json", "multipart/mixed; boundary=zz", "multipart/form-data"]);
                if t.starts_with("multipart/") {
                    dist.hit("multipart_operations_typed_multipart");
                }
                node("opsct", vec![st(t), j_to_sexp(&body)])
            } else {
                node("ops", vec![j_to_sexp(&body)])
            };
            let mut parts = vec![ops, node("map", vec![])];
            match rng.below(10) {
                0 => {
                    dist.hit("multipart_no_map");
                    parts.remove(1);
                }
                1 => {
                    dist.hit("multipart_no_operations");
                    parts.remove(0);
                }
                2 => {
                    dist.hit("multipart_two_operations");
                    parts.push(node("ops", vec![j_to_sexp(&if rng.chance(1, 3) { J::Int(1) } else { encode_json(&rand_req(rng, dist), rng, dist) })]));
                }
                3 => parts.push(node("field", vec![st("note"), st(rand_text(rng, 3))])),
                _ => {}
            }
            rng.shuffle(&mut parts);
            node("multipart", vec![list(parts)])
        }
        87 => {
            dist.hit("kind_multipart_no_boundary");
            node("mpnoboundary", vec![j_to_sexp(&encode_json(&r, rng, dist))])
        }
        _ => {
            dist.hit("kind_exec");
            let which = atom(if rng.chance(1, 2) { "schema" } else { "executor" });
            let n = rng.below(6);
            let body = if n == 0 {
                echo_req(rng, 0, 1)
            } else {
                J::Arr((0..n).map(|i| echo_req(rng, i, n)).collect())
            };
            node("exec", vec![which, j_to_sexp(&body)])
        }
    }
}

fn main() {
    main_loop(&mut gen_case, &mut run);
}
