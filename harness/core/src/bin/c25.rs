//! C25 — WebSocket sessions follow the graphql-ws and graphql-transport-ws protocols.
//!
//! The real `async_graphql::http::WebSocket` is driven poll by poll with a no-op waker.  Everything
//! it can observe is controlled by the case:
//!   * the client byte stream is a queue the harness fills (a message taken from it is logged),
//!   * `on_connection_init` / `on_ping` return futures that complete only when the step offers
//!     `ok` / `err`,
//!   * the `Executor` hands out operation streams (instance 0, 1, … in creation order) that are
//!     ready only in the poll whose step names the instance — so at most one stream is ready per
//!     poll and the iteration order of the `HashMap` of streams cannot matter,
//!   * the keep-alive `Timer` reads a virtual clock that advances by one unit per `tick`.
//!
//! Case     (ws PROTO KA STEP…)   STEP = ((MSG…) FUT STR TICK)        — see lean/AGV/Drive/C25.lean
//! Output   (tr EV…)              the session trace; polling stops after the stream ended.

use std::{
    collections::VecDeque,
    future::Future,
    pin::Pin,
    sync::{Arc, Mutex},
    task::{Context, Poll},
    time::Duration,
};

use agvh::*;
use async_graphql::{
    Data, Executor, Request, Response,
    http::{WebSocket, WebSocketProtocols, WsMessage},
    runtime::Timer,
};
use futures_util::{
    future::BoxFuture,
    stream::{BoxStream, Stream},
};

// ------------------------------------------------------------------ the controlled environment

enum QItem {
    Msg(Vec<u8>, Sexp),
    Eof,
}

#[derive(Default)]
struct Shared {
    queue: VecDeque<QItem>,
    log: Vec<Sexp>,
    fut: Option<bool>,
    str_ev: Option<(usize, Option<u64>)>,
    now: u64,
    n_inst: usize,
}

type Sh = Arc<Mutex<Shared>>;

struct ClientStream(Sh);

impl Stream for ClientStream {
    type Item = Vec<u8>;
    fn poll_next(self: Pin<&mut Self>, _cx: &mut Context<'_>) -> Poll<Option<Vec<u8>>> {
        let mut sh = self.0.lock().unwrap();
        match sh.queue.front() {
            None => Poll::Pending,
            Some(QItem::Eof) => {
                sh.log.push(node("r", vec![atom("eof")]));
                Poll::Ready(None)
            }
            Some(QItem::Msg(..)) => {
                let Some(QItem::Msg(bytes, echo)) = sh.queue.pop_front() else { unreachable!() };
                sh.log.push(echo);
                Poll::Ready(Some(bytes))
            }
        }
    }
}

#[derive(Clone)]
struct Exec(Sh);

struct OpStream {
    inst: usize,
    sh: Sh,
}

impl Stream for OpStream {
    type Item = Response;
    fn poll_next(self: Pin<&mut Self>, _cx: &mut Context<'_>) -> Poll<Option<Response>> {
        let mut sh = self.sh.lock().unwrap();
        match sh.str_ev {
            Some((inst, ev)) if inst == self.inst => {
                sh.str_ev = None;
                match ev {
                    Some(val) => {
                        let v = async_graphql::Value::from_json(serde_json::json!({"i": inst, "v": val})).unwrap();
                        Poll::Ready(Some(Response::new(v)))
                    }
                    None => Poll::Ready(None),
                }
            }
            _ => Poll::Pending,
        }
    }
}

impl Executor for Exec {
    async fn execute(&self, _request: Request) -> Response {
        Response::default()
    }
    fn execute_stream(&self, _request: Request, _session_data: Option<Arc<Data>>) -> BoxStream<'static, Response> {
        let mut sh = self.0.lock().unwrap();
        let inst = sh.n_inst;
        sh.n_inst += 1;
        Box::pin(OpStream { inst, sh: self.0.clone() })
    }
}

/// future returned by the init / ping callbacks: completes when the current step offers a result
struct CbFut<T> {
    sh: Sh,
    ok: fn() -> T,
}

impl<T> Future for CbFut<T> {
    type Output = async_graphql::Result<T>;
    fn poll(self: Pin<&mut Self>, _cx: &mut Context<'_>) -> Poll<Self::Output> {
        let mut sh = self.sh.lock().unwrap();
        match sh.fut.take() {
            Some(true) => Poll::Ready(Ok((self.ok)())),
            Some(false) => Poll::Ready(Err(async_graphql::Error::new("rej"))),
            None => Poll::Pending,
        }
    }
}

struct VTimer(Sh);

struct Delay {
    sh: Sh,
    deadline: u64,
}

impl Future for Delay {
    type Output = ();
    fn poll(self: Pin<&mut Self>, _cx: &mut Context<'_>) -> Poll<()> {
        if self.sh.lock().unwrap().now >= self.deadline { Poll::Ready(()) } else { Poll::Pending }
    }
}

impl Timer for VTimer {
    fn delay(&self, duration: Duration) -> BoxFuture<'static, ()> {
        let now = self.0.lock().unwrap().now;
        Box::pin(Delay { sh: self.0.clone(), deadline: now + duration.as_secs() })
    }
}

// ------------------------------------------------------------------ rendering client messages

const BAD: [&str; 10] = [
    "{",
    "",
    "[]",
    r#"{"type":"foo"}"#,
    r#"{"id":"id0"}"#,
    r#"{"type":"start","payload":{"query":"subscription { s }"}}"#,
    r#"{"type":"subscribe","id":"id0"}"#,
    r#"{"type":"start","id":5,"payload":{"query":"subscription { s }"}}"#,
    r#"{"type":"Connection_Init"}"#,
    r#"{"type":"stop"}"#,
];

fn render_msg(m: &Sexp) -> QItem {
    let a = m.args();
    let v = a.last().and_then(|x| x.as_usize()).unwrap_or(0);
    let id = || format!("id{}", a[0].as_usize().expect("id"));
    let (text, echo) = match m.tag().expect("msg tag") {
        "init" => (
            if v == 0 { r#"{"type":"connection_init"}"#.to_string() } else { r#"{"type":"connection_init","payload":{"token":"t"}}"#.to_string() },
            node("r", vec![atom("init")]),
        ),
        "start" => (
            format!(
                r#"{{"type":"{}","id":"{}","payload":{{"query":"subscription {{ s }}"}}}}"#,
                if v == 0 { "start" } else { "subscribe" },
                id()
            ),
            node("r", vec![atom("start"), a[0].clone()]),
        ),
        "stop" => (
            format!(r#"{{"type":"{}","id":"{}"}}"#, if v == 0 { "stop" } else { "complete" }, id()),
            node("r", vec![atom("stop"), a[0].clone()]),
        ),
        "term" => (
            if v == 0 { r#"{"type":"connection_terminate"}"#.to_string() } else { r#"{"type":"connection_terminate","payload":null}"#.to_string() },
            node("r", vec![atom("term")]),
        ),
        "ping" => (
            if v == 0 { r#"{"type":"ping"}"#.to_string() } else { r#"{"type":"ping","payload":{"a":1}}"#.to_string() },
            node("r", vec![atom("ping")]),
        ),
        "pong" => (
            if v == 0 { r#"{"type":"pong"}"#.to_string() } else { r#"{"type":"pong","payload":{"a":1}}"#.to_string() },
            node("r", vec![atom("pong")]),
        ),
        "bad" => (BAD[v % BAD.len()].to_string(), node("r", vec![atom("bad")])),
        "eof" => return QItem::Eof,
        t => panic!("unknown message kind {t}"),
    };
    QItem::Msg(text.into_bytes(), echo)
}

// ------------------------------------------------------------------ canonical output

fn reason(s: &str) -> Sexp {
    atom(match s {
        "timeout" => "timeout",
        "Too many initialisation requests." => "tooMany",
        "The handshake is not completed." => "handshake",
        "rej" => "cb",
        "Unauthorized" => "unauth",
        x if x.starts_with("Subscriber for") => "dupId",
        _ => "other",
    })
}

fn num_id(v: &serde_json::Value) -> Option<Sexp> {
    let s = v.as_str()?;
    let n: usize = s.strip_prefix("id")?.parse().ok()?;
    Some(num(n))
}

fn canon_text(t: &str) -> Sexp {
    let raw = || node("text", vec![st(t)]);
    let Ok(v) = serde_json::from_str::<serde_json::Value>(t) else { return raw() };
    let Some(obj) = v.as_object() else { return raw() };
    let Some(ty) = obj.get("type").and_then(|x| x.as_str()) else { return raw() };
    let keys: Vec<&str> = obj.keys().map(|k| k.as_str()).collect();
    let has_only = |ks: &[&str]| keys.len() == ks.len() && ks.iter().all(|k| keys.contains(k));
    match ty {
        "connection_ack" | "pong" if has_only(&["type"]) => node(ty, vec![]),
        "complete" if has_only(&["type", "id"]) => match num_id(&obj["id"]) {
            Some(id) => node(ty, vec![id]),
            None => raw(),
        },
        "next" | "data" if has_only(&["type", "id", "payload"]) => {
            let p = &obj["payload"];
            let ok_shape = p.as_object().map(|o| o.len() == 1).unwrap_or(false);
            match (num_id(&obj["id"]), p["data"]["i"].as_u64(), p["data"]["v"].as_u64()) {
                (Some(id), Some(i), Some(val)) if ok_shape => node(ty, vec![id, num(i), num(val)]),
                _ => raw(),
            }
        }
        "connection_error" if has_only(&["type", "payload"]) => match obj["payload"]["message"].as_str() {
            Some(m) => node(ty, vec![reason(m)]),
            None => raw(),
        },
        _ => raw(),
    }
}

// ------------------------------------------------------------------ running one case

fn run(case: &Sexp, dist: &mut Dist) -> Sexp {
    assert_eq!(case.tag(), Some("ws"));
    let a = case.args();
    let proto = match a[0].as_atom().unwrap() {
        "new" => WebSocketProtocols::GraphQLWS,
        "legacy" => WebSocketProtocols::SubscriptionsTransportWS,
        p => panic!("bad protocol {p}"),
    };
    let ka = a[1].as_usize().unwrap() as u64;
    let sh: Sh = Arc::new(Mutex::new(Shared::default()));
    let sh_init = sh.clone();
    let sh_ping = sh.clone();
    let ws = WebSocket::new(Exec(sh.clone()), ClientStream(sh.clone()), proto)
        .on_connection_init(move |_payload: serde_json::Value| CbFut::<Data> { sh: sh_init, ok: Data::default })
        .on_ping(move |_d: Option<&Data>, _p: Option<serde_json::Value>| CbFut::<Option<serde_json::Value>> {
            sh: sh_ping,
            ok: || None,
        })
        .keepalive_timeout(VTimer(sh.clone()), if ka > 0 { Some(Duration::from_secs(ka)) } else { None });
    let mut ws = Box::pin(ws);
    let waker = futures_util::task::noop_waker();
    let mut cx = Context::from_waker(&waker);
    for step in &a[2..] {
        let s = step.as_list().expect("step");
        {
            let mut g = sh.lock().unwrap();
            for m in s[0].as_list().expect("msgs") {
                g.queue.push_back(render_msg(m));
            }
            g.fut = match s[1].as_atom() {
                Some("ok") => Some(true),
                Some("err") => Some(false),
                _ => None,
            };
            g.str_ev = match s[2].tag() {
                Some("item") => Some((s[2].args()[0].as_usize().unwrap(), Some(s[2].args()[1].as_usize().unwrap() as u64))),
                Some("fin") => Some((s[2].args()[0].as_usize().unwrap(), None)),
                _ => None,
            };
            if s[3].as_atom() == Some("1") {
                g.now += 1;
            }
        }
        let r = ws.as_mut().poll_next(&mut cx);
        let mut g = sh.lock().unwrap();
        // what the poll did not consume is withdrawn: readiness is per poll
        g.fut = None;
        g.str_ev = None;
        let (ev, stop) = match r {
            Poll::Pending => (node("pending", vec![]), false),
            Poll::Ready(None) => (node("done", vec![]), true),
            Poll::Ready(Some(WsMessage::Text(t))) => (canon_text(&t), false),
            Poll::Ready(Some(WsMessage::Close(code, why))) => (node("close", vec![num(code), reason(&why)]), false),
        };
        dist.hit(&format!("out_{}", ev.tag().unwrap_or("?")));
        if let Some("close") = ev.tag() {
            dist.hit(&format!("close_{}", ev.args()[0]));
        }
        g.log.push(ev);
        if stop {
            break;
        }
    }
    let log = std::mem::take(&mut sh.lock().unwrap().log);
    node("tr", log)
}

// ------------------------------------------------------------------ generator

const NSYM: usize = 18;

fn msgs(xs: Vec<Sexp>) -> Sexp {
    list(xs)
}

fn step(ms: Vec<Sexp>, fut: &str, str_ev: Sexp, tick: bool) -> Sexp {
    list(vec![msgs(ms), atom(fut), str_ev, atom(if tick { "1" } else { "0" })])
}

fn m0(kind: &str, v: usize) -> Sexp {
    node(kind, vec![num(v)])
}
fn m1(kind: &str, id: usize, v: usize) -> Sexp {
    node(kind, vec![num(id), num(v)])
}
fn item(i: usize, v: usize) -> Sexp {
    node("item", vec![num(i), num(v)])
}
fn fin(i: usize) -> Sexp {
    node("fin", vec![num(i)])
}

/// the atomic steps of the bounded-exhaustive part; `v` varies the spelling
fn symbol(k: usize, v: usize) -> Sexp {
    let n = || atom("-");
    match k {
        0 => step(vec![], "-", n(), false),
        1 => step(vec![m0("init", v)], "-", n(), false),
        2 => step(vec![m1("start", 0, v)], "-", n(), false),
        3 => step(vec![m1("start", 1, v)], "-", n(), false),
        4 => step(vec![m1("stop", 0, v)], "-", n(), false),
        5 => step(vec![m0("term", v)], "-", n(), false),
        6 => step(vec![m0("ping", v)], "-", n(), false),
        7 => step(vec![m0("pong", v)], "-", n(), false),
        8 => step(vec![m0("bad", v)], "-", n(), false),
        9 => step(vec![node("eof", vec![])], "-", n(), false),
        10 => step(vec![], "ok", n(), false),
        11 => step(vec![], "err", n(), false),
        12 => step(vec![], "-", item(0, v), false),
        13 => step(vec![], "-", item(1, v), false),
        14 => step(vec![], "-", fin(0), false),
        15 => step(vec![], "-", n(), true),
        16 => step(vec![m0("init", v)], "ok", n(), false),
        17 => step(vec![m1("start", 0, v)], "-", item(0, v), false),
        _ => unreachable!(),
    }
}

fn pow(b: usize, e: usize) -> usize {
    (0..e).fold(1, |a, _| a * b)
}

/// number of bounded-exhaustive scripts for a tier, and the decoder of the i-th one
fn exhaustive(i: usize, lmax: usize) -> Option<(usize, usize, Vec<usize>)> {
    let mut i = i;
    for block in 0..4 {
        for len in 1..=lmax {
            let n = pow(NSYM, len);
            if i < n {
                let mut syms = vec![];
                let mut x = i;
                for _ in 0..len {
                    syms.push(x % NSYM);
                    x /= NSYM;
                }
                return Some((block & 1, block >> 1, syms));
            }
            i -= n;
        }
    }
    None
}

fn gen_case(rng: &mut Rng, i: usize, o: &Opts, dist: &mut Dist) -> Sexp {
    let lmax = if o.tier == "thorough" { 4 } else { 3 };
    if let Some((proto, prefix, syms)) = exhaustive(i, lmax) {
        dist.hit("exhaustive");
        let mut v = vec![atom(if proto == 0 { "new" } else { "legacy" }), num(2)];
        if prefix == 1 {
            v.push(symbol(16, 0));
        }
        for (j, k) in syms.iter().enumerate() {
            v.push(symbol(*k, (i + j) % 2));
        }
        return node("ws", v);
    }
    dist.hit("random");
    let proto = if rng.chance(1, 2) { "new" } else { "legacy" };
    dist.hit(&format!("proto_{proto}"));
    let ka = *rng.pick(&[0usize, 0, 1, 2, 3]);
    let len = 3 + rng.below(14);
    let mut started = 0usize;
    let mut steps = vec![];
    for j in 0..len {
        let mut ms = vec![];
        let nmsg = if j == 0 {
            1
        } else {
            match rng.below(20) {
                0..=7 => 0,
                8..=16 => 1,
                _ => 2,
            }
        };
        for q in 0..nmsg {
            let v = rng.below(2);
            let k = if j == 0 && q == 0 && rng.chance(3, 4) { 0 } else { rng.below(80) };
            let m = match k {
                0..=11 => m0("init", v),
                12..=41 => {
                    started += 1;
                    m1("start", rng.below(3), v)
                }
                42..=56 => m1("stop", rng.below(3), v),
                57..=59 => m0("term", v),
                60..=67 => m0("ping", v),
                68..=72 => m0("pong", v),
                73..=76 => m0("bad", rng.below(BAD.len())),
                _ => node("eof", vec![]),
            };
            dist.hit(&format!("msg_{}", m.tag().unwrap()));
            ms.push(m);
        }
        let fut = match rng.below(20) {
            0..=9 => "ok",
            10 => "err",
            _ => "-",
        };
        let sev = if rng.chance(1, 2) {
            let inst = rng.below(started.max(1) + 1);
            if rng.chance(3, 4) {
                dist.hit("str_item");
                item(inst, rng.below(10))
            } else {
                dist.hit("str_fin");
                fin(inst)
            }
        } else {
            atom("-")
        };
        let tick = ka > 0 && rng.chance(1, 4);
        if tick {
            dist.hit("tick");
        }
        steps.push(step(ms, fut, sev, tick));
    }
    let mut v = vec![atom(proto), num(ka)];
    v.extend(steps);
    node("ws", v)
}

fn main() {
    main_loop(&mut gen_case, &mut run);
}
